#!/usr/bin/env python3
"""Regenerates MANIFEST.json from props/registry.py (single source of truth). Run: .venv/bin/python tools_gen_manifest.py"""
import json, sys, os
sys.path.insert(0, os.path.dirname(os.path.abspath(__file__)))
from props import registry

BASE = "cd /repo && /venv/bin/python -m pytest -ra -q -p no:cacheprovider --timeout=900 --continue-on-collection-errors"
m = {
    "version": 1,
    "setup_cmd": "./setup.sh",
    "hooks": {
        "guard": "MITMPROXY_VERIF",
        "enable": "none needed: T1 reads /repo sources and imports /repo modules; T2 wraps functions inside the check process only",
        "baseline_off_cmd": BASE,
        "source_commits": [],
        "add_only": True,
    },
    "engines": [
        {"name": "pyvc", "path": "pyvc/", "serves_properties": sorted(registry.CLAIMED),
         "kind_free_text": "verification-condition generator: symbolic execution of the real /repo function sources (re-read each run) against sidecar contracts, one SMT query per (path, obligation), discharged by z3 5.1 with cvc5 as second back end; counter-models replayed natively on the real functions; bounded run-time contract checking (labelled bounded) where out of reach"},
    ],
    "checks": [],
    "not_applicable": [],
    "notes": "See DESIGN.md. proof = all T1 obligations carry the core of the statement; other = T1 proves mechanisms, composition bounded; exploration = bounded only.",
}
import re

_STALE = re.compile(r"\s*(?:One|Two|Three|Four|Five|Six|Seven) (?:defects?|recorded findings)\b[^.]*?(?:repaired|recorded)[^.]*\.(?=\s|$)")


def defects_sentence(pid):
    """generated from known_findings.d (the hand-written counts in registry.py go stale as repairs land)"""
    p = os.path.join(os.path.dirname(os.path.abspath(__file__)), "known_findings.d", pid + ".json")
    if not os.path.exists(p):
        return " No defect of the pinned tree was found for this property."
    d = json.load(open(p))
    commits = []
    for line in d.get("fixed", []):
        mm = re.match(r"fixed: property=C\d+ ([0-9a-f+]+) ", line)
        if mm:
            commits += [c for c in mm.group(1).split("+") if c not in commits]
    ids = sorted({re.sub(r"(KF-C\d+-\d+).*", r"\1", f["id"]) for f in d.get("findings", [])})
    out = []
    if d.get("fixed"):
        out.append(f"{len(d['fixed'])} defect(s) of the pinned tree repaired in /repo ({', '.join(commits)})")
    if ids:
        out.append(f"{len(ids)} recorded as known finding(s) ({', '.join(ids)})")
    return (" Defects: " + "; ".join(out) + ".") if out else " No defect of the pinned tree was found for this property."


for pid in registry.ALL:
    if pid in registry.CLAIMED:
        c = dict(registry.CLAIMED[pid])
        t = _STALE.sub("", c["text"]).replace(" Seven recorded findings (KF-C06-1..7).", "").rstrip()
        c["text"] = (t if t.endswith(".") else t + ".") + defects_sentence(pid)
        m["checks"].append({
            "property_id": pid,
            "quick_cmd": f"./check {pid} --tier quick",
            "thorough_cmd": f"./check {pid} --tier thorough",
            "evidence_file": f"/verif/evidence/{pid}.json",
            "replay_cmd_template": f"./check {pid} --replay {{path}}",
            "engine": "pyvc",
            "level_claimed": {"category": c["category"], "text": c["text"], "design_ref": f"DESIGN.md §6 {pid}"},
            "level_note": c["note"],
            "technique": c["technique"],
        })
    else:
        m["not_applicable"].append({"property_id": pid, "reason": registry.NOT_CLAIMED.get(pid, "check not built yet in this session; not claimed (see DESIGN.md §8)")})
json.dump(m, open(os.path.join(os.path.dirname(os.path.abspath(__file__)), "MANIFEST.json"), "w"), indent=1)
print("checks:", len(m["checks"]), "not_applicable:", len(m["not_applicable"]))
