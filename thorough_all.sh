#!/bin/bash
# runs every property module's thorough check, prints one summary line each (plus any non-OK lines)
cd /verif
for f in props/C[0-9][0-9].py; do p=$(basename $f .py); [ -n "$1" ] && [[ ! " $* " =~ " $p " ]] && continue
  t0=$(date +%s)
  out=$(PYVC_NPROC=${PYVC_NPROC:-8} timeout 5400 ./check $p --tier thorough 2>&1); rc=$?
  echo "$out" | grep -E "^\[$p\]" | cut -c1-230 | sed "s/^/rc=$rc $(( $(date +%s) - t0 ))s /"
  [ $rc -ne 0 ] && [ -z "$(echo "$out" | grep -E "^\[$p\]")" ] && echo "rc=$rc [$p] no summary line (timeout or crash)"
  echo "$out" | grep -E "^(VIOLATION|UNDECIDED|CHECKER-CRASH|STALE)" | cut -c1-260 | head -4
done
