#!/bin/bash
# re-evaluates every seeded change against the current checks (3 at a time, each in its own scratch worktree);
# one summary line per seed in .scratch/seed_sweep.log; seeded/*/eval.json are rewritten
cd /verif; mkdir -p .scratch
ls -d seeded/*/ | sed 's#/$##' | PYVC_NPROC=${PYVC_NPROC:-5} xargs -P ${SWEEP_JOBS:-3} -I{} ./seed_eval.sh {} > .scratch/seed_sweep.log 2>&1
grep -c "violations=[1-9]" .scratch/seed_sweep.log
grep -v "violations=[1-9]" .scratch/seed_sweep.log | cut -c1-200
