#!/bin/bash
# Builds /verif/.venv (Python 3.12) offline from /opt/veriftools/wheels and links /venv's site-packages
# so that the same interpreter can import z3/cvc5/crosshair/deal AND mitmproxy's third-party deps.
set -e
cd "$(dirname "$0")"
if [ -x .venv/bin/python ] && .venv/bin/python -c "import z3, cvc5, jsonschema, h2, OpenSSL" 2>/dev/null; then
  echo "setup: .venv already usable"; exit 0
fi
rm -rf .venv
/venv/bin/python -m venv .venv
export PIP_NO_INDEX=1
.venv/bin/python -m pip install -q --no-index --find-links /opt/veriftools/wheels z3-solver cvc5 jsonschema crosshair-tool deal icontract hypothesis >/dev/null
SP=$(.venv/bin/python -c "import site; print(site.getsitepackages()[0])")
echo "import site; site.addsitedir('/venv/lib/python3.12/site-packages')" > "$SP/zz_venv_link.pth"
.venv/bin/python -c "import z3, cvc5, jsonschema, h2, OpenSSL; print('setup: ok', z3.get_version_string())"
