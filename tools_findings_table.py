#!/usr/bin/env python3
"""Prints a markdown table of recorded known findings and repaired defects from known_findings.d/*.json."""
import glob, json, os, re
root = os.path.dirname(os.path.abspath(__file__))
rows_f, rows_k = [], []
for p in sorted(glob.glob(os.path.join(root, "known_findings.d", "*.json"))):
    d = json.load(open(p))
    seen = set()
    for f in d.get("findings", []):
        base = f["id"].split("/")[0].rstrip("abct")
        base = re.sub(r"(KF-C\d+-\d+).*", r"\1", f["id"])
        if base in seen:
            continue
        seen.add(base)
        rows_k.append((f["property"], base, f["what"].replace("|", "\\|")))
    for line in d.get("fixed", []):
        m = re.match(r"fixed: property=(C\d+) (\w+) (.*)", line)
        if m:
            rows_f.append((m.group(1), m.group(2), m.group(3).replace("|", "\\|")))
print("| Prop | Repaired in /repo (`fix:` commit) | What failed |\n|---|---|---|")
for r in rows_f:
    print(f"| {r[0]} | `{r[1]}` | {r[2]} |")
print("\n| Prop | Known finding | What fails (recorded, not repaired) |\n|---|---|---|")
for r in rows_k:
    print(f"| {r[0]} | {r[1]} | {r[2]} |")
