"""C46 — mitmweb requires authentication and blocks cross-site state changes.

T1 (mechanisms, on the real source):
  AuthRequestHandler._require_auth(fn)   the wrapper every handler method is replaced by: without a valid signed cookie and
        without a valid password (Bearer header, else ?token=) it answers 403, calls auth_fail, does NOT call fn, sets no
        cookie and returns None; with a valid password it sets the signed auth cookie (HttpOnly, SameSite=Strict) and then
        calls fn with the same arguments; with a valid cookie it calls fn directly;
  RequestHandler.prepare                 a state-changing method (not GET/HEAD/OPTIONS) whose Sec-Fetch-Site header is present
        and neither same-origin nor none is refused before the handler runs;
  WebAuth.is_valid_password              true exactly for the configured password (plaintext) / for what the argon2 verifier
        accepts (hash); a verification error is `False`, never an exception.
T2 (bounded, exhaustive over the route table): the real tornado Application — every (route, method) pair of
`handlers` x credentials {none, wrong, malformed, valid token in header / query, valid cookie} x Sec-Fetch-Site values x
XSRF token {absent, wrong, valid}, the WebSocket endpoint, and that every handler class carries the wrapper on every
implemented method (the effect of __init_subclass__, which is class reflection and not interpreted).
"""
from pyvc.api import *
from props.prelude import *

CLAIM = "other"
EXPLANATION = ("T1 proves the three mechanisms (auth wrapper, Sec-Fetch-Site check, password check) on their real source; that every route of the Application is an "
               "AuthRequestHandler subclass whose methods were wrapped by __init_subclass__, that tornado enforces xsrf_cookies and dispatches prepare() before the method, "
               "and the WebSocket upgrade path are framework behaviour, checked on the real Application for every (route, method) pair (bounded, exhaustive over the route table).")
APP = "mitmproxy.tools.web.app:"
AR = APP + "AuthRequestHandler"
M = "props.C46:"
ASSUMPTIONS = [
    "tornado is trusted: RequestHandler.current_user (signed-cookie check), get_argument, set_signed_cookie, set_status, the xsrf_cookies machinery, routing and the order prepare() -> method are framework behaviour; in T1 the handler is a model object exposing exactly these operations, T2 runs the real ones",
    "AuthRequestHandler.__init_subclass__ (getattr/setattr on classes over SUPPORTED_METHODS) is reflection and is not interpreted; its effect is checked in T2 on every handler class of the route table",
    "argon2.PasswordHasher.verify either returns True or raises argon2.exceptions.VerificationError (VerifyMismatchError / InvalidHashError are subclasses); the stored hash was validated by WebAuth.configure",
    "hmac.compare_digest is equality on ASCII strings and raises TypeError for non-ASCII str arguments (CPython behaviour, modelled exactly; timing is not modelled)",
    "static assets (/static/...) are served by tornado's StaticFileHandler without authentication; they contain no flow data and are outside the route table checked here",
]


class HandlerModel:
    """what the auth wrapper uses of a tornado RequestHandler"""
    AUTH_COOKIE_VALUE = b"y"

    def get_argument(self, name, default=None):
        self.log.append(("get_argument", name))
        return self.query_token if name == "token" else default

    def set_status(self, code):
        self.status = code

    def auth_fail(self, invalid_password):
        self.log.append(("auth_fail", invalid_password))

    def set_signed_cookie(self, name, value, **kw):
        self.cookies.append((name, value, kw))

    def is_valid_password(self, password):
        self.asked.append(password)
        return self.password_ok

    def auth_cookie_name(self):
        return "mitmproxy-auth-8081"

    def fn(self, *args, **kwargs):
        self.log.append(("fn", args, kwargs))
        return self.fn_result


class Bag:
    pass


def mk_handler(vc, current_user, auth_header, query_token, password_ok):
    req = vc.new(M + "Bag", headers=vc.dict([] if auth_header is None else [("Authorization", auth_header)]))
    h = vc.new(M + "HandlerModel", current_user=current_user, request=req, query_token=query_token, password_ok=password_ok, status=200,
               log=vc.list([]), cookies=vc.list([]), asked=vc.list([]), fn_result=vc.sym_int("fn_result"), settings=None)
    h.settings = vc.dict([("is_valid_password", vc.bound(h, M + "HandlerModel.is_valid_password")), ("auth_cookie_name", vc.bound(h, M + "HandlerModel.auth_cookie_name"))])
    return h


def items(vc, l):
    return l.items if vc.mode == "sym" else l


@scenario("_require_auth.wrapper", functions=[AR + "._require_auth"], extra_inline_roots=["/verif/props"])
def s_require_auth(vc):
    import mitmproxy.tools.web.app as webapp
    user = vc.case("current_user", [False, True])
    hdr_kind = vc.case("authorization_header", ["absent", "Bearer <token>", "arbitrary"])
    header = None
    bearer = vc.sym_str("bearer_token")
    if hdr_kind == "Bearer <token>":
        vc.assume(Not(contains(bearer, " ")) if False else True)
        header = "Bearer " + bearer
    elif hdr_kind == "arbitrary":
        header = vc.sym_str("authorization")
    qtoken = vc.sym_str("query_token")
    ok = vc.sym_bool("password_ok")
    h = mk_handler(vc, user, header, qtoken, ok)
    # the wrapper as AuthRequestHandler.__init_subclass__ builds it
    if vc.mode == "sym":
        w = vc.call(AR + "._require_auth", vc.bound(h, M + "HandlerModel.fn").func if False else vc.const(M + "HandlerModel.fn"))
        vc.ensure("factory.no_exception", w.ok)
        if not w.ok:
            return
        wrapper = w.result.obj[1]
        out = vc.call(wrapper, h, "arg1", flow_id="42")
    else:
        wrapper = webapp.AuthRequestHandler._require_auth(HandlerModel.fn)
        vc.ensure("factory.no_exception", callable(wrapper))
        out = vc.call(wrapper, h, "arg1", flow_id="42")
    vc.ensure("no_exception", out.ok)
    if not out.ok:
        return
    log, cookies, asked = items(vc, h.log), items(vc, h.cookies), items(vc, h.asked)
    fn_calls = [e for e in log if _tag(e) == "fn"]
    fails = [e for e in log if _tag(e) == "auth_fail"]
    if user:
        vc.ensure("cookie_session.fn_called_once_result_returned", And(len(fn_calls) == 1, out.result == h.fn_result))
        vc.ensure("cookie_session.no_password_check_no_cookie_no_status", And(len(asked) == 0 and len(cookies) == 0 and len(fails) == 0, vc.eq(h.status, 200)))
        return
    # which password is presented: the Bearer parameter if there is a non-empty one, else the token query argument
    if hdr_kind == "Bearer <token>":
        use_bearer = vc.branch(len_(bearer) > 0)
        expected = bearer if use_bearer else qtoken
    elif hdr_kind == "arbitrary":
        scheme_is_bearer = vc.branch(startswith(header, "Bearer "))
        rest = header[7:] if scheme_is_bearer else None
        use_bearer = scheme_is_bearer and vc.branch(len_(rest) > 0)
        expected = rest if use_bearer else qtoken
    else:
        expected = qtoken
    vc.ensure("password.checked_exactly_once", len(asked) == 1)
    if len(asked) == 1:
        vc.ensure("password.is_bearer_param_else_query_token", asked[0] == expected)
    if vc.branch(ok):
        vc.ensure("valid.fn_called_once_with_same_arguments", _args_ok(vc, fn_calls[0]) if len(fn_calls) == 1 else False)
        vc.ensure("valid.result_returned", out.result == h.fn_result)
        vc.ensure("valid.session_cookie_set_once", len(cookies) == 1)
        if len(cookies) == 1:
            c = cookies[0]
            c = c.items if vc.mode == "sym" else c
            kw = c[2]
            kwd = {k.concrete(): v for k, v in kw.items} if vc.mode == "sym" else kw
            vc.ensure("valid.cookie_name_and_value", And(vc.eq(c[0], "mitmproxy-auth-8081"), vc.eq(c[1], b"y")))
            vc.ensure("valid.cookie_httponly_samesite_strict", And(vc.eq(kwd["httponly"], True), vc.eq(kwd["samesite"], "Strict")) if ("httponly" in kwd and "samesite" in kwd) else False)
        vc.ensure("valid.no_refusal_side_effects", And(len(fails) == 0, vc.eq(h.status, 200)))
    else:
        vc.ensure("refused.status_403", vc.eq(h.status, 403))
        vc.ensure("refused.handler_not_called", len(fn_calls) == 0)
        vc.ensure("refused.returns_none", isnone(out.result))
        vc.ensure("refused.no_cookie", len(cookies) == 0)
        vc.ensure("refused.auth_fail_called_once", len(fails) == 1)
        if len(fails) == 1:
            e = fails[0]
            e = e.items if vc.mode == "sym" else e
            vc.ensure("refused.auth_fail_told_whether_a_password_was_given", Iff(e[1], len_(expected) > 0) if vc.mode == "sym" else (bool(e[1]) == (len(expected) > 0)))


def _tag(e):
    if isinstance(e, STuple):
        return e.items[0].concrete()
    return e[0]


def _args_ok(vc, e):
    e = e.items if vc.mode == "sym" else e
    args, kw = e[1], e[2]
    args = args.items if vc.mode == "sym" else args
    kwd = {k.concrete(): v for k, v in kw.items} if vc.mode == "sym" else kw
    return And(vc.eq(args[0], "arg1"), vc.eq(kwd["flow_id"], "42")) if (len(args) == 1 and list(kwd) == ["flow_id"]) else False


# ---------------------------------------------------------------------------------------------------------------------


@scenario("RequestHandler.prepare", functions=[APP + "RequestHandler.prepare"])
def s_prepare(vc):
    import tornado.web
    method = vc.case("method", ["GET", "HEAD", "OPTIONS", "POST", "PUT", "DELETE", "PATCH", "symbolic"])
    m = vc.sym_str("method_v") if method == "symbolic" else method
    has = vc.case("sec_fetch_site", ["absent", "present"])
    site = vc.sym_str("site")
    req = vc.new(M + "Bag", method=m, headers=vc.dict([("Sec-Fetch-Site", site)] if has == "present" else []))
    h = vc.new(M + "Bag", request=req)
    import mitmproxy.tools.web.app as webapp
    out = vc.call(APP + "RequestHandler.prepare" if vc.mode == "sym" else webapp.RequestHandler.prepare, h)
    safe = Or(m == "GET", m == "HEAD", m == "OPTIONS")
    cross = And(Not(safe), has == "present", Not(Or(site == "same-origin", site == "none")))
    if vc.branch(cross):
        vc.ensure("cross_site_state_change.refused_before_handler", not out.ok)
        if not out.ok:
            # tornado turns tornado.web.HTTPError(403) into a 403 response; any other exception into 500 + traceback in the log
            vc.ensure("cross_site_state_change.answered_403", issubclass(out.raised_type(), tornado.web.HTTPError))   # was KF-C46-2
    else:
        vc.ensure("otherwise.passes", out.ok)


# ---------------------------------------------------------------------------------------------------------------------

WA = "mitmproxy.tools.web.webaddons:WebAuth"


class HasherModel:
    def verify(self, hash, password):
        self.calls.append((hash, password))
        if not self.accepts:
            import argon2
            raise argon2.exceptions.VerifyMismatchError("The password does not match the supplied hash")
        return True


@scenario("WebAuth.is_valid_password", functions=[WA + ".is_valid_password"])
def s_password(vc):
    mode = vc.case("stored", ["plaintext", "argon2 hash"])
    given = vc.sym_str("given")
    if mode == "plaintext":
        stored = vc.sym_str("stored")
        vc.assume(len_(stored) > 0)                     # class invariant: configure() falls back to a random token
        vc.assume(Not(startswith(stored, "$")))
    else:
        stored = "$" + vc.sym_str("hash_rest")
    hasher = vc.new(M + "HasherModel", accepts=vc.sym_bool("hasher_accepts"), calls=vc.list([]))
    wa = vc.new(WA, _password=stored, _hasher=hasher)
    out = vc.call(WA + ".is_valid_password", wa, given)
    if mode == "plaintext":
        vc.ensure("plaintext.no_exception", out.ok)   # non-ASCII text made hmac.compare_digest raise: KF-C46-1, fixed in 2f47ac10e / 0129de075
        if not out.ok:
            return
        vc.ensure("plaintext.true_iff_equal", Iff(out.result, given == stored))
        vc.ensure("plaintext.empty_password_rejected", Implies(len_(given) == 0, Not(out.result)))
    else:
        vc.ensure("hash.no_exception", out.ok)
        if not out.ok:
            return
        calls = items(vc, hasher.calls)
        vc.ensure("hash.verifier_asked_with_stored_hash_and_given_password", vc.eq(calls[0], (stored, given)) if len(calls) == 1 else False)
        vc.ensure("hash.true_iff_verifier_accepts", Iff(out.result, hasher.accepts))


def _memoised(vc, ref):
    """the function is wrapped by a result cache (functools.lru_cache / cache).  The engine treats such decorators as
    transparent, which is only sound for functions of their arguments alone — is_valid_password also reads self._password"""
    if vc.mode == "native":
        from pyvc.vc import resolve_ref
        return hasattr(resolve_ref(ref)[2], "cache_info")
    return any(d.split(".")[-1] in ("lru_cache", "cache", "cached_property") for d in vc._ifunc(ref).decorators)


@scenario("WebAuth.is_valid_password.after_reconfigure", functions=[WA + ".is_valid_password", WA + ".configure"])
def s_password_history(vc):
    """History: a password is presented, the option web_password is changed at run time, a password is presented again.
    The second answer must be about the CURRENT password only."""
    old, new = vc.sym_str("old_password"), vc.sym_str("new_password")
    first, second = vc.sym_str("first_given"), vc.sym_str("second_given")
    for s in (old, new):
        vc.assume(len_(s) > 0)
        vc.assume(Not(startswith(s, "$")))
    hasher = vc.new(M + "HasherModel", accepts=False, calls=vc.list([]))
    wa = vc.new(WA, _password=old, _hasher=hasher)
    import mitmproxy.ctx as mctx
    mctx.options = mk_options(vc, web_password=new, web_port=8081)
    vc.ensure("answers_depend_on_mutable_state.not_memoised", not _memoised(vc, WA + ".is_valid_password"))
    o1 = vc.call(WA + ".is_valid_password", wa, first)
    vc.ensure("first.no_exception", o1.ok)
    if not o1.ok:
        return
    vc.ensure("first.true_iff_old_password", Iff(o1.result, first == old))
    oc = vc.call(WA + ".configure", wa, {"web_password"} if vc.mode == "native" else vc.lift({"web_password"}))
    vc.ensure("configure.no_exception", oc.ok)
    if not oc.ok:
        return
    vc.ensure("configure.password_replaced", wa._password == new)
    o2 = vc.call(WA + ".is_valid_password", wa, second)
    vc.ensure("second.no_exception", o2.ok)
    if not o2.ok:
        return
    vc.ensure("second.true_iff_new_password", Iff(o2.result, second == new))
    vc.ensure("second.old_password_no_longer_accepted", Implies(And(second == old, old != new), Not(o2.result)))


def _ascii(vc, s):
    if vc.mode == "native":
        return s.isascii()
    from pyvc.libx_ui import all_in
    return SBool(all_in(s.t, [(0, 0x7F)]))


# =====================================================================================================================
# T2 (bounded, exhaustive over the route table): the real tornado Application

SAMPLE_ARGS = {"flow_id": "42", "cmd": "view.order.options", "message": "request", "content_view": "auto"}
METHODS = ["GET", "HEAD", "POST", "DELETE", "PATCH", "PUT", "OPTIONS"]
SECRETS = [b"SECRETPATH", b"SECRETHOST", b"SECRETFILTER", b"SECRETBODY", b"SECRETCOMMENT"]


def concrete_url(pattern):
    """a URL matched by a route pattern of `handlers` (named groups -> sample values, optional groups dropped)"""
    import re
    p = re.sub(r"\(\?P<(\w+)>[^)]*\)", lambda m: SAMPLE_ARGS[m.group(1)], pattern)
    p = re.sub(r"\(\?:[^)]*\)\?", "", p)
    return p.replace("\\.", ".").replace("\\", "")


def _snapshot(w):
    flows = [(f.id, repr(f.get_state())) for f in w.view]
    store = sorted(w.view._store.keys())
    opts = {k: repr(w.master.options._options[k].current()) for k in w.master.options.keys()}
    return (flows, store, opts, len(w.master.events.data), w.replayed[:])


def _reset(w):
    from mitmproxy.test import tflow
    w.view.clear()
    f = tflow.tflow(resp=True)
    f.id = "42"
    f.request.path = "/SECRETPATH"
    f.request.host = "SECRETHOST.example"
    f.request.content = b"SECRETBODY"
    f.comment = "SECRETCOMMENT"
    f2 = tflow.tflow(ws=True, resp=True)
    f2.id = "43"
    f2.request.path = "/SECRETPATH2"
    f2.intercept()
    w.view.add([f, f2])
    w.master.options.update(view_filter="", intercept="~u SECRETFILTER")
    w.dirty = False


def bounded(tier, seed):
    import itertools
    import tornado.web
    from tornado.httpclient import HTTPRequest
    import tornado.websocket
    from mitmproxy.addons import clientplayback
    from mitmproxy.tools.web import app as webapp
    from props.webui import WebApp

    b = Bounded()
    routes = [(pat, cls, concrete_url(pat)) for pat, cls in webapp.handlers]
    b.rule = ("the real mitmweb Application (xsrf_cookies on): every route of app.handlers x every tornado method x credentials {none, empty token, wrong token (query / Bearer), "
              "malformed (Bearer without parameter, Basic scheme, non-ASCII token, forged cookie), valid token (query / Bearer), valid signed cookie} x Sec-Fetch-Site "
              "{absent, same-origin, none, same-site, cross-site} x XSRF token {absent, wrong, valid}; checked: unauthenticated => 403 (405 where the route does not implement "
              "the method), no flow/option data in the answer, view / options / events / replay queue unchanged; authenticated state-changing request without valid XSRF token or "
              "marked cross-site => refused and state unchanged; the WebSocket endpoint /updates likewise; a run-time history of four web_password values (plaintext and argon2 hash), every password of the history presented after every change via query and Bearer: only the current one is accepted; every handler class carries the auth wrapper on every implemented "
              "method; distinct = (route, method, credential, Sec-Fetch-Site, xsrf); non-trivial = state-changing method or data-bearing route")
    b.bound = f"{len(routes)} routes x {len(METHODS)} methods; quick: reduced Sec-Fetch-Site/XSRF cross product for the non-cookie credentials"
    b.exhaustive = True
    # ---- structure: the effect of __init_subclass__ on every handler of the route table
    for pat, cls, url in routes:
        b.case(("wrapped", cls.__name__))
        if not issubclass(cls, webapp.AuthRequestHandler):
            b.fail("routes.handler_is_auth_handler", {"route": pat, "class": cls.__name__}, "not an AuthRequestHandler")
            continue
        for m in cls.SUPPORTED_METHODS:
            fn = getattr(cls, m.lower())
            if fn is tornado.web.RequestHandler._unimplemented_method:
                continue
            code = getattr(fn, "__code__", None)
            if not (hasattr(fn, "__wrapped__") and code is not None and code.co_name == "wrapper" and code.co_filename.endswith("tools/web/app.py")):
                b.fail("routes.every_method_wrapped", {"route": pat, "class": cls.__name__, "method": m}, repr(fn))
    w = WebApp.start(xsrf=True)
    orig_start_replay = clientplayback.ClientPlayback.start_replay
    try:
        w.replayed = []
        cp = w.master.addons.get("clientplayback")
        if cp is not None:
            # no network from the harness: record replay requests instead of connecting anywhere
            clientplayback.ClientPlayback.start_replay = lambda self, flows: w.replayed.append([f.id for f in flows])
        password = w.master.addons.get("webauth")._password
        cookie = w.auth_cookie()
        creds = {
            "none": ({}, ""),
            "empty-token": ({}, "token="),
            "wrong-token": ({}, "token=" + "0" * 32),
            "wrong-bearer": ({"Authorization": "Bearer " + "0" * 32}, ""),
            "bearer-without-param": ({"Authorization": "Bearer"}, ""),
            "basic-scheme-with-valid-password": ({"Authorization": "Basic " + password}, ""),
            "non-ascii-token": ({}, "token=%C3%A9"),
            "forged-cookie": ({"Cookie": w.webapp.settings["auth_cookie_name"]() + "=y"}, ""),
            "valid-token": ({}, "token=" + password),
            "valid-bearer": ({"Authorization": "Bearer " + password}, ""),
            "valid-cookie": ({"Cookie": cookie}, ""),
        }
        valid = {"valid-token", "valid-bearer", "valid-cookie"}
        sites = [None, "same-origin", "none", "same-site", "cross-site"]
        xsrfs = ["absent", "wrong", "valid"]
        _reset(w)
        for (pat, cls, url), method, cred in itertools.product(routes, METHODS, creds):
            full = cred == "valid-cookie" or (tier != "quick")
            combos = list(itertools.product(sites, xsrfs)) if full else [(None, "absent"), ("cross-site", "valid"), (None, "valid")]
            if cred not in valid and tier == "quick":
                combos = [(None, "absent"), ("cross-site", "valid"), (None, "valid"), ("same-origin", "wrong")]
            for site, xsrf in combos:
                headers, query = dict(creds[cred][0]), creds[cred][1]
                if site is not None:
                    headers["Sec-Fetch-Site"] = site
                if xsrf != "absent":
                    headers["Cookie"] = (headers.get("Cookie", "") + "; " if headers.get("Cookie") else "") + "_mitmproxy_xsrf=tok123"
                    headers["X-XSRFToken"] = "tok123" if xsrf == "valid" else "other"
                if w.dirty:
                    _reset(w)
                before = _snapshot(w)
                r = w.request(method, url + ("?" + query if query else ""), headers=headers, auth=False)
                after = _snapshot(w)
                state_changing = method not in ("GET", "HEAD", "OPTIONS")
                b.case((pat, method, cred, site, xsrf), nontrivial=state_changing or b"flows" in url.encode())
                inp = {"route": pat, "url": url, "method": method, "credentials": cred, "sec_fetch_site": site, "xsrf": xsrf}
                implemented = getattr(cls, method.lower()) is not tornado.web.RequestHandler._unimplemented_method
                body = r.body or b""
                if cred not in valid:
                    if after != before:
                        b.fail("unauthenticated.no_state_change", inp, f"status {r.code}")
                        w.dirty = True
                    if any(s in body for s in SECRETS):
                        b.fail("unauthenticated.no_data_disclosed", inp, repr(body[:200]))
                    if r.code != 403 and not (r.code == 405 and not implemented):
                        cross_site = state_changing and site not in (None, "same-origin", "none")
                        b.fail("unauthenticated.status_403.non_ascii_token" if cred == "non-ascii-token" else "unauthenticated.status_403.cross_site" if cross_site else "unauthenticated.status_403", inp, f"status {r.code}")
                    if any("mitmproxy-auth" in c for c in r.headers.get_list("Set-Cookie")):
                        b.fail("unauthenticated.no_session_cookie", inp, repr(r.headers.get_list("Set-Cookie")))
                    continue
                cross = site not in (None, "same-origin", "none")
                must_refuse = state_changing and (xsrf != "valid" or cross)
                if must_refuse:
                    if after != before:
                        b.fail("authenticated.cross_site_or_no_xsrf.no_state_change", inp, f"status {r.code}")
                        w.dirty = True
                    if r.code < 400:
                        b.fail("authenticated.cross_site_or_no_xsrf.refused", inp, f"status {r.code}")
                    elif r.code != 403 and not (r.code == 405 and not implemented):
                        b.fail("authenticated.cross_site.status_403" if (cross and xsrf == "valid") else "authenticated.no_xsrf.status_403", inp, f"status {r.code}")
                else:
                    if r.code == 403:
                        b.fail("authenticated.legitimate_request_not_refused", inp, f"status {r.code} body {body[:100]!r}")
                    if after != before:
                        w.dirty = True
        # ---- WebSocket endpoint
        base = f"ws://127.0.0.1:{w.get_http_port()}/updates"
        ws_cases = [("none", {}, "", False), ("wrong-token", {}, "?token=" + "0" * 32, False), ("valid-token", {}, "?token=" + password, True),
                    ("valid-cookie", {"Cookie": cookie}, "", True), ("valid-cookie-foreign-origin", {"Cookie": cookie, "Origin": "http://evil.example"}, "", False),
                    ("forged-cookie", {"Cookie": w.webapp.settings["auth_cookie_name"]() + "=y"}, "", False)]
        for name, headers, q, should_open in ws_cases:
            before = _snapshot(w)
            n_before = len(webapp.ClientConnection.connections)

            async def connect():
                try:
                    conn = await tornado.websocket.websocket_connect(HTTPRequest(base + q, headers=headers))
                except Exception as e:
                    return None, getattr(e, "code", None)
                return conn, 101

            conn, code = w.io_loop.run_sync(connect)
            b.case(("websocket", name))
            inp = {"endpoint": "/updates", "credentials": name}
            opened = conn is not None
            if opened != should_open:
                b.fail("websocket.refused_iff_not_authorised", inp, f"opened={opened} status={code}")
            if not should_open:
                if code != 403:
                    b.fail("websocket.status_403", inp, f"status {code}")
                if len(webapp.ClientConnection.connections) > n_before or _snapshot(w) != before:
                    b.fail("websocket.no_state_change", inp, "connection registered / state changed")
            if conn is not None:
                conn.close()
        # ---- history: the password is changed at run time (option web_password); only the CURRENT password opens the door
        import argon2
        _reset(w)
        stages = [("first-pw", "first-pw"), ("second-pw", "second-pw"), ("third-pw", argon2.PasswordHasher(time_cost=1, memory_cost=8, parallelism=1).hash("third-pw")), ("fourth-pw", "fourth-pw")]
        all_pw = [p for p, _ in stages] + ["never-valid"]
        for i, (plain, configured) in enumerate(stages):
            w.master.options.update(web_password=configured)
            for how in ("query", "bearer"):
                # present every password of the history (earlier ones were accepted before, later ones were refused before)
                for cand in all_pw:
                    headers = {"Authorization": "Bearer " + cand} if how == "bearer" else {}
                    q = "?token=" + cand if how == "query" else ""
                    before = _snapshot(w)[:3]
                    r = w.request("GET", "/flows" + q, headers=headers, auth=False)
                    b.case(("password-history", i, how, cand))
                    inp = {"history": [p for p, _ in stages[: i + 1]], "presented": cand, "via": how}
                    if cand == plain:
                        if r.code != 200:
                            b.fail("history.current_password_accepted", inp, f"status {r.code}")
                    else:
                        if r.code != 403 or any(x in (r.body or b"") for x in SECRETS) or any("mitmproxy-auth" in c for c in r.headers.get_list("Set-Cookie")):
                            b.fail("history.only_current_password_accepted", inp, f"status {r.code}, body {(r.body or b'')[:80]!r}")
                        if _snapshot(w)[:3] != before:   # (events excluded: the plaintext-password warning is logged asynchronously)
                            b.fail("history.only_current_password_accepted", inp, "state changed")
    finally:
        clientplayback.ClientPlayback.start_replay = orig_start_replay
        w.stop()
    return b
