"""C35 — header collections behave as a case-insensitive ordered multimap; HTTP/1 serialise/parse round trip.

Abstract view (the spec): a header collection IS its `fields` sequence [(name, value), ...].  Two names denote the
same header iff they are equal ignoring ASCII case (`lower(a) == lower(b)`; RFC 9110 §5.1).  Every operation is
specified as a function of the pre-state sequence and the arguments that determines the returned value and the
complete post-state sequence (so arbitrary histories follow by composition: `fields` is the only state, frame checked).
"""
from pyvc.api import *

CLAIM = "other"
H = "mitmproxy.http:Headers"
MD = "mitmproxy.coretypes.multidict:_MultiDict"


# ---------------------------------------------------------------------------------------------------------------
# spec helpers (work on symbolic and native values)

def lower_(vc, b):
    """canonical (case-folded) name: bytes.lower(), in proof mode the same uninterpreted idempotent function the
    engine uses for bytes.lower()"""
    if vc.mode == "native" or isinstance(b, bytes):
        return b.lower()
    import z3
    from pyvc import lib
    return SBytes(lib.uf("lower", z3.StringSort(), z3.StringSort())(b.t))


def same_name(vc, a, b):
    return lower_(vc, a) == lower_(vc, b)


def native_(vc, b):
    """text presentation of raw header bytes (documented: UTF-8 with surrogateescape); uninterpreted codec in proof mode"""
    if vc.mode == "native" or isinstance(b, bytes):
        return b.decode("utf-8", "surrogateescape")
    import z3
    from pyvc import lib
    return SStr(lib.uf("decode_utf-8_surrogateescape", z3.StringSort(), z3.StringSort())(b.t))


def count(conds):
    r = 0
    for c in conds:
        r = r + If(c, 1, 0)
    return r


def pick(items, idx):
    """items[idx] for a concrete list and a possibly symbolic in-range idx"""
    if not is_sym(idx):
        return items[min(idx, len(items) - 1)]  # out of range only where the caller ignores the value
    r = items[-1]
    for j in range(len(items) - 2, -1, -1):
        r = If(idx == j, items[j], r)
    return r


def items_of(x):
    return list(x.items) if isinstance(x, (STuple, SList)) else list(x)


def pair_eq(a, b):
    a, b = items_of(a), items_of(b)
    return And(len(a) == 2, a[0] == b[0], a[1] == b[1]) if len(a) == 2 else False


def ensure_filter(vc, tag, got, spec, eq=None):
    """got == [item for (cond, item) in spec if cond]  — one obligation for the length, one per spec element"""
    eq = eq or (lambda a, b: a == b)
    got = items_of(got)
    conds = [c for c, _ in spec]
    vc.ensure(tag + ".len", count(conds) == len(got))
    for i, (c, item) in enumerate(spec):
        before = count(conds[:i])
        if got:
            vc.ensure(f"{tag}.at[{i}]", Implies(c, And(*[Implies(before == j, eq(got[j], item)) for j in range(len(got))])))
        else:
            vc.ensure(f"{tag}.at[{i}]", Not(c))


def mk_fields(vc, n, prefix=""):
    names = [vc.sym_bytes(f"{prefix}n{i}") for i in range(n)]
    vals = [vc.sym_bytes(f"{prefix}v{i}") for i in range(n)]
    return names, vals, tuple((names[i], vals[i]) for i in range(n))


ALPHA = [b"a", b"A", b"b"]  # the statement's "small name alphabet differing in case"


def mk_headers(vc, n, prefix="", alphabet=False):
    """Pre-state collection with n fields. Names are arbitrary symbolic bytes; with alphabet=True the scenario is
    additionally explored with every assignment of concrete names from ALPHA (n <= 3): there bytes.lower() is computed,
    not abstracted, so a broken case-folding yields a counter-model that replays on the real code."""
    mode = vc.case("names", ["alphabet", "symbolic"]) if alphabet else "symbolic"  # alphabet first: its counter-models replay
    vc._c35_mode = mode
    if mode == "symbolic":
        names, vals, fields = mk_fields(vc, n, prefix)
        return vc.new(H, fields=fields), names, vals
    if n > 3:
        vc.assume(False)
    names = [vc.case(f"name{i}", ALPHA) for i in range(n)]
    vals = [vc.sym_bytes(f"{prefix}v{i}") for i in range(n)]
    return vc.new(H, fields=tuple((names[i], vals[i]) for i in range(n))), names, vals


def mk_key(vc):
    return vc.case("key", ALPHA) if getattr(vc, "_c35_mode", "symbolic") == "alphabet" else vc.sym_bytes("key")


def state_keys(vc, o):
    return sorted(o.fields if vc.mode == "sym" else o.__dict__)


def fields_of(vc, h):
    """the collection's `fields` tuple (SObj keeps its attributes in a dict that is itself called `fields`)"""
    return items_of(h.fields["fields"] if vc.mode == "sym" else h.fields)


def ensure_fields_unchanged(vc, tag, h, names, vals):
    post = fields_of(vc, h)
    vc.ensure(tag + ".fields_unchanged", And(len(post) == len(names), *[pair_eq(post[i], (names[i], vals[i])) for i in range(min(len(post), len(names)))]))
    vc.ensure(tag + ".frame", state_keys(vc, h) == ["fields"])


K = 5  # bound on the number of pre-existing fields in the per-operation contracts (names/values fully symbolic)
LENS = list(range(K + 1))


# ---------------------------------------------------------------------------------------------------------------
# lookups

@scenario("get_all", functions=[H + ".get_all", MD + ".get_all", H + "._kconv"])
def s_get_all(vc):
    n = vc.case("n", LENS)
    h, names, vals = mk_headers(vc, n, alphabet=True)
    key = mk_key(vc)
    out = vc.call(H + ".get_all", h, key)
    vc.ensure("no_exception", out.ok)
    if not out.ok:
        return
    match = [same_name(vc, names[i], key) for i in range(n)]
    ensure_filter(vc, "values", out.result, [(match[i], native_(vc, vals[i])) for i in range(n)])
    ensure_fields_unchanged(vc, "pure", h, names, vals)


def seq_result(out):
    """items of a result that is a list/tuple in proof mode and possibly a generator natively (then drained into trace)"""
    r = out.result
    if r is None or isnone(r):
        return list(out.trace)
    return items_of(r)


def folded(parts):
    """', '.join(s for (cond, s) in parts if cond)  (RFC 9110 §5.3: combined field value)"""
    acc, seen = "", False
    for c, s in parts:
        acc = If(c, If(seen, acc + ", " + s, s), acc)
        seen = Or(seen, c)
    return acc


@scenario("getitem", functions=[MD + ".__getitem__", H + ".get_all", H + "._reduce_values"])
def s_getitem(vc):
    n = vc.case("n", LENS)
    h, names, vals = mk_headers(vc, n, alphabet=True)
    key = mk_key(vc)
    out = vc.call(MD + ".__getitem__", h, key)
    match = [same_name(vc, names[i], key) for i in range(n)]
    present = Or(*match) if n else False
    vc.ensure("keyerror_iff_absent", Iff(not out.ok, Not(present)))
    if not out.ok:
        vc.ensure("raises_only_keyerror", issubclass(out.raised_type(), KeyError))
    else:
        vc.ensure("folded_in_order", out.result == folded([(match[i], native_(vc, vals[i])) for i in range(n)]))
    ensure_fields_unchanged(vc, "pure", h, names, vals)


@scenario("contains_get", functions=["_collections_abc:Mapping.__contains__", "_collections_abc:Mapping.get", MD + ".__getitem__"])
def s_contains(vc):
    n = vc.case("n", LENS[:4])
    h, names, vals = mk_headers(vc, n, alphabet=True)
    key = mk_key(vc)
    match = [same_name(vc, names[i], key) for i in range(n)]
    present = Or(*match) if n else False
    out = vc.call("_collections_abc:Mapping.__contains__", h, key)
    vc.ensure("contains.no_exception", out.ok)
    if out.ok:
        vc.ensure("contains.iff_some_field_matches", Iff(out.result, present))
    default = vc.sym_str("default")
    out = vc.call("_collections_abc:Mapping.get", h, key, default)
    vc.ensure("get.no_exception", out.ok)
    if out.ok:
        vc.ensure("get.value_or_default", out.result == If(present, folded([(match[i], native_(vc, vals[i])) for i in range(n)]), default))
    ensure_fields_unchanged(vc, "pure", h, names, vals)


# ---------------------------------------------------------------------------------------------------------------
# updates

def spec_set_all(vc, names, vals, key, new):
    """post-state of set_all(key, new) as [(kept?, (name, value))]: the first min(#old, #new) fields of that name get the
    new values in place (spelling kept), surplus old ones disappear, surplus new ones are appended under `key`;
    every other field keeps spelling, value and relative order."""
    n, m = len(names), len(new)
    match = [same_name(vc, names[i], key) for i in range(n)]
    spec = []
    for i in range(n):
        c_i = count(match[:i])
        keep = Or(Not(match[i]), c_i < m)
        val = If(match[i], pick(new, c_i), vals[i]) if m else vals[i]
        spec.append((keep, (names[i], val)))
    total = count(match)
    for j in range(m):
        spec.append((total <= j, (key, new[j])))
    return spec


def _mk_set_all(m):
    @scenario(f"set_all[values={m}]", functions=[H + ".set_all", MD + ".set_all"])
    def s_set_all(vc):
        n = vc.case("n", LENS)
        h, names, vals = mk_headers(vc, n, alphabet=True)
        key = mk_key(vc)
        new = [vc.sym_bytes(f"new{j}") for j in range(m)]
        arg = vc.list(new)
        out = vc.call(H + ".set_all", h, key, arg)
        vc.ensure("no_exception", out.ok)
        if not out.ok:
            return
        ensure_filter(vc, "post", fields_of(vc, h), spec_set_all(vc, names, vals, key, new), eq=pair_eq)
        vc.ensure("frame", state_keys(vc, h) == ["fields"])
        vc.ensure("callers_list_untouched", len(items_of(arg)) == m)

    return s_set_all


for _m in range(4):
    _mk_set_all(_m)


@scenario("setitem", functions=[MD + ".__setitem__", H + ".set_all", MD + ".set_all"])
def s_setitem(vc):
    n = vc.case("n", LENS)
    h, names, vals = mk_headers(vc, n, alphabet=True)
    key = mk_key(vc)
    value = vc.sym_bytes("value")
    out = vc.call(MD + ".__setitem__", h, key, value)
    vc.ensure("no_exception", out.ok)
    if not out.ok:
        return
    ensure_filter(vc, "post", fields_of(vc, h), spec_set_all(vc, names, vals, key, [value]), eq=pair_eq)
    vc.ensure("frame", state_keys(vc, h) == ["fields"])


@scenario("delitem", functions=[H + ".__delitem__", MD + ".__delitem__"])
def s_delitem(vc):
    n = vc.case("n", LENS)
    h, names, vals = mk_headers(vc, n, alphabet=True)
    key = mk_key(vc)
    out = vc.call(H + ".__delitem__", h, key)
    match = [same_name(vc, names[i], key) for i in range(n)]
    present = Or(*match) if n else False
    vc.ensure("keyerror_iff_absent", Iff(not out.ok, Not(present)))
    if not out.ok:
        vc.ensure("raises_only_keyerror", issubclass(out.raised_type(), KeyError))
        ensure_fields_unchanged(vc, "absent", h, names, vals)
        return
    ensure_filter(vc, "post", fields_of(vc, h), [(Not(match[i]), (names[i], vals[i])) for i in range(n)], eq=pair_eq)
    vc.ensure("frame", state_keys(vc, h) == ["fields"])


def insert_pos(index, n):
    """position at which list.insert / slicing places an item (Python sequence semantics: negative counts from the end, clamped)"""
    return If(index >= 0, If(index > n, n, index), If(n + index < 0, 0, n + index))


def ensure_inserted(vc, tag, post, names, vals, p, item):
    n = len(names)
    vc.ensure(tag + ".len", len(post) == n + 1)
    if len(post) != n + 1:
        return
    old = [(names[i], vals[i]) for i in range(n)]
    for j in range(n + 1):
        conds = [Implies(p == j, pair_eq(post[j], item))]
        if j < n:
            conds.append(Implies(j < p, pair_eq(post[j], old[j])))
        if j >= 1:
            conds.append(Implies(j > p, pair_eq(post[j], old[j - 1])))
        vc.ensure(f"{tag}.at[{j}]", And(*conds))


@scenario("insert", functions=[H + ".insert", MD + ".insert"])
def s_insert(vc):
    n = vc.case("n", LENS)
    h, names, vals = mk_headers(vc, n)
    key, value = vc.sym_bytes("key"), vc.sym_bytes("value")
    index = vc.sym_int("index")
    out = vc.call(H + ".insert", h, index, key, value)
    vc.ensure("no_exception", out.ok)
    if not out.ok:
        return
    ensure_inserted(vc, "post", fields_of(vc, h), names, vals, insert_pos(index, n), (key, value))
    vc.ensure("frame", state_keys(vc, h) == ["fields"])


@scenario("add", functions=[MD + ".add", H + ".insert", MD + ".insert"])
def s_add(vc):
    n = vc.case("n", LENS)
    h, names, vals = mk_headers(vc, n)
    key, value = vc.sym_bytes("key"), vc.sym_bytes("value")
    out = vc.call(MD + ".add", h, key, value)
    vc.ensure("no_exception", out.ok)
    if not out.ok:
        return
    ensure_inserted(vc, "post", fields_of(vc, h), names, vals, n, (key, value))
    vc.ensure("frame", state_keys(vc, h) == ["fields"])


# ---------------------------------------------------------------------------------------------------------------
# iteration, length, equality, copy, state

def first_occurrence(vc, names):
    return [Not(Or(*[same_name(vc, names[j], names[i]) for j in range(i)])) if i else True for i in range(len(names))]


@scenario("iter", functions=[H + ".__iter__", MD + ".__iter__"])
def s_iter(vc):
    n = vc.case("n", LENS)
    h, names, vals = mk_headers(vc, n, alphabet=True)
    out = vc.call(H + ".__iter__", h)
    vc.ensure("no_exception", out.ok)
    if not out.ok:
        return
    first = first_occurrence(vc, names)
    ensure_filter(vc, "keys", seq_result(out), [(first[i], native_(vc, names[i])) for i in range(n)])
    ensure_fields_unchanged(vc, "pure", h, names, vals)


@scenario("len", functions=[MD + ".__len__"])
def s_len(vc):
    n = vc.case("n", LENS)
    h, names, vals = mk_headers(vc, n, alphabet=True)
    out = vc.call(MD + ".__len__", h)
    vc.ensure("no_exception", out.ok)
    if not out.ok:
        return
    vc.ensure("distinct_names", out.result == count(first_occurrence(vc, names)))
    ensure_fields_unchanged(vc, "pure", h, names, vals)


@scenario("items_multi", functions=[H + ".items", MD + ".keys", MD + ".values"])
def s_items(vc):
    n = vc.case("n", LENS[:4])
    h, names, vals = mk_headers(vc, n)
    out = vc.call(H + ".items", h, True)
    vc.ensure("items.no_exception", out.ok)
    if out.ok:
        got = seq_result(out)
        vc.ensure("items.all_fields_in_order", And(len(got) == n, *[pair_eq(got[i], (native_(vc, names[i]), native_(vc, vals[i]))) for i in range(min(n, len(got)))]))
    out = vc.call(MD + ".keys", h, True)
    vc.ensure("keys.no_exception", out.ok)
    if out.ok:
        got = seq_result(out)
        vc.ensure("keys.all_names_in_order", And(len(got) == n, *[got[i] == native_(vc, names[i]) for i in range(min(n, len(got)))]))
    out = vc.call(MD + ".values", h, True)
    vc.ensure("values.no_exception", out.ok)
    if out.ok:
        got = seq_result(out)
        vc.ensure("values.all_values_in_order", And(len(got) == n, *[got[i] == native_(vc, vals[i]) for i in range(min(n, len(got)))]))
    ensure_fields_unchanged(vc, "pure", h, names, vals)


@scenario("eq", functions=[MD + ".__eq__"])
def s_eq(vc):
    n1 = vc.case("n1", [0, 1, 2, 3])
    n2 = vc.case("n2", [0, 1, 2, 3])
    other_kind = vc.case("other", ["Headers", "MultiDict", "tuple"])
    h1, names1, vals1 = mk_headers(vc, n1, "a_")
    names2, vals2, fields2 = mk_fields(vc, n2, "b_")
    if other_kind == "tuple":
        other = vc.lift(fields2)
    else:
        other = vc.new(H if other_kind == "Headers" else "mitmproxy.coretypes.multidict:MultiDict", fields=fields2)
    out = vc.call(MD + ".__eq__", h1, other)
    vc.ensure("no_exception", out.ok)
    if not out.ok:
        return
    same = And(n1 == n2, *[And(names1[i] == names2[i], vals1[i] == vals2[i]) for i in range(min(n1, n2))])
    vc.ensure("equal_iff_same_field_sequence", Iff(out.result, And(other_kind != "tuple", same)))
    ensure_fields_unchanged(vc, "pure", h1, names1, vals1)


@scenario("copy_state", functions=["mitmproxy.coretypes.serializable:Serializable.copy", "mitmproxy.coretypes.multidict:MultiDict.get_state",
                                   "mitmproxy.coretypes.multidict:MultiDict.from_state", "mitmproxy.coretypes.multidict:MultiDict.set_state", H + ".__init__"])
def s_copy(vc):
    n = vc.case("n", LENS[:4])
    h, names, vals = mk_headers(vc, n)
    out = vc.call("mitmproxy.coretypes.serializable:Serializable.copy", h)
    vc.ensure("copy.no_exception", out.ok)
    if not out.ok:
        return
    c = out.result
    vc.ensure("copy.is_new_headers_object", c is not h and isa(c, type(h) if vc.mode == "native" else h.cls))
    cf = fields_of(vc, c)
    vc.ensure("copy.same_fields", And(len(cf) == n, *[pair_eq(cf[i], (names[i], vals[i])) for i in range(min(n, len(cf)))]))
    vc.ensure("copy.equal_to_original", vc.eq(c, h))
    # editing the copy does not touch the original
    key, value = vc.sym_bytes("key"), vc.sym_bytes("value")
    out2 = vc.call(MD + ".add", c, key, value)
    vc.ensure("copy.edit_ok", out2.ok)
    ensure_fields_unchanged(vc, "copy.original", h, names, vals)
    # get_state / set_state round trip (state = the fields; after deserialisation it arrives as lists)
    st = vc.call("mitmproxy.coretypes.multidict:MultiDict.get_state", h)
    vc.ensure("state.get_ok", st.ok)
    if st.ok:
        sf = items_of(st.result)
        vc.ensure("state.is_fields", And(len(sf) == n, *[pair_eq(sf[i], (names[i], vals[i])) for i in range(min(n, len(sf)))]))
    as_lists = vc.list([vc.list([names[i], vals[i]]) for i in range(n)])
    h2 = vc.new(H, fields=())
    st2 = vc.call("mitmproxy.coretypes.multidict:MultiDict.set_state", h2, as_lists)
    vc.ensure("state.set_ok", st2.ok)
    if st2.ok:
        ensure_fields_unchanged(vc, "state.set", h2, names, vals)
        vc.ensure("state.set_fields_are_tuples", isa(h2.fields["fields"] if vc.mode == "sym" else h2.fields, tuple) and all(isa(f, tuple) for f in fields_of(vc, h2)))


# ---------------------------------------------------------------------------------------------------------------
# HTTP/1 serialisation and parsing

def wire(names, vals):
    r = b""
    for nm, v in zip(names, vals):
        r = r + nm + b": " + v + b"\r\n"
    return r


@scenario("bytes", functions=[H + ".__bytes__"])
def s_bytes(vc):
    n = vc.case("n", LENS + [K + 1, K + 2])
    h, names, vals = mk_headers(vc, n)
    out = vc.call(H + ".__bytes__", h)
    vc.ensure("no_exception", out.ok)
    if not out.ok:
        return
    vc.ensure("one_line_per_field_in_order", out.result == wire(names, vals))
    ensure_fields_unchanged(vc, "pure", h, names, vals)


def cut(vc, name, cond):
    """lemma: proved as an obligation under the current path condition, and only then available as a fact"""
    vc.ensure(name, cond)
    vc.assume(cond)


def index_of(vc, hay, needle):
    if vc.mode == "native" or isinstance(hay, bytes):
        return hay.find(needle)
    import z3
    from pyvc.core import _z
    return SInt(z3.IndexOf(_z(hay), _z(needle), 0))


def valid_field(vc, name, value):
    """what the round trip needs of a field (implied by RFC 9110 §5.1/§5.5 validity: name is a non-empty token, value has no
    leading/trailing whitespace): non-empty name without ':' that does not start with SP/HTAB; value neither starts nor ends
    with ASCII whitespace."""
    ws = b" \t\n\r\x0b\x0c"
    if vc.mode == "native" or isinstance(name, bytes):
        return len(name) > 0 and b":" not in name and name[:1] not in (b" ", b"\t") and (value == b"" or (value[:1] not in [bytes([c]) for c in ws] and value[-1:] not in [bytes([c]) for c in ws]))
    import z3
    from pyvc.libx_httpmodel import is_ws_free_ends
    return And(len_(name) > 0, Not(contains(name, b":")), code_at(name, 0) != 0x20, code_at(name, 0) != 0x09, ws_free_ends(vc, value))


RT_FIELDS = [(b"Host", b"example.com"), (b"a", b""), (b"x-Y", b"a: b\tc")]


def _mk_roundtrip(n):
    @scenario(f"read_headers.roundtrip[fields={n}]", functions=["mitmproxy.net.http.http1.read:_read_headers", H + ".__init__", H + ".__bytes__", MD + ".__eq__"],
              strip_lemmas=True, z3_timeout_ms=700)
    def s_roundtrip(vc):
        if n and n <= 2 and vc.case("fields", ["concrete", "symbolic"]) == "concrete":
            # a few concrete valid fields first (everything is computed, counter-models replay)
            chosen = [vc.case(f"field{i}", RT_FIELDS) for i in range(n)]
            names, vals = [c[0] for c in chosen], [c[1] for c in chosen]
            h = vc.new(H, fields=tuple(chosen))
        else:
            h, names, vals = mk_headers(vc, n)
        for i in range(n):
            vc.assume(valid_field(vc, names[i], vals[i]))
        ser = vc.call(H + ".__bytes__", h)
        vc.ensure("serialise.ok", ser.ok)
        if not ser.ok:
            return
        # the header block is exactly the CRLF-terminated lines "name: value" (obligation), so a reader that splits at CRLF
        # hands these lines to _read_headers (the line splitter is h11's ReceiveBuffer: third-party, covered in T2)
        lines = [names[i] + b": " + vals[i] for i in range(n)]
        vc.ensure("serialise.lines", ser.result == concat_all([l + b"\r\n" for l in lines]))
        for i in range(n):
            # lemma (proved, then used): the first ':' of the line is the one written by the serialiser
            cut(vc, f"lemma.first_colon[{i}]", index_of(vc, lines[i], b":") == len_(names[i]))
        out = vc.call("mitmproxy.net.http.http1.read:_read_headers", vc.list(lines))
        vc.ensure("parse.no_exception", out.ok)
        if not out.ok:
            return
        got = fields_of(vc, out.result)
        vc.ensure("parse.count", len(got) == n)
        for i in range(min(n, len(got))):
            vc.ensure(f"parse.name[{i}]", items_of(got[i])[0] == names[i])
            vc.ensure(f"parse.value[{i}]", items_of(got[i])[1] == vals[i])
        vc.ensure("parse.equals_original", vc.eq(out.result, h))

    return s_roundtrip


for _n in range(4):
    _mk_roundtrip(_n)


def ws_free_ends(vc, v):
    ws = b" \t\n\r\x0b\x0c"
    if vc.mode == "native" or isinstance(v, bytes):
        return v == b"" or (v[:1] not in [bytes([c]) for c in ws] and v[-1:] not in [bytes([c]) for c in ws])
    from pyvc.libx_httpmodel import is_ws_free_ends
    return SBool(is_ws_free_ends(v.t))


def _mk_folded(k, shape):
    @scenario(f"read_headers.folded[continuations={k};{shape}]", functions=["mitmproxy.net.http.http1.read:_read_headers", H + ".__init__", H + ".__bytes__", MD + ".__eq__"],
              strip_lemmas=True, z3_timeout_ms=700)
    def s_folded(vc):
        """a value that was read from k continuation lines (obs-fold, kept by mitmproxy as CRLF SP inside the value) serialises to the
        first line plus k continuation lines and parses back to the same value: every continuation is kept, in order"""
        concrete = k <= 2 and vc.case("pieces", ["concrete", "symbolic"]) == "concrete"
        names, vals, lines = [], [], []
        for i, part in enumerate(shape.split(",")):
            nm = vc.sym_bytes(f"n{i}")
            if part == "plain":
                v = vc.sym_bytes(f"v{i}")
                vc.assume(valid_field(vc, nm, v))
                names.append(nm); vals.append(v); lines.append(nm + b": " + v)
                continue
            if concrete:
                pieces = [[b"one", b"two", b"three", b"four"][j] for j in range(k + 1)]
            else:
                pieces = [vc.sym_bytes(f"piece{j}") for j in range(k + 1)]
            vc.assume(valid_field(vc, nm, pieces[0]))
            for pc_ in pieces[1:]:
                vc.assume(ws_free_ends(vc, pc_))
            value = pieces[0]
            lines.append(nm + b": " + pieces[0])
            for pc_ in pieces[1:]:
                value = value + b"\r\n " + pc_
                lines.append(b" " + pc_)
            names.append(nm); vals.append(value)
        n = len(names)
        h = vc.new(H, fields=tuple(zip(names, vals)))
        ser = vc.call(H + ".__bytes__", h)
        vc.ensure("serialise.ok", ser.ok)
        if not ser.ok:
            return
        vc.ensure("serialise.lines", ser.result == concat_all([l + b"\r\n" for l in lines]))
        li = 0
        for i in range(n):
            cut(vc, f"lemma.first_colon[{i}]", index_of(vc, lines[li], b":") == len_(names[i]))
            li += 1 + (k if shape.split(",")[i] == "folded" else 0)
        out = vc.call("mitmproxy.net.http.http1.read:_read_headers", vc.list(lines))
        vc.ensure("parse.no_exception", out.ok)
        if not out.ok:
            return
        got = fields_of(vc, out.result)
        vc.ensure("parse.count", len(got) == n)
        for i in range(min(n, len(got))):
            vc.ensure(f"parse.name[{i}]", items_of(got[i])[0] == names[i])
            vc.ensure(f"parse.value_keeps_every_continuation[{i}]", items_of(got[i])[1] == vals[i])
        vc.ensure("parse.equals_original", vc.eq(out.result, h))

    return s_folded


for _k, _shape in ((1, "folded,plain"), (2, "folded"), (2, "plain,folded"), (3, "folded")):
    _mk_folded(_k, _shape)


# =================================================================================================================
# T2 (bounded): real Headers objects driven through operation histories against an independent reference multimap,
# and the serialise -> h11 line splitter -> _read_headers chain on enumerated valid field lists

def _fold(b: bytes) -> bytes:
    """ASCII case folding written out (independent of bytes.lower)"""
    return bytes(c + 32 if 65 <= c <= 90 else c for c in b)


def _txt(b: bytes) -> str:
    return b.decode("utf-8", "surrogateescape")


class RefMultimap:
    """ordered multimap with case-insensitive names that keeps spelling and order of untouched fields"""

    def __init__(self, fields=()):
        self.f = [(bytes(n), bytes(v)) for n, v in fields]

    def get_all(self, name):
        return [_txt(v) for n, v in self.f if _fold(n) == _fold(name)]

    def getitem(self, name):
        vs = self.get_all(name)
        if not vs:
            raise KeyError(name)
        return ", ".join(vs)

    def set_all(self, name, values):
        values = list(values)
        out, used = [], 0
        for n, v in self.f:
            if _fold(n) == _fold(name):
                if used < len(values):
                    out.append((n, values[used]))
                    used += 1
            else:
                out.append((n, v))
        out.extend((name, v) for v in values[used:])
        self.f = out

    def delete(self, name):
        if not any(_fold(n) == _fold(name) for n, _ in self.f):
            raise KeyError(name)
        self.f = [(n, v) for n, v in self.f if _fold(n) != _fold(name)]

    def insert(self, idx, name, value):
        l = list(self.f)
        l.insert(idx, (name, value))
        self.f = l

    def names(self):
        seen, out = set(), []
        for n, _ in self.f:
            if _fold(n) not in seen:
                seen.add(_fold(n))
                out.append(_txt(n))
        return out

    def wire(self):
        return b"".join(n + b": " + v + b"\r\n" for n, v in self.f)


def _observe(b, h, ref, hist):
    """every observer of the collection against the model; returns False on the first mismatch"""
    from mitmproxy.http import Headers

    def bad(check, detail):
        b.fail(check, {"history": hist}, detail)
        return False

    if h.fields != tuple(ref.f):
        return bad("history.fields_match_model", f"fields {h.fields!r} != model {ref.f!r}")
    if sorted(h.__dict__) != ["fields"]:
        return bad("history.frame", f"attributes {sorted(h.__dict__)}")
    if list(h) != ref.names() or list(h.keys()) != ref.names():
        return bad("history.iter", f"{list(h)!r} != {ref.names()!r}")
    if len(h) != len(ref.names()):
        return bad("history.len", f"{len(h)} != {len(ref.names())}")
    if list(h.items(multi=True)) != [(_txt(n), _txt(v)) for n, v in ref.f] or list(h.keys(multi=True)) != [_txt(n) for n, _ in ref.f] or list(h.values(multi=True)) != [_txt(v) for _, v in ref.f]:
        return bad("history.items_multi", f"{list(h.items(multi=True))!r}")
    if list(h.items()) != [(k, ref.getitem(k.encode())) for k in ref.names()]:
        return bad("history.items", f"{list(h.items())!r}")
    for name in (b"a", "A", b"b", "B", b"c"):
        nb = name.encode() if isinstance(name, str) else name
        if h.get_all(name) != ref.get_all(nb):
            return bad("history.get_all", f"get_all({name!r}) = {h.get_all(name)!r} != {ref.get_all(nb)!r}")
        present = bool(ref.get_all(nb))
        if (name in h) != present:
            return bad("history.contains", f"{name!r} in h = {name in h}")
        try:
            got = h[name]
        except KeyError:
            got = KeyError
        try:
            exp = ref.getitem(nb)
        except KeyError:
            exp = KeyError
        if got != exp or h.get(name, "dflt") != (exp if exp is not KeyError else "dflt"):
            return bad("history.getitem", f"h[{name!r}] = {got!r} != {exp!r}")
    if bytes(h) != ref.wire():
        return bad("history.bytes", f"{bytes(h)!r} != {ref.wire()!r}")
    c = h.copy()
    if not (c == h and h == c and c is not h and type(c) is Headers and c.fields == h.fields) or (h != Headers(ref.f)) or h == ref.f or (ref.f and h == Headers(ref.f[1:])):
        return bad("history.eq_copy", "copy/equality")
    st = h.get_state()
    if Headers.from_state([list(x) for x in st]) != h:
        return bad("history.state_roundtrip", repr(st))
    return True


def _mutators(depth, tier):
    v, w = b"x%d" % depth, b"y%d" % depth
    ops = []
    for name in (b"a", "A", b"b"):
        ops.append(("setitem", name, v))
        ops.append(("set_all", name, ()))
        ops.append(("set_all", name, (v,)))
        ops.append(("set_all", name, (v, w)))
        if tier == "thorough" and depth == 0:
            ops.append(("set_all", name, (v, w, b"z")))
        ops.append(("add", name, v))
        for idx in ((0, -1, 99) if (tier == "quick" or depth > 1) else (0, 1, -1, -99, 99)):
            ops.append(("insert", idx, name, v))
        ops.append(("del", name))
    return ops


def _apply(h, ref, op):
    """apply op to the real object and to the model; returns (real outcome, model outcome)"""
    nb = lambda x: x.encode() if isinstance(x, str) else x
    kind = op[0]
    try:
        if kind == "setitem":
            h[op[1]] = op[2]
        elif kind == "set_all":
            arg = list(op[2])
            h.set_all(op[1], arg)
            if arg != list(op[2]):
                return "caller's list modified", None
        elif kind == "add":
            h.add(op[1], op[2])
        elif kind == "insert":
            h.insert(op[1], op[2], op[3])
        elif kind == "del":
            del h[op[1]]
        r = None
    except Exception as e:
        r = type(e).__name__
    try:
        if kind == "setitem":
            ref.set_all(nb(op[1]), [op[2]])
        elif kind == "set_all":
            ref.set_all(nb(op[1]), op[2])
        elif kind == "add":
            ref.insert(len(ref.f), nb(op[1]), op[2])
        elif kind == "insert":
            ref.insert(op[1], nb(op[2]), op[3])
        elif kind == "del":
            ref.delete(nb(op[1]))
        m = None
    except KeyError:
        m = "KeyError"
    return r, m


def _histories(b, tier, seed):
    from mitmproxy.http import Headers

    maxdepth = 3 if tier == "quick" else 4
    inits = [(), ((b"a", b"1"), (b"A", b"2"), (b"b", b"3")), ((b"B", b"1"), (b"a", b"2"), (b"b", b"3"), (b"A", b"4"), (b"a", b"5"))]
    failed_checks = set()

    def rec(fields, hist, depth):
        for op in _mutators(depth, tier):
            h, ref = Headers(fields), RefMultimap(fields)
            r, m = _apply(h, ref, op)
            hist2 = hist + [repr(op)]
            b.case((fields, op), nontrivial=tuple(ref.f) != tuple(fields))
            if r != m:
                if "history.outcome" not in failed_checks or len(b.failures) < 20:
                    b.fail("history.outcome", {"history": hist2, "initial": repr(fields)}, f"real {r!r} vs model {m!r}")
                    failed_checks.add("history.outcome")
                continue
            if not _observe(b, h, ref, {"initial": repr(fields), "ops": hist2}):
                if len(b.failures) > 40:
                    return
                continue
            if depth + 1 < maxdepth:
                rec(h.fields, hist2, depth + 1)

    for init in inits:
        _observe(b, Headers(init), RefMultimap(init), {"initial": repr(init), "ops": []})
        rec(tuple(init), [], 0)


def _roundtrips(b, tier, seed):
    import itertools
    from h11._receivebuffer import ReceiveBuffer
    from mitmproxy.http import Headers
    from mitmproxy.net.http.http1 import read

    names = [b"a", b"A", b"Host", b"x-y_z.1", b"!#$%&'*+-.^_`|~", b"Set-Cookie"]
    values = [b"", b"v", b"a b", b"a\tb", b"a:b", b":", b"a, b", b"\xc3\xa9", b"\xff\x80", b"x" * 70, b"a  b", b"\"q\"", b"a;b=c"]
    # values read from continuation lines (obs-fold, kept as CRLF SP): one, two and three continuations
    folded = [b"one\r\n two", b"one\r\n two\r\n three", b"a\r\n b\r\n c\r\n d", b"\r\n x\r\n y"]
    if tier == "quick":
        names, values = names[:5], values[:10]
    values = values + folded
    fields = list(itertools.product(names, values))
    lists = [()] + [(f,) for f in fields] + list(itertools.product(fields, repeat=2))
    if tier == "thorough":
        import random
        rnd = random.Random(seed)
        lists += [tuple(rnd.choice(fields) for _ in range(3)) for _ in range(20000)]
    for fl in lists:
        b.case(("roundtrip", fl), nontrivial=len(fl) > 0)
        h = Headers(fl)
        wire_ = bytes(h)
        buf = ReceiveBuffer()
        buf += b"GET / HTTP/1.1\r\n" + wire_ + b"\r\n" + b"BODY"
        lines = buf.maybe_extract_lines()
        inp = {"fields": repr(fl), "wire": wire_.hex()}
        if lines is None:
            b.fail("roundtrip.head_is_complete", inp, "line splitter did not find the end of the head")
            continue
        try:
            parsed = read._read_headers([bytes(x) for x in lines[1:]])
        except Exception as e:
            b.fail("roundtrip.parse_ok", inp, f"{type(e).__name__}: {e}")
            continue
        if parsed.fields != tuple(fl) or parsed != h or bytes(buf) != b"BODY":
            b.fail("roundtrip.same_fields", inp, f"parsed {parsed.fields!r}")


def bounded(tier, seed):
    b = Bounded()
    b.rule = ("(1) every history of <= 3 (quick) / 4 (thorough) mutating operations (setitem, set_all with 0..2[3] values, add, insert at several "
              "indices incl. negative/out-of-range, del) over the names {a, A, b} (bytes and str forms), from an empty and from pre-populated "
              "collections with repeated names differing in case; after every operation all observers (fields, iteration, len, items/keys/values, "
              "get_all/getitem/get/contains for 5 names, bytes, copy/equality/state) are compared with an independent reference multimap. "
              "(2) serialise -> h11 ReceiveBuffer.maybe_extract_lines -> _read_headers on enumerated lists (<= 2, thorough: sampled 3) of valid "
              "fields. distinct = (pre-state, operation) resp. field list; non-trivial = the operation changed the collection / list non-empty")
    b.bound = "histories <= 3/4 operations over 3 names; field lists <= 2 (3 sampled) over 5-6 names x 10-13 values"
    b.exhaustive = False
    _histories(b, tier, seed)
    _roundtrips(b, tier, seed)
    return b


ASSUMPTIONS = [
    "bounded(5): every T1 contract on a collection operation is proved for pre-states with 0..5 fields (set_all additionally for 0..3 new values; "
    "eq for 0..3 x 0..3 fields; contains/get, items/keys/values, copy/state for 0..3 fields; __bytes__ for 0..7 fields); within the bound the names, "
    "values, keys and the insert index are fully symbolic (arbitrary bytes of any length, any integer). Longer collections are only covered by T2",
    "bounded(3): the HTTP/1 round trip _read_headers(lines(bytes(H))) = H is proved for 0..3 valid fields (names/values symbolic, any length)",
    "case-insensitivity of names is defined as equality under bytes.lower(); in proof mode bytes.lower is an uninterpreted idempotent length-preserving function "
    "(its table — ASCII A-Z only — is library behaviour; T2 uses an independent ASCII fold)",
    "bytes.decode/str.encode('utf-8','surrogateescape') (the str presentation of names/values) are uninterpreted functions; results are stated relative to them",
    "bytes.strip() is an uninterpreted function with instantiated true lemmas (result has no ASCII-whitespace ends; identity on strings without whitespace ends; "
    "strip(ws+s) = strip(s)); bytes.split(b':', 1) is modelled with str.indexof",
    "the line splitter between the serialised block and _read_headers is h11's ReceiveBuffer (third party): T1 proves that the block is exactly the lines "
    "'name: value' each terminated by CRLF and that _read_headers maps those lines back; that the splitter returns those lines is checked in T2 only",
    "equality of collections is read as equality of the field sequences including spelling (the model preserves spelling), as implemented by _MultiDict.__eq__",
    "collections.abc Mapping/MutableMapping mixins (__contains__, get, update, keys/items views) are executed from their CPython source",
]
EXPLANATION = ("T1 proves, for every operation of the Headers collection, a contract that fixes the result and the complete post-state `fields` sequence as a function of "
               "the pre-state sequence (all names/values/keys symbolic), but only for collections of at most 5 pre-existing fields (case split on the length; the engine "
               "has no symbolic-length sequences of pairs, so no loop invariants were written). Arbitrary histories follow by composition of these contracts because `fields` "
               "is the only state (frame obligations) — again up to that size bound. Beyond the bound, and for the composition with h11's line splitter, the evidence is "
               "the bounded T2 run (operation histories against a reference multimap; serialise/split/parse round trips).")
