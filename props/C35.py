"""C35 — header collections behave as a case-insensitive ordered multimap; HTTP/1 serialise/parse round trip.

Abstract view (the spec): a header collection IS its `fields` sequence [(name, value), ...].  Two names denote the
same header iff they are equal ignoring ASCII case (`lower(a) == lower(b)`; RFC 9110 §5.1).  Every operation is
specified as a function of the pre-state sequence and the arguments that determines the returned value and the
complete post-state sequence (so arbitrary histories follow by composition: `fields` is the only state, frame checked).
"""
from pyvc.api import *

CLAIM = "other"
H = "mitmproxy.http:Headers"
MD = "mitmproxy.coretypes.multidict:_MultiDict"


# ---------------------------------------------------------------------------------------------------------------
# spec helpers (work on symbolic and native values)

def lower_(vc, b):
    """canonical (case-folded) name: bytes.lower(), in proof mode the same uninterpreted idempotent function the
    engine uses for bytes.lower()"""
    if vc.mode == "native":
        return b.lower()
    import z3
    from pyvc import lib
    return SBytes(lib.uf("lower", z3.StringSort(), z3.StringSort())(b.t))


def same_name(vc, a, b):
    return lower_(vc, a) == lower_(vc, b)


def native_(vc, b):
    """text presentation of raw header bytes (documented: UTF-8 with surrogateescape); uninterpreted codec in proof mode"""
    if vc.mode == "native":
        return b.decode("utf-8", "surrogateescape")
    import z3
    from pyvc import lib
    return SStr(lib.uf("decode_utf-8_surrogateescape", z3.StringSort(), z3.StringSort())(b.t))


def count(conds):
    r = 0
    for c in conds:
        r = r + If(c, 1, 0)
    return r


def pick(items, idx):
    """items[idx] for a concrete list and a possibly symbolic in-range idx"""
    if not is_sym(idx):
        return items[idx]
    r = items[-1]
    for j in range(len(items) - 2, -1, -1):
        r = If(idx == j, items[j], r)
    return r


def items_of(x):
    return list(x.items) if isinstance(x, (STuple, SList)) else list(x)


def pair_eq(a, b):
    a, b = items_of(a), items_of(b)
    return And(len(a) == 2, a[0] == b[0], a[1] == b[1]) if len(a) == 2 else False


def ensure_filter(vc, tag, got, spec, eq=None):
    """got == [item for (cond, item) in spec if cond]  — one obligation for the length, one per spec element"""
    eq = eq or (lambda a, b: a == b)
    got = items_of(got)
    conds = [c for c, _ in spec]
    vc.ensure(tag + ".len", count(conds) == len(got))
    for i, (c, item) in enumerate(spec):
        before = count(conds[:i])
        if got:
            vc.ensure(f"{tag}.at[{i}]", Implies(c, And(*[Implies(before == j, eq(got[j], item)) for j in range(len(got))])))
        else:
            vc.ensure(f"{tag}.at[{i}]", Not(c))


def mk_fields(vc, n, prefix=""):
    names = [vc.sym_bytes(f"{prefix}n{i}") for i in range(n)]
    vals = [vc.sym_bytes(f"{prefix}v{i}") for i in range(n)]
    return names, vals, tuple((names[i], vals[i]) for i in range(n))


def mk_headers(vc, n, prefix=""):
    names, vals, fields = mk_fields(vc, n, prefix)
    return vc.new(H, fields=fields), names, vals


def state_keys(vc, o):
    return sorted(o.fields if vc.mode == "sym" else o.__dict__)


def fields_of(vc, h):
    """the collection's `fields` tuple (SObj keeps its attributes in a dict that is itself called `fields`)"""
    return items_of(h.fields["fields"] if vc.mode == "sym" else h.fields)


def ensure_fields_unchanged(vc, tag, h, names, vals):
    post = fields_of(vc, h)
    vc.ensure(tag + ".fields_unchanged", And(len(post) == len(names), *[pair_eq(post[i], (names[i], vals[i])) for i in range(min(len(post), len(names)))]))
    vc.ensure(tag + ".frame", state_keys(vc, h) == ["fields"])


K = 4  # bound on the number of pre-existing fields in the per-operation contracts (names/values fully symbolic)
LENS = list(range(K + 1))


# ---------------------------------------------------------------------------------------------------------------
# lookups

@scenario("get_all", functions=[H + ".get_all", MD + ".get_all", H + "._kconv"])
def s_get_all(vc):
    n = vc.case("n", LENS)
    h, names, vals = mk_headers(vc, n)
    key = vc.sym_bytes("key")
    out = vc.call(H + ".get_all", h, key)
    vc.ensure("no_exception", out.ok)
    if not out.ok:
        return
    match = [same_name(vc, names[i], key) for i in range(n)]
    ensure_filter(vc, "values", out.result, [(match[i], native_(vc, vals[i])) for i in range(n)])
    ensure_fields_unchanged(vc, "pure", h, names, vals)


def seq_result(out):
    """items of a result that is a list/tuple in proof mode and possibly a generator natively (then drained into trace)"""
    r = out.result
    if r is None or isnone(r):
        return list(out.trace)
    return items_of(r)


def folded(parts):
    """', '.join(s for (cond, s) in parts if cond)  (RFC 9110 §5.3: combined field value)"""
    acc, seen = "", False
    for c, s in parts:
        acc = If(c, If(seen, acc + ", " + s, s), acc)
        seen = Or(seen, c)
    return acc


@scenario("getitem", functions=[MD + ".__getitem__", H + ".get_all", H + "._reduce_values"])
def s_getitem(vc):
    n = vc.case("n", LENS)
    h, names, vals = mk_headers(vc, n)
    key = vc.sym_bytes("key")
    out = vc.call(MD + ".__getitem__", h, key)
    match = [same_name(vc, names[i], key) for i in range(n)]
    present = Or(*match) if n else False
    vc.ensure("keyerror_iff_absent", Iff(not out.ok, Not(present)))
    if not out.ok:
        vc.ensure("raises_only_keyerror", issubclass(out.raised_type(), KeyError))
    else:
        vc.ensure("folded_in_order", out.result == folded([(match[i], native_(vc, vals[i])) for i in range(n)]))
    ensure_fields_unchanged(vc, "pure", h, names, vals)


@scenario("contains_get", functions=["_collections_abc:Mapping.__contains__", "_collections_abc:Mapping.get", MD + ".__getitem__"])
def s_contains(vc):
    n = vc.case("n", LENS[:4])
    h, names, vals = mk_headers(vc, n)
    key = vc.sym_bytes("key")
    match = [same_name(vc, names[i], key) for i in range(n)]
    present = Or(*match) if n else False
    out = vc.call("_collections_abc:Mapping.__contains__", h, key)
    vc.ensure("contains.no_exception", out.ok)
    if out.ok:
        vc.ensure("contains.iff_some_field_matches", Iff(out.result, present))
    default = vc.sym_str("default")
    out = vc.call("_collections_abc:Mapping.get", h, key, default)
    vc.ensure("get.no_exception", out.ok)
    if out.ok:
        vc.ensure("get.value_or_default", out.result == If(present, folded([(match[i], native_(vc, vals[i])) for i in range(n)]), default))
    ensure_fields_unchanged(vc, "pure", h, names, vals)


# ---------------------------------------------------------------------------------------------------------------
# updates

def spec_set_all(vc, names, vals, key, new):
    """post-state of set_all(key, new) as [(kept?, (name, value))]: the first min(#old, #new) fields of that name get the
    new values in place (spelling kept), surplus old ones disappear, surplus new ones are appended under `key`;
    every other field keeps spelling, value and relative order."""
    n, m = len(names), len(new)
    match = [same_name(vc, names[i], key) for i in range(n)]
    spec = []
    for i in range(n):
        c_i = count(match[:i])
        keep = Or(Not(match[i]), c_i < m)
        val = If(match[i], pick(new, c_i), vals[i]) if m else vals[i]
        spec.append((keep, (names[i], val)))
    total = count(match)
    for j in range(m):
        spec.append((total <= j, (key, new[j])))
    return spec


def _mk_set_all(m):
    @scenario(f"set_all[values={m}]", functions=[H + ".set_all", MD + ".set_all"])
    def s_set_all(vc):
        n = vc.case("n", LENS)
        h, names, vals = mk_headers(vc, n)
        key = vc.sym_bytes("key")
        new = [vc.sym_bytes(f"new{j}") for j in range(m)]
        arg = vc.list(new)
        out = vc.call(H + ".set_all", h, key, arg)
        vc.ensure("no_exception", out.ok)
        if not out.ok:
            return
        ensure_filter(vc, "post", fields_of(vc, h), spec_set_all(vc, names, vals, key, new), eq=pair_eq)
        vc.ensure("frame", state_keys(vc, h) == ["fields"])
        vc.ensure("callers_list_untouched", len(items_of(arg)) == m)

    return s_set_all


for _m in range(4):
    _mk_set_all(_m)


@scenario("setitem", functions=[MD + ".__setitem__", H + ".set_all", MD + ".set_all"])
def s_setitem(vc):
    n = vc.case("n", LENS)
    h, names, vals = mk_headers(vc, n)
    key = vc.sym_bytes("key")
    value = vc.sym_bytes("value")
    out = vc.call(MD + ".__setitem__", h, key, value)
    vc.ensure("no_exception", out.ok)
    if not out.ok:
        return
    ensure_filter(vc, "post", fields_of(vc, h), spec_set_all(vc, names, vals, key, [value]), eq=pair_eq)
    vc.ensure("frame", state_keys(vc, h) == ["fields"])


@scenario("delitem", functions=[H + ".__delitem__", MD + ".__delitem__"])
def s_delitem(vc):
    n = vc.case("n", LENS)
    h, names, vals = mk_headers(vc, n)
    key = vc.sym_bytes("key")
    out = vc.call(H + ".__delitem__", h, key)
    match = [same_name(vc, names[i], key) for i in range(n)]
    present = Or(*match) if n else False
    vc.ensure("keyerror_iff_absent", Iff(not out.ok, Not(present)))
    if not out.ok:
        vc.ensure("raises_only_keyerror", issubclass(out.raised_type(), KeyError))
        ensure_fields_unchanged(vc, "absent", h, names, vals)
        return
    ensure_filter(vc, "post", fields_of(vc, h), [(Not(match[i]), (names[i], vals[i])) for i in range(n)], eq=pair_eq)
    vc.ensure("frame", state_keys(vc, h) == ["fields"])


def insert_pos(index, n):
    """position at which list.insert / slicing places an item (Python sequence semantics: negative counts from the end, clamped)"""
    return If(index >= 0, If(index > n, n, index), If(n + index < 0, 0, n + index))


def ensure_inserted(vc, tag, post, names, vals, p, item):
    n = len(names)
    vc.ensure(tag + ".len", len(post) == n + 1)
    if len(post) != n + 1:
        return
    old = [(names[i], vals[i]) for i in range(n)]
    for j in range(n + 1):
        conds = [Implies(p == j, pair_eq(post[j], item))]
        if j < n:
            conds.append(Implies(j < p, pair_eq(post[j], old[j])))
        if j >= 1:
            conds.append(Implies(j > p, pair_eq(post[j], old[j - 1])))
        vc.ensure(f"{tag}.at[{j}]", And(*conds))


@scenario("insert", functions=[H + ".insert", MD + ".insert"])
def s_insert(vc):
    n = vc.case("n", LENS)
    h, names, vals = mk_headers(vc, n)
    key, value = vc.sym_bytes("key"), vc.sym_bytes("value")
    index = vc.sym_int("index")
    out = vc.call(H + ".insert", h, index, key, value)
    vc.ensure("no_exception", out.ok)
    if not out.ok:
        return
    ensure_inserted(vc, "post", fields_of(vc, h), names, vals, insert_pos(index, n), (key, value))
    vc.ensure("frame", state_keys(vc, h) == ["fields"])


@scenario("add", functions=[MD + ".add", H + ".insert", MD + ".insert"])
def s_add(vc):
    n = vc.case("n", LENS)
    h, names, vals = mk_headers(vc, n)
    key, value = vc.sym_bytes("key"), vc.sym_bytes("value")
    out = vc.call(MD + ".add", h, key, value)
    vc.ensure("no_exception", out.ok)
    if not out.ok:
        return
    ensure_inserted(vc, "post", fields_of(vc, h), names, vals, n, (key, value))
    vc.ensure("frame", state_keys(vc, h) == ["fields"])


# ---------------------------------------------------------------------------------------------------------------
# iteration, length, equality, copy, state

def first_occurrence(vc, names):
    return [Not(Or(*[same_name(vc, names[j], names[i]) for j in range(i)])) if i else True for i in range(len(names))]


@scenario("iter", functions=[H + ".__iter__", MD + ".__iter__"])
def s_iter(vc):
    n = vc.case("n", LENS)
    h, names, vals = mk_headers(vc, n)
    out = vc.call(H + ".__iter__", h)
    vc.ensure("no_exception", out.ok)
    if not out.ok:
        return
    first = first_occurrence(vc, names)
    ensure_filter(vc, "keys", seq_result(out), [(first[i], native_(vc, names[i])) for i in range(n)])
    ensure_fields_unchanged(vc, "pure", h, names, vals)


@scenario("len", functions=[MD + ".__len__"])
def s_len(vc):
    n = vc.case("n", LENS)
    h, names, vals = mk_headers(vc, n)
    out = vc.call(MD + ".__len__", h)
    vc.ensure("no_exception", out.ok)
    if not out.ok:
        return
    vc.ensure("distinct_names", out.result == count(first_occurrence(vc, names)))
    ensure_fields_unchanged(vc, "pure", h, names, vals)


@scenario("items_multi", functions=[H + ".items", MD + ".keys", MD + ".values"])
def s_items(vc):
    n = vc.case("n", LENS[:4])
    h, names, vals = mk_headers(vc, n)
    out = vc.call(H + ".items", h, True)
    vc.ensure("items.no_exception", out.ok)
    if out.ok:
        got = seq_result(out)
        vc.ensure("items.all_fields_in_order", And(len(got) == n, *[pair_eq(got[i], (native_(vc, names[i]), native_(vc, vals[i]))) for i in range(min(n, len(got)))]))
    out = vc.call(MD + ".keys", h, True)
    vc.ensure("keys.no_exception", out.ok)
    if out.ok:
        got = seq_result(out)
        vc.ensure("keys.all_names_in_order", And(len(got) == n, *[got[i] == native_(vc, names[i]) for i in range(min(n, len(got)))]))
    out = vc.call(MD + ".values", h, True)
    vc.ensure("values.no_exception", out.ok)
    if out.ok:
        got = seq_result(out)
        vc.ensure("values.all_values_in_order", And(len(got) == n, *[got[i] == native_(vc, vals[i]) for i in range(min(n, len(got)))]))
    ensure_fields_unchanged(vc, "pure", h, names, vals)


@scenario("eq", functions=[MD + ".__eq__"])
def s_eq(vc):
    n1 = vc.case("n1", [0, 1, 2, 3])
    n2 = vc.case("n2", [0, 1, 2, 3])
    other_kind = vc.case("other", ["Headers", "MultiDict", "tuple"])
    h1, names1, vals1 = mk_headers(vc, n1, "a_")
    names2, vals2, fields2 = mk_fields(vc, n2, "b_")
    if other_kind == "tuple":
        other = vc.lift(fields2)
    else:
        other = vc.new(H if other_kind == "Headers" else "mitmproxy.coretypes.multidict:MultiDict", fields=fields2)
    out = vc.call(MD + ".__eq__", h1, other)
    vc.ensure("no_exception", out.ok)
    if not out.ok:
        return
    same = And(n1 == n2, *[And(names1[i] == names2[i], vals1[i] == vals2[i]) for i in range(min(n1, n2))])
    vc.ensure("equal_iff_same_field_sequence", Iff(out.result, And(other_kind != "tuple", same)))
    ensure_fields_unchanged(vc, "pure", h1, names1, vals1)


@scenario("copy_state", functions=["mitmproxy.coretypes.serializable:Serializable.copy", "mitmproxy.coretypes.multidict:MultiDict.get_state",
                                   "mitmproxy.coretypes.multidict:MultiDict.from_state", "mitmproxy.coretypes.multidict:MultiDict.set_state", H + ".__init__"])
def s_copy(vc):
    n = vc.case("n", LENS[:4])
    h, names, vals = mk_headers(vc, n)
    out = vc.call("mitmproxy.coretypes.serializable:Serializable.copy", h)
    vc.ensure("copy.no_exception", out.ok)
    if not out.ok:
        return
    c = out.result
    vc.ensure("copy.is_new_headers_object", c is not h and isa(c, type(h) if vc.mode == "native" else h.cls))
    cf = fields_of(vc, c)
    vc.ensure("copy.same_fields", And(len(cf) == n, *[pair_eq(cf[i], (names[i], vals[i])) for i in range(min(n, len(cf)))]))
    vc.ensure("copy.equal_to_original", vc.eq(c, h))
    # editing the copy does not touch the original
    key, value = vc.sym_bytes("key"), vc.sym_bytes("value")
    out2 = vc.call(MD + ".add", c, key, value)
    vc.ensure("copy.edit_ok", out2.ok)
    ensure_fields_unchanged(vc, "copy.original", h, names, vals)
    # get_state / set_state round trip (state = the fields; after deserialisation it arrives as lists)
    st = vc.call("mitmproxy.coretypes.multidict:MultiDict.get_state", h)
    vc.ensure("state.get_ok", st.ok)
    if st.ok:
        sf = items_of(st.result)
        vc.ensure("state.is_fields", And(len(sf) == n, *[pair_eq(sf[i], (names[i], vals[i])) for i in range(min(n, len(sf)))]))
    as_lists = vc.list([vc.list([names[i], vals[i]]) for i in range(n)])
    h2 = vc.new(H, fields=())
    st2 = vc.call("mitmproxy.coretypes.multidict:MultiDict.set_state", h2, as_lists)
    vc.ensure("state.set_ok", st2.ok)
    if st2.ok:
        ensure_fields_unchanged(vc, "state.set", h2, names, vals)
        vc.ensure("state.set_fields_are_tuples", isa(h2.fields["fields"] if vc.mode == "sym" else h2.fields, tuple) and all(isa(f, tuple) for f in fields_of(vc, h2)))


# ---------------------------------------------------------------------------------------------------------------
# HTTP/1 serialisation and parsing

def wire(names, vals):
    r = b""
    for nm, v in zip(names, vals):
        r = r + nm + b": " + v + b"\r\n"
    return r


@scenario("bytes", functions=[H + ".__bytes__"])
def s_bytes(vc):
    n = vc.case("n", LENS + [K + 1, K + 2])
    h, names, vals = mk_headers(vc, n)
    out = vc.call(H + ".__bytes__", h)
    vc.ensure("no_exception", out.ok)
    if not out.ok:
        return
    vc.ensure("one_line_per_field_in_order", out.result == wire(names, vals))
    ensure_fields_unchanged(vc, "pure", h, names, vals)


def valid_field(vc, name, value):
    """what the round trip needs of a field (implied by RFC 9110 §5.1/§5.5 validity: name is a non-empty token, value has no
    leading/trailing whitespace): non-empty name without ':' that does not start with SP/HTAB; value neither starts nor ends
    with ASCII whitespace."""
    ws = b" \t\n\r\x0b\x0c"
    if vc.mode == "native":
        return len(name) > 0 and b":" not in name and name[:1] not in (b" ", b"\t") and (value == b"" or (value[:1] not in [bytes([c]) for c in ws] and value[-1:] not in [bytes([c]) for c in ws]))
    import z3
    from pyvc.libx_httpmodel import is_ws_free_ends
    return And(len_(name) > 0, Not(contains(name, b":")), code_at(name, 0) != 0x20, code_at(name, 0) != 0x09, SBool(is_ws_free_ends(value.t)))


@scenario("read_headers.roundtrip", functions=["mitmproxy.net.http.http1.read:_read_headers", H + ".__init__", H + ".__bytes__", MD + ".__eq__"], exact_strip=True)
def s_roundtrip(vc):
    n = vc.case("n", LENS[:4])
    h, names, vals = mk_headers(vc, n)
    for i in range(n):
        vc.assume(valid_field(vc, names[i], vals[i]))
    ser = vc.call(H + ".__bytes__", h)
    vc.ensure("serialise.ok", ser.ok)
    if not ser.ok:
        return
    # the header block is exactly the CRLF-terminated lines "name: value" (obligation), so a reader that splits at CRLF
    # hands these lines to _read_headers (the line splitter is h11's ReceiveBuffer: third-party, covered in T2)
    lines = [names[i] + b": " + vals[i] for i in range(n)]
    vc.ensure("serialise.lines", ser.result == concat_all([l + b"\r\n" for l in lines]))
    out = vc.call("mitmproxy.net.http.http1.read:_read_headers", vc.list(lines))
    vc.ensure("parse.no_exception", out.ok)
    if not out.ok:
        return
    got = fields_of(vc, out.result)
    vc.ensure("parse.count", len(got) == n)
    for i in range(min(n, len(got))):
        vc.ensure(f"parse.name[{i}]", items_of(got[i])[0] == names[i])
        vc.ensure(f"parse.value[{i}]", items_of(got[i])[1] == vals[i])
    vc.ensure("parse.equals_original", vc.eq(out.result, h))
