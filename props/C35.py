"""C35 — header collections behave as a case-insensitive ordered multimap; HTTP/1 serialise/parse round trip.

Abstract view (the spec): a header collection IS its `fields` sequence [(name, value), ...].  Two names denote the
same header iff they are equal ignoring ASCII case (`lower(a) == lower(b)`; RFC 9110 §5.1).  Every operation is
specified as a function of the pre-state sequence and the arguments that determines the returned value and the
complete post-state sequence (so arbitrary histories follow by composition: `fields` is the only state, frame checked).
"""
from pyvc.api import *

CLAIM = "other"
H = "mitmproxy.http:Headers"
MD = "mitmproxy.coretypes.multidict:_MultiDict"


# ---------------------------------------------------------------------------------------------------------------
# spec helpers (work on symbolic and native values)

def lower_(vc, b):
    """canonical (case-folded) name: bytes.lower(), in proof mode the same uninterpreted idempotent function the
    engine uses for bytes.lower()"""
    if vc.mode == "native":
        return b.lower()
    import z3
    from pyvc import lib
    return SBytes(lib.uf("lower", z3.StringSort(), z3.StringSort())(b.t))


def same_name(vc, a, b):
    return lower_(vc, a) == lower_(vc, b)


def native_(vc, b):
    """text presentation of raw header bytes (documented: UTF-8 with surrogateescape); uninterpreted codec in proof mode"""
    if vc.mode == "native":
        return b.decode("utf-8", "surrogateescape")
    import z3
    from pyvc import lib
    return SStr(lib.uf("decode_utf-8_surrogateescape", z3.StringSort(), z3.StringSort())(b.t))


def count(conds):
    r = 0
    for c in conds:
        r = r + If(c, 1, 0)
    return r


def pick(items, idx):
    """items[idx] for a concrete list and a possibly symbolic in-range idx"""
    if not is_sym(idx):
        return items[idx]
    r = items[-1]
    for j in range(len(items) - 2, -1, -1):
        r = If(idx == j, items[j], r)
    return r


def items_of(x):
    return list(x.items) if isinstance(x, (STuple, SList)) else list(x)


def pair_eq(a, b):
    a, b = items_of(a), items_of(b)
    return And(len(a) == 2, a[0] == b[0], a[1] == b[1]) if len(a) == 2 else False


def ensure_filter(vc, tag, got, spec, eq=None):
    """got == [item for (cond, item) in spec if cond]  — one obligation for the length, one per spec element"""
    eq = eq or (lambda a, b: a == b)
    got = items_of(got)
    conds = [c for c, _ in spec]
    vc.ensure(tag + ".len", count(conds) == len(got))
    for i, (c, item) in enumerate(spec):
        before = count(conds[:i])
        if got:
            vc.ensure(f"{tag}.at[{i}]", Implies(c, And(*[Implies(before == j, eq(got[j], item)) for j in range(len(got))])))
        else:
            vc.ensure(f"{tag}.at[{i}]", Not(c))


def mk_fields(vc, n, prefix=""):
    names = [vc.sym_bytes(f"{prefix}n{i}") for i in range(n)]
    vals = [vc.sym_bytes(f"{prefix}v{i}") for i in range(n)]
    return names, vals, tuple((names[i], vals[i]) for i in range(n))


def mk_headers(vc, n, prefix=""):
    names, vals, fields = mk_fields(vc, n, prefix)
    return vc.new(H, fields=fields), names, vals


def state_keys(vc, o):
    return sorted(o.fields if vc.mode == "sym" else o.__dict__)


def fields_of(vc, h):
    """the collection's `fields` tuple (SObj keeps its attributes in a dict that is itself called `fields`)"""
    return items_of(h.fields["fields"] if vc.mode == "sym" else h.fields)


def ensure_fields_unchanged(vc, tag, h, names, vals):
    post = fields_of(vc, h)
    vc.ensure(tag + ".fields_unchanged", And(len(post) == len(names), *[pair_eq(post[i], (names[i], vals[i])) for i in range(min(len(post), len(names)))]))
    vc.ensure(tag + ".frame", state_keys(vc, h) == ["fields"])


K = 4  # bound on the number of pre-existing fields in the per-operation contracts (names/values fully symbolic)
LENS = list(range(K + 1))


# ---------------------------------------------------------------------------------------------------------------
# lookups

@scenario("get_all", functions=[H + ".get_all", MD + ".get_all", H + "._kconv"])
def s_get_all(vc):
    n = vc.case("n", LENS)
    h, names, vals = mk_headers(vc, n)
    key = vc.sym_bytes("key")
    out = vc.call(H + ".get_all", h, key)
    vc.ensure("no_exception", out.ok)
    if not out.ok:
        return
    match = [same_name(vc, names[i], key) for i in range(n)]
    ensure_filter(vc, "values", out.result, [(match[i], native_(vc, vals[i])) for i in range(n)])
    ensure_fields_unchanged(vc, "pure", h, names, vals)
