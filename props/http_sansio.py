"""T2 harness (bounded): the real HttpLayer (HTTP/1, regular proxy mode) driven sans-io, with per-flow hook recording,
a run-time monitor for the hook lifecycle, buffer high-water marks and an independent HTTP/1 reference reader for the
bytes mitmproxy wrote to client and server. Used by C03, C07, C11."""
from __future__ import annotations

import contextlib

from props import sansio

KILLED = "Connection killed."


def chunked(parts):
    return b"".join(b"%x\r\n%s\r\n" % (len(p), p) for p in parts if p) + b"0\r\n\r\n"


class Ref:
    """Independent reference reader for HTTP/1 messages (written from RFC 9112 §6: CL / chunked / until close)."""

    @staticmethod
    def read_message(data: bytes, is_request: bool, head_only=False, closed=False):
        """-> (start_line, headers list[(name_lower, value)], body bytes, complete?, rest) or None if no full head"""
        i = data.find(b"\r\n\r\n")
        if i < 0:
            return None
        lines = data[:i].split(b"\r\n")
        start = lines[0]
        hs = []
        for l in lines[1:]:
            n, _, v = l.partition(b":")
            hs.append((n.strip().lower(), v.strip()))
        rest = data[i + 4:]
        h = dict(hs)
        status = None if is_request else int(start.split()[1])
        if head_only or (status is not None and (100 <= status < 200 or status in (204, 304))):
            return start, hs, b"", True, rest
        if b"chunked" in h.get(b"transfer-encoding", b"").lower():
            body = b""
            while True:
                j = rest.find(b"\r\n")
                if j < 0:
                    return start, hs, body, False, b""
                n = int(rest[:j].split(b";")[0], 16)
                if len(rest) < j + 2 + n + 2:
                    return start, hs, body + rest[j + 2:j + 2 + n], False, b""
                body += rest[j + 2:j + 2 + n]
                rest = rest[j + 2 + n + 2:]
                if n == 0:
                    return start, hs, body, True, rest
        if b"content-length" in h:
            n = int(h[b"content-length"])
            return start, hs, rest[:n], len(rest) >= n, rest[n:]
        if is_request:
            return start, hs, b"", True, rest
        return start, hs, rest, closed, b""


class HoldDriver(sansio.Driver):
    """Driver whose hook completions can be withheld (an intercepted flow: the HookCompleted event is delivered only on
    release(), as ProxyConnectionHandler.handle_hook does after flow.wait_for_resume())."""

    def __init__(self, *a, hold=None, **k):
        super().__init__(*a, **k)
        self.hold = hold
        self.held = []

    def _command(self, cmd):
        from mitmproxy.proxy import commands, events
        if isinstance(cmd, commands.StartHook) and cmd.blocking and self.hold is not None and self.hold(cmd):
            self.log.append(cmd)
            self.hooks.append((cmd.name, cmd))
            if self.hook_policy is not None:
                self.hook_policy(cmd)
            self.held.append(events.HookCompleted(cmd))
            return
        super()._command(cmd)

    def release(self):
        n = 0
        while self.held:
            self.feed(self.held.pop(0))
            n += 1
        return n


class Run:
    """One proxied client connection. policy(hook_name, flow, run) is the addon; it may mutate/kill the flow.
    hold(hook_cmd) -> bool: withhold this hook's completion until release()."""

    def __init__(self, policy=None, open_error=None, hold=None, **opts):
        from mitmproxy.proxy.layers import http
        from mitmproxy.proxy.layers.http import HTTPMode
        self.opts = sansio.make_options(**opts)
        self.ctx = sansio.context_for(self.opts)
        self.top = http.HttpLayer(self.ctx, HTTPMode.regular)
        self.policy = policy
        self.flows = []          # flows in order of first hook
        self.hooks = {}          # id(flow) -> [hook names]
        self.events = []         # global log: ("hook", name, flow) | ("send", conn, bytes) ...
        self.d = HoldDriver(self.top, hook_policy=self._hook, open_policy=(lambda cmd: open_error) if open_error else None, hold=hold)
        self.client = self.ctx.client
        self.error = None
        self.d.start()

    # -- environment
    def _hook(self, cmd):
        flow = getattr(cmd, "flow", None)
        if flow is None:
            return
        if id(flow) not in self.hooks:
            self.hooks[id(flow)] = []
            self.flows.append(flow)
        self.hooks[id(flow)].append(cmd.name)
        self.events.append(("hook", cmd.name, flow, len(self.d.sent_chunks)))
        if self.policy is not None:
            self.policy(cmd.name, flow, self)

    @property
    def servers(self):
        return self.d.opened

    def feed_client(self, data: bytes):
        from mitmproxy.connection import ConnectionState
        if not (self.client.state & ConnectionState.CAN_READ):
            return False
        self.d.data(self.client, data)
        return True

    def feed_server(self, data: bytes, idx=-1):
        from mitmproxy.connection import ConnectionState
        if not self.servers:
            return False
        s = self.servers[idx]
        if not (s.state & ConnectionState.CAN_READ) or s.state is ConnectionState.CLOSED:
            return False
        self.d.data(s, data)
        return True

    def close_client(self):
        from mitmproxy.connection import ConnectionState
        if self.client.state & ConnectionState.CAN_READ:
            self.d.close(self.client)
            return True
        return False

    def close_server(self, idx=-1):
        from mitmproxy.connection import ConnectionState
        if self.servers and (self.servers[idx].state & ConnectionState.CAN_READ):
            self.d.close(self.servers[idx])
            return True
        return False

    def abort_client(self):
        """abortive teardown by the proxy itself (inactivity timeout / shutdown cancel the connection handler): proxy/server.py then
        delivers ConnectionClosed with the connection already in state CLOSED (no half-close)"""
        from mitmproxy.connection import ConnectionState
        from mitmproxy.proxy import events
        if self.client.state & ConnectionState.CAN_READ:
            self.client.state = ConnectionState.CLOSED
            self.d.feed(events.ConnectionClosed(self.client))
            return True
        return False

    def abort_server(self, idx=-1):
        from mitmproxy.connection import ConnectionState
        from mitmproxy.proxy import events
        if self.servers and (self.servers[idx].state & ConnectionState.CAN_READ):
            self.servers[idx].state = ConnectionState.CLOSED
            self.d.feed(events.ConnectionClosed(self.servers[idx]))
            return True
        return False

    def release(self):
        return self.d.release()

    def close_all(self):
        """both peers go away (end of the observation): afterwards every flow must have its outcome"""
        self.release()
        for i in range(len(self.servers)):
            self.close_server(i)
            self.release()
        self.close_client()
        while self.release():
            pass

    # -- observations
    def to_client(self) -> bytes:
        return self.d.bytes_to(self.client)

    def to_server(self, idx=-1) -> bytes:
        return self.d.bytes_to(self.servers[idx]) if self.servers else b""

    def to_all_servers(self) -> bytes:
        return b"".join(self.d.bytes_to(s) for s in self.servers)

    def hooks_of(self, flow):
        return self.hooks[id(flow)]


@contextlib.contextmanager
def buffer_watermark():
    """records the length of every HttpStream body buffer after each append (wrapper installed for the duration of a run)"""
    from mitmproxy.proxy import utils
    marks = []
    orig = utils.ReceiveBuffer.__iadd__

    def iadd(self, other):
        r = orig(self, other)
        marks.append((len(self), len(other)))
        return r

    utils.ReceiveBuffer.__iadd__ = iadd
    try:
        yield marks
    finally:
        utils.ReceiveBuffer.__iadd__ = orig


# ---------------------------------------------------------------------------------------------
# run-time monitor for C03's hook automaton (also used to cross-check the T1 state invariant)

ORDER_HOOKS = ("requestheaders", "request", "responseheaders", "response", "error")


def lifecycle_violations(names, streamed_request=False, connect=False):
    """violations of the order clauses of C03 for one flow's hook sequence `names`"""
    v = []
    seq = [n for n in names if n in ORDER_HOOKS]
    if connect:
        return v
    if seq and seq[0] != "requestheaders":
        v.append(f"first hook is {seq[0]}, not requestheaders")
    for n in ("requestheaders", "request", "responseheaders", "response", "error"):
        if seq.count(n) > 1:
            v.append(f"{n} fired {seq.count(n)} times")
    if "response" in seq and "error" in seq:
        v.append("both response and error fired")
    if "response" in seq and ("responseheaders" not in seq or seq.index("responseheaders") > seq.index("response")):
        v.append("response without preceding responseheaders")
    if "request" in seq and "requestheaders" in seq and seq.index("request") < seq.index("requestheaders"):
        v.append("request before requestheaders")
    if not streamed_request and "responseheaders" in seq and ("request" not in seq or seq.index("request") > seq.index("responseheaders")):
        v.append("responseheaders before request although the request body is not streamed")
    return v


def outcome_violations(names, flow, connect=False, upgraded=False):
    v = []
    if connect or upgraded or "requestheaders" not in names:
        return v
    n = names.count("response") + names.count("error")
    if n != 1:
        v.append(f"{n} outcomes (response/error) after all connections closed: {names}")
    if flow.live:
        v.append("flow still live after all connections closed")
    return v
