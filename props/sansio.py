"""Sans-io driver for mitmproxy's real layer objects (T2, bounded).

mitmproxy layers are pure generators: `layer.handle_event(event)` yields commands. The Driver feeds events, answers
blocking commands the way ConnectionHandler.server_event does (hooks -> HookCompleted after calling an addon policy;
OpenConnection -> OpenConnectionCompleted with an error or with the connection opened), and records a transcript:
bytes sent per connection, hooks fired (name + flow), connection opens/closes. No sockets, no event loop.
"""
from __future__ import annotations

import collections

from mitmproxy import connection, options
from mitmproxy.connection import ConnectionState
from mitmproxy.proxy import commands, context, events, layer


def make_options(**kw):
    from mitmproxy.addons import proxyserver, proxyauth, next_layer, tlsconfig, upstream_auth  # noqa: F401
    from mitmproxy import addonmanager

    opts = options.Options()
    # register the options that addons contribute and that layers read
    class _L:
        def add_option(self, name, typespec, default, help, choices=None):
            if name not in opts:
                opts.add_option(name, typespec, default, help, choices)

        def add_command(self, *a, **k):
            pass

    for addon in (proxyserver.Proxyserver(), proxyauth.ProxyAuth(), next_layer.NextLayer(), tlsconfig.TlsConfig(), upstream_auth.UpstreamAuth()):
        try:
            addon.load(_L())
        except Exception:
            pass
    opts.update(**kw)
    return opts


def make_client(peername=("127.0.0.1", 51234), sockname=("127.0.0.1", 8080), **kw):
    c = connection.Client(peername=peername, sockname=sockname, timestamp_start=1.0, state=ConnectionState.OPEN)
    for k, v in kw.items():
        setattr(c, k, v)
    return c


class Driver:
    def __init__(self, top_layer: layer.Layer, hook_policy=None, open_policy=None, max_steps=20000, hold_hooks=None):
        self.hold_hooks = hold_hooks  # callable(hook_cmd) -> bool: keep this blocking hook pending until release()
        self.held = collections.deque()
        self.layer = top_layer
        self.hook_policy = hook_policy  # callable(hook_cmd) -> None, may mutate the flow (addon behaviour)
        self.open_policy = open_policy  # callable(open_cmd) -> error string or None
        self.sent = collections.defaultdict(bytearray)  # connection id -> bytes
        self.sent_chunks = []  # (connection, bytes)
        self.hooks = []  # (hook name, hook command)
        self.log = []  # every command
        self.opened = []
        self.closed = []
        self.pending = collections.deque()
        self.max_steps = max_steps
        self.steps = 0

    def feed(self, event):
        self.pending.append(event)
        self._drain()
        return self

    def start(self):
        return self.feed(events.Start())

    def data(self, conn, data: bytes):
        return self.feed(events.DataReceived(conn, data))

    def close(self, conn):
        conn.state &= ~ConnectionState.CAN_READ
        return self.feed(events.ConnectionClosed(conn))

    def _drain(self):
        while self.pending:
            ev = self.pending.popleft()
            for cmd in self.layer.handle_event(ev):
                self.steps += 1
                if self.steps > self.max_steps:
                    raise RuntimeError("driver step budget exceeded")
                self._command(cmd)

    def _command(self, cmd):
        self.log.append(cmd)
        if isinstance(cmd, commands.SendData):
            self.sent[cmd.connection.id] += cmd.data
            self.sent_chunks.append((cmd.connection, bytes(cmd.data)))
        elif isinstance(cmd, commands.StartHook):
            self.hooks.append((cmd.name, cmd))
            if self.hook_policy is not None:
                self.hook_policy(cmd)
            if cmd.blocking:
                if self.hold_hooks is not None and self.hold_hooks(cmd):
                    self.held.append(cmd)
                else:
                    self.pending.append(events.HookCompleted(cmd))
        elif isinstance(cmd, commands.OpenConnection):
            err = self.open_policy(cmd) if self.open_policy is not None else None
            if err is None:
                cmd.connection.state = ConnectionState.OPEN
                cmd.connection.timestamp_start = 2.0
                cmd.connection.peername = cmd.connection.address if isinstance(cmd.connection.address, tuple) else None
                self.opened.append(cmd.connection)
            else:
                cmd.connection.error = err
            self.pending.append(events.OpenConnectionCompleted(cmd, err))
        elif isinstance(cmd, commands.CloseConnection):
            half = getattr(cmd, "half_close", False)
            if half:
                cmd.connection.state &= ~ConnectionState.CAN_WRITE
            else:
                cmd.connection.state = ConnectionState.CLOSED
            self.closed.append((cmd.connection, half))
        elif isinstance(cmd, commands.RequestWakeup):
            pass
        elif isinstance(cmd, commands.Log):
            pass
        else:
            # protocol-specific commands (e.g. GetSocket, QUIC) are recorded only
            if getattr(cmd, "blocking", False):
                raise RuntimeError(f"unhandled blocking command {cmd!r}")

    def release(self):
        """complete the oldest hook that is being held (a slow async addon finishes / the user resumes an intercepted flow)"""
        if self.held:
            self.feed(events.HookCompleted(self.held.popleft()))
            return True
        return False

    def hook_names(self):
        return [n for n, _ in self.hooks]

    def bytes_to(self, conn) -> bytes:
        return bytes(self.sent[conn.id])


def context_for(opts=None, client=None, **optkw):
    opts = opts or make_options(**optkw)
    client = client or make_client()
    return context.Context(client, opts)


def all_splits(data: bytes, max_cuts=2):
    """all segmentations of data with up to max_cuts cut points (plus the 1-byte segmentation)."""
    n = len(data)
    yield [data]
    if max_cuts >= 1:
        for i in range(1, n):
            yield [data[:i], data[i:]]
    if max_cuts >= 2:
        for i in range(1, n):
            for j in range(i + 1, n):
                yield [data[:i], data[i:j], data[j:]]
    if n > 1:
        yield [data[i:i + 1] for i in range(n)]
