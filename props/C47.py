"""C47 — flow edits through mitmweb are atomic.

Contract on `tools/web/app.py::FlowHandler.put` (statement): a PUT either applies the whole edit document, or — if any part
of it is invalid — leaves the flow exactly as it was:

    normal return      =>  every requested field holds the requested value (later entries win), view.update([flow]) once
    exceptional return =>  S(flow)' == old(S(flow))      for ANY exception, and the view is not told about an update

S(flow) is the editable state: request (method, scheme, host, path, http_version, port, headers, trailers, text),
response (reason, http_version, status_code, headers, trailers, text), marked, comment.  `Flow.backup` / `Flow.revert`
are run from their real source (mitmproxy/flow.py); the (de)serialisation they call (get_state / set_state, C40's
subject) is abstracted to an exact snapshot of S plus the stored backup.
"""
from pyvc.api import *
from props.prelude import *

CLAIM = "proof"
FH = "mitmproxy.tools.web.app:FlowHandler"
M = "props.C47:"
ASSUMPTIONS = [
    "Flow.get_state/set_state are abstracted to an exact snapshot/restore of the editable state S plus the `backup` entry (their own contracts are C40); Flow.backup and Flow.revert run from their real source",
    "request/response objects are models with plain attributes for method/scheme/host/path/http_version/port/reason/status_code; `headers`/`trailers` are a model of Headers with clear() and add(key, value) (TypeError on any other arity, like MultiDict.add; name and value are validated with the real mitmproxy.http._always_bytes, interpreted from source: TypeError for None); `text = v` raises AttributeError unless v is a str (Message.set_text calls v.encode). The real property setters (host/authority coupling, surrogate handling) are exercised in T2 on real flows through the real tornado application",
    "RequestHandler.flow / .json / .view (tornado plumbing: route argument lookup, JSON body parsing) are given: the handler model holds the flow, the parsed document and the view; T2 goes through the real ones",
    "edit documents are dicts of dicts as produced by json.loads; documents whose `request`/`response` entry is not an object are covered in T2 only",
]


class HeadersModel:
    def clear(self):
        self.pairs = ()

    def add(self, *args):
        if len(args) != 2:
            raise TypeError("MultiDict.add() takes exactly 2 positional arguments")
        # Headers.insert converts name and value with http._always_bytes (real source: TypeError for None, was KF-C47-3)
        import mitmproxy.http
        mitmproxy.http._always_bytes(args[0])
        mitmproxy.http._always_bytes(args[1])
        self.pairs = self.pairs + ((args[0], args[1]),)


class MessageModel:
    @property
    def text(self):
        return self._text

    @text.setter
    def text(self, v):
        if not isinstance(v, str):
            raise AttributeError("object has no attribute 'encode'")
        self._text = v


class FlowModel:
    """a flow with the real Flow.backup / Flow.revert (get_state/set_state summarised to snapshots)"""

    def get_state(self):
        return _native_get_state(self)

    def set_state(self, state):
        return _native_set_state(self, state)


class ViewModel:
    def update(self, flows):
        self.updated.append(flows)


class HandlerModel:
    pass


class Snapshot:
    """abstract Flow.get_state() result; supports what Flow.modified() does with a state dict: d.get(k), d[k] = v, d != e"""

    def get(self, key, default=None):
        return getattr(self, key, default)

    def __setitem__(self, key, value):
        setattr(self, key, value)

    def __eq__(self, other):
        if not isinstance(other, Snapshot):
            return False
        for k in SNAPSHOT_KEYS:
            if getattr(self, k) != getattr(other, k):
                return False
        return True

    __hash__ = None


def _flow_cls():
    import mitmproxy.flow
    # the model flow borrows the real methods (their source is read from mitmproxy/flow.py)
    FlowModel.backup = mitmproxy.flow.Flow.backup
    FlowModel.revert = mitmproxy.flow.Flow.revert
    FlowModel.modified = mitmproxy.flow.Flow.modified


REQ_FIELDS = ["method", "scheme", "host", "path", "http_version", "port", "_text"]
RESP_FIELDS = ["reason", "http_version", "status_code", "_text"]
SNAPSHOT_KEYS = (["req_" + k for k in REQ_FIELDS] + ["req_headers", "req_trailers"] + ["resp_" + k for k in RESP_FIELDS]
                 + ["resp_headers", "resp_trailers", "server_address", "server_via", "marked", "comment", "backup"])


def snapshot_of(new, f):
    """S(flow) + stored backup, as a Snapshot object (values are immutable: str/int/tuples)"""
    d = {}
    for k in REQ_FIELDS:
        d["req_" + k] = getattr(f.request, k)
    d["req_headers"] = f.request.headers.pairs
    d["req_trailers"] = None if isnone(f.request.trailers) else f.request.trailers.pairs
    absent = f.response is None or isnone(f.response)          # a flow without a response (yet): nothing there to snapshot
    for k in RESP_FIELDS:
        d["resp_" + k] = None if absent else getattr(f.response, k)
    d["resp_headers"] = None if absent else f.response.headers.pairs
    d["resp_trailers"] = None if absent or isnone(f.response.trailers) else f.response.trailers.pairs
    d["server_address"] = f.server_conn.address
    d["server_via"] = f.server_conn.via
    d["marked"] = f.marked
    d["comment"] = f.comment
    d["backup"] = f._backup
    return new(**d)


def restore_from(new_headers, f, s):
    for k in REQ_FIELDS:
        setattr(f.request, k, getattr(s, "req_" + k))
    f.request.headers.pairs = s.req_headers
    f.request.trailers = None if isnone(s.req_trailers) else new_headers(s.req_trailers)
    if not (f.response is None or isnone(f.response)):
        for k in RESP_FIELDS:
            setattr(f.response, k, getattr(s, "resp_" + k))
        f.response.headers.pairs = s.resp_headers
        f.response.trailers = None if isnone(s.resp_trailers) else new_headers(s.resp_trailers)
    # Flow.set_state -> Server.set_state re-assigns freshly built (equal) tuples: goes through the real Server.__setattr__
    f.server_conn.address = _fresh_copy(s.server_address)
    f.server_conn.via = _fresh_copy(s.server_via)
    f.marked = s.marked
    f.comment = s.comment
    f._backup = s.backup


def _fresh_copy(t):
    """an equal but not identical tuple (what deserialising a state produces)"""
    if isinstance(t, tuple):
        return tuple([_fresh_copy(x) for x in t])
    return t


def _native_get_state(f):
    def new(**d):
        s = Snapshot()
        s.__dict__.update(d)
        return s
    return snapshot_of(new, f)


def _native_set_state(f, s):
    def nh(fields):
        h = HeadersModel()
        h.pairs = fields
        return h
    restore_from(nh, f, s)


_flow_cls()


def _sym_fresh_copy(t):
    if isinstance(t, STuple):
        return STuple([_sym_fresh_copy(x) for x in t.items])
    return t


def install_state_summaries(vc):
    def get_state(v, f):
        if v.mode == "native":
            return _native_get_state(f)
        d = {}
        req, resp = f.fields["request"], f.fields["response"]
        for k in REQ_FIELDS:
            d["req_" + k] = req.fields[k]
        d["req_headers"] = req.fields["headers"].fields["pairs"]
        t = v.resolve(req.fields["trailers"])
        d["req_trailers"] = NONE if isnone(t) else t.fields["pairs"]
        resp = v.resolve(resp)
        if isnone(resp):
            for k in RESP_FIELDS + ["headers", "trailers"]:
                d["resp_" + k] = NONE
        else:
            for k in RESP_FIELDS:
                d["resp_" + k] = resp.fields[k]
            d["resp_headers"] = resp.fields["headers"].fields["pairs"]
            t = v.resolve(resp.fields["trailers"])
            d["resp_trailers"] = NONE if isnone(t) else t.fields["pairs"]
        srv = f.fields["server_conn"]
        d["server_address"], d["server_via"] = srv.fields["address"], srv.fields["via"]
        d["marked"], d["comment"], d["backup"] = f.fields["marked"], f.fields["comment"], f.fields["_backup"]
        return v.new(M + "Snapshot", **d)

    def set_state(v, f, s):
        if v.mode == "native":
            return _native_set_state(f, s)
        s = v.resolve(s)
        req, resp = f.fields["request"], f.fields["response"]
        for k in REQ_FIELDS:
            req.fields[k] = s.fields["req_" + k]
        req.fields["headers"].fields["pairs"] = s.fields["req_headers"]
        t = v.resolve(s.fields["req_trailers"])
        req.fields["trailers"] = NONE if isnone(t) else v.new(M + "HeadersModel", pairs=t)
        resp = v.resolve(resp)
        if not isnone(resp):
            for k in RESP_FIELDS:
                resp.fields[k] = s.fields["resp_" + k]
            resp.fields["headers"].fields["pairs"] = s.fields["resp_headers"]
            t = v.resolve(s.fields["resp_trailers"])
            resp.fields["trailers"] = NONE if isnone(t) else v.new(M + "HeadersModel", pairs=t)
        # the server connection's state is restored next (as in Flow.set_state): Server.set_state assigns freshly built,
        # equal tuples — through the real Server.__setattr__, interpreted from mitmproxy/connection.py
        srv = f.fields["server_conn"]
        for attr, key in (("address", "server_address"), ("via", "server_via")):
            v.it.setattr_(srv, attr, _sym_fresh_copy(v.resolve(s.fields[key])))
        f.fields["marked"], f.fields["comment"], f.fields["_backup"] = s.fields["marked"], s.fields["comment"], s.fields["backup"]
        return NONE

    vc.summary(M + "FlowModel.get_state", get_state)
    vc.summary(M + "FlowModel.set_state", set_state)
    # `request.trailers = mitmproxy.http.Headers()` creates the same Headers model the flow already uses
    vc.summary("mitmproxy.http:Headers", lambda v, *a, **k: v.new(M + "HeadersModel", pairs=()))


def mk_headers(vc, tag, n=1):
    return vc.new(M + "HeadersModel", pairs=tuple((vc.sym_bytes(f"{tag}_k{i}"), vc.sym_bytes(f"{tag}_v{i}")) for i in range(n)))


def mk_state(vc, tag, trailers):
    """symbolic editable state; returns (request, response, marked, comment)"""
    req = vc.new(M + "MessageModel", method=vc.sym_str(tag + "method"), scheme=vc.sym_str(tag + "scheme"), host=vc.sym_str(tag + "host"),
                 path=vc.sym_str(tag + "path"), http_version=vc.sym_str(tag + "req_version"), port=vc.sym_int(tag + "port", lo=0, hi=65535),
                 _text=vc.sym_str(tag + "req_text"), headers=mk_headers(vc, tag + "req_h"), trailers=mk_headers(vc, tag + "req_t") if trailers else None)
    resp = vc.new(M + "MessageModel", reason=vc.sym_str(tag + "reason"), http_version=vc.sym_str(tag + "resp_version"),
                  status_code=vc.sym_int(tag + "status", lo=100, hi=999), _text=vc.sym_str(tag + "resp_text"),
                  headers=mk_headers(vc, tag + "resp_h"), trailers=None)
    return req, resp, vc.sym_str(tag + "marked"), vc.sym_str(tag + "comment")


def observe(vc, f):
    """S(flow) as a flat list of (name, value)"""
    out = []
    for k in REQ_FIELDS:
        out.append(("request." + k, getattr(f.request, k)))
    out.append(("request.headers", f.request.headers.pairs))
    out.append(("request.trailers", None if isnone(f.request.trailers) else f.request.trailers.pairs))
    absent = f.response is None or isnone(f.response)
    for k in RESP_FIELDS:
        out.append(("response." + k, None if absent else getattr(f.response, k)))
    out.append(("response.headers", None if absent else f.response.headers.pairs))
    out.append(("response.trailers", None if absent or isnone(f.response.trailers) else f.response.trailers.pairs))
    out.append(("server.address", f.server_conn.address))
    out.append(("server.via", f.server_conn.via))
    out.append(("marked", f.marked))
    out.append(("comment", f.comment))
    return out


def same(vc, a, b):
    if a is None or b is None or isnone(a) or isnone(b):
        return (a is None or isnone(a)) and (b is None or isnone(b))
    return vc.eq(a, b)


# ---------------------------------------------------------------------------------------------------------------------
# edit documents: ordered lists of (section, key, value-builder); section "" = top level


def _docs():
    S = lambda n: (lambda vc: vc.sym_str(n))
    I = lambda n: (lambda vc: vc.sym_int(n, lo=0, hi=65535))
    C = lambda x: (lambda vc: x)
    pairs = lambda tag, arities: (lambda vc: [[vc.sym_str(f"{tag}{i}_{j}") for j in range(a)] for i, a in enumerate(arities)])
    return {
        "request{method,port:int}": [("request", "method", S("d_method")), ("request", "port", I("d_port"))],
        "request{method,port:str}": [("request", "method", S("d_method")), ("request", "port", S("d_port_s"))],
        "request{path,port:null}": [("request", "path", S("d_path")), ("request", "port", C(None))],
        "request{method,unknown}": [("request", "method", S("d_method")), ("request", "colour", S("d_x"))],
        "request{unknown,method}": [("request", "colour", S("d_x")), ("request", "method", S("d_method"))],
        "request{scheme,host,http_version,path}": [("request", "scheme", S("d_scheme")), ("request", "host", S("d_host")), ("request", "http_version", S("d_ver")), ("request", "path", S("d_path"))],
        "request{method,headers:[2,2]}": [("request", "method", S("d_method")), ("request", "headers", pairs("d_h", [2, 2]))],
        "request{headers:[2,1]}": [("request", "headers", pairs("d_h", [2, 1]))],
        "request{headers:[3]}": [("request", "headers", pairs("d_h", [3]))],
        "request{method,headers:[[a,null]]}": [("request", "method", S("d_method")), ("request", "headers", lambda vc: [[vc.sym_str("d_h0_0"), vc.sym_str("d_h0_1")], [vc.sym_str("d_h1_0"), None]])],
        "response{headers:[[null,b]]}": [("response", "headers", lambda vc: [[None, vc.sym_str("d_h0_1")]])],
        "request{path,trailers:[[t,null]]}": [("request", "path", S("d_path")), ("request", "trailers", lambda vc: [[vc.sym_str("d_t0_0"), None]])],
        "response{reason,trailers:[[t,null]]}": [("response", "reason", S("d_reason")), ("response", "trailers", lambda vc: [[vc.sym_str("d_t0_0"), None]])],
        "request{trailers:[2]}": [("request", "trailers", pairs("d_t", [2]))],
        "request{method,trailers:[0]}": [("request", "method", S("d_method")), ("request", "trailers", pairs("d_t", [0]))],
        "request{content:str}": [("request", "content", S("d_text"))],
        "request{method,content:int}": [("request", "method", S("d_method")), ("request", "content", I("d_n"))],
        "response{reason,code:int,http_version}": [("response", "reason", S("d_reason")), ("response", "code", I("d_code")), ("response", "http_version", S("d_ver"))],
        "response{reason,code:str}": [("response", "reason", S("d_reason")), ("response", "code", S("d_code_s"))],
        "response{headers:[2],unknown}": [("response", "headers", pairs("d_h", [2])), ("response", "colour", S("d_x"))],
        "response{trailers:[2,3]}": [("response", "trailers", pairs("d_t", [2, 3]))],
        "response{content:null}": [("response", "reason", S("d_reason")), ("response", "content", C(None))],
        "marked,comment": [("", "marked", S("d_marked")), ("", "comment", S("d_comment"))],
        "marked,unknown": [("", "marked", S("d_marked")), ("", "colour", S("d_x"))],
        "request{method},response{code:str}": [("request", "method", S("d_method")), ("response", "code", S("d_code_s"))],
        "request{method},comment,unknown": [("request", "method", S("d_method")), ("", "comment", S("d_comment")), ("", "colour", S("d_x"))],
    }


DOCS = _docs()


def build_doc(vc, ops):
    """(document as nested dict, list of (section, key, value)) — consecutive entries of one section share its object"""
    vals = [(sec, key, mk(vc)) for sec, key, mk in ops]
    top = []
    for sec, key, v in vals:
        if sec == "":
            top.append((key, v))
        elif top and top[-1][0] == sec and isinstance(top[-1][1], list):
            top[-1][1].append((key, v))
        else:
            top.append((sec, [(key, v)]))
    doc = vc.dict([(k, vc.dict(v) if isinstance(v, list) else v) for k, v in top])
    return doc, vals


STR_FIELDS = {"method": "method", "scheme": "scheme", "host": "host", "path": "path", "http_version": "http_version"}


def spec_int(vc, v):
    """int(v) for a JSON number or a decimal digit string; None = not specified here (signs/underscores/whitespace: T2)"""
    if isinstance(v, (int, SInt)):
        return v
    if isinstance(v, str):
        return int(v) if v.isdigit() and v.isascii() else None
    if isinstance(v, SStr):
        import z3
        if vc.branch(SBool(z3.InRe(v.t, z3.Plus(z3.Range("0", "9"))))):
            return SInt(z3.StrToInt(v.t))
    return None


def spec_apply(vc, pre, vals):
    """the statement's meaning of a *valid* document: field -> value after the edit (written from the API description)"""
    post = dict(pre)
    for sec, key, v in vals:
        if sec == "request" and key in STR_FIELDS:
            post["request." + key] = v
        elif sec == "request" and key == "port":
            post["request.port"] = spec_int(vc, v)
        elif sec == "response" and key == "reason":
            post["response.reason"] = v
        elif sec == "response" and key == "http_version":
            post["response.http_version"] = v
        elif sec == "response" and key == "code":
            post["response.status_code"] = spec_int(vc, v)
        elif key in ("headers", "trailers"):
            post[f"{sec}.{key}"] = tuple((a, b) for a, b in v)
        elif key == "content":
            post[f"{sec}._text"] = v
        elif sec == "" and key in ("marked", "comment"):
            post[key] = v
    return post


# int(str) is modelled with uninterpreted acceptance/value functions for non-digit strings: these candidates give models that
# agree with CPython (only used for counter-model replay and conformance sampling, never for proving)
INT_TEXTS = [{"d_port_s": a, "d_code_s": b} for a, b in (("8081", "404"), ("x", "x"), (" 81", "+404"), ("", ""), ("1_0", "4_04"), ("-", "0x1"))]


@scenario("FlowHandler.put", functions=[FH + ".put", "mitmproxy.flow:Flow.backup", "mitmproxy.flow:Flow.revert", "mitmproxy.connection:Server.__setattr__"], candidates=INT_TEXTS)
def s_put(vc):
    import mitmproxy.tools.web.app as webapp
    name = vc.case("document", list(DOCS))
    prior_backup = vc.case("prior_backup", [False, True])
    has_response = vc.case("flow_has_response", [True, False]) if ("response" in name and not prior_backup) else True
    install_state_summaries(vc)
    req, resp, marked, comment = mk_state(vc, "", trailers=vc.case("request_has_trailers", [False, True]) if "trailers" in name and name.startswith("request") else False)
    # the flow's server connection: closed (finished flow) or OPEN (live flow, e.g. edited while intercepted) with address / via set;
    # Server.__setattr__ refuses to change address/via of an open connection
    from mitmproxy.connection import ConnectionState
    srv_state = vc.case("server_connection", ["closed", "open", "open via upstream proxy"])
    address = (vc.sym_str("server_host"), vc.sym_int("server_port", lo=0, hi=65535))
    via = ("http", (vc.sym_str("via_host"), vc.sym_int("via_port", lo=0, hi=65535))) if "via" in srv_state else None
    server = vc.new("mitmproxy.connection:Server", state=ConnectionState.CLOSED if srv_state == "closed" else ConnectionState.OPEN, address=address, via=via)
    flow = vc.new(M + "FlowModel", request=req, response=resp if has_response else None, server_conn=server, marked=marked, comment=comment, _backup=None, id="42")
    backup_differs = False
    if prior_backup:
        # an earlier successful edit left a backup holding the state S0 from before that edit
        r0, p0, m0, c0 = mk_state(vc, "b_", trailers=False)
        holder = vc.new(M + "FlowModel", request=r0, response=p0, server_conn=server, marked=m0, comment=c0, _backup=None, id="42")
        b = snapshot_of(lambda **d: vc.new(M + "Snapshot", **d), holder)
        flow._backup = b
        backup_differs = Not(And(*[same(vc, x[1], y[1]) for x, y in zip(observe(vc, holder), observe(vc, flow))]))
    pre = observe(vc, flow)
    doc, vals = build_doc(vc, DOCS[name])
    view = vc.new(M + "ViewModel", updated=vc.list([]))
    h = vc.new(M + "HandlerModel", flow=flow, json=doc, view=view)
    put = FH + ".put" if vc.mode == "sym" else webapp.FlowHandler.put.__wrapped__   # natively: the handler body without the auth wrapper
    out = vc.call(put, h, "42")
    post = observe(vc, flow)
    updated = view.updated.items if vc.mode == "sym" else view.updated
    if out.ok:
        if not has_response and any(sec == "response" for sec, _, _ in vals):
            # there is no response to edit: the document cannot be applied completely, so it must be rejected (and, below, leave no trace)
            vc.ensure("no_response.document_with_response_part_rejected", False)
            return
        if any(key in ("headers", "trailers") and any(x is None for pair in v for x in pair) for _, key, v in vals):
            # a header / trailer entry whose name or value is null is a malformed header list: the document must be rejected
            vc.ensure("malformed_header_entry.document_rejected", False)
            return
        want = spec_apply(vc, dict(pre), vals)
        for (field, got) in post:
            if want[field] is not None or field.endswith(("trailers", "server.via")):
                vc.ensure(f"ok.applied[{field}]", same(vc, got, want[field]))
        vc.ensure("ok.view_updated_once", len(updated) == 1)
        if len(updated) == 1:
            arg = updated[0].items if vc.mode == "sym" else updated[0]
            vc.ensure("ok.view_told_about_this_flow", len(arg) == 1 and arg[0] is flow)
        vc.ensure("ok.has_backup_for_revert", not isnone(flow._backup))
        if not prior_backup:
            bk = observe_snapshot(vc, flow._backup)
            for f, v in pre:
                vc.ensure(f"ok.backup_holds_pre_edit_state[{f}]", same(vc, bk[f], v))
        return
    is_api = issubclass(out.raised_type(), webapp.APIError)
    unchanged = And(*[same(vc, got, old) for (_, got), (_, old) in zip(post, pre)])
    vc.ensure("exception.view_not_updated", len(updated) == 0)
    # every failure restores the state from before the request (was KF-C47-1 / KF-C47-2, fixed in 413cd74c7) and is an APIError
    vc.ensure("exception.state_unchanged", unchanged)
    vc.ensure("exception.kind", is_api)


def observe_snapshot(vc, s):
    d = {}
    for k in REQ_FIELDS:
        d["request." + k] = getattr(s, "req_" + k)
    d["request.headers"], d["request.trailers"] = s.req_headers, s.req_trailers
    for k in RESP_FIELDS:
        d["response." + k] = getattr(s, "resp_" + k)
    d["response.headers"], d["response.trailers"] = s.resp_headers, s.resp_trailers
    d["server.address"], d["server.via"] = s.server_address, s.server_via
    d["marked"], d["comment"] = s.marked, s.comment
    return d


# =====================================================================================================================
# T2 (bounded): the real tornado Application, the real FlowHandler (auth wrapper, JSON parsing, view lookup) and real flows

MENU = [
    # (label, section, key, value, valid)
    ("req.method", "request", "method", "PUT", True),
    ("req.port", "request", "port", 81, True),
    ("req.port:digits", "request", "port", "8081", True),
    ("req.path", "request", "path", "/new", True),
    ("req.host", "request", "host", "example.org", True),
    ("req.headers", "request", "headers", [["a", "b"], ["c", "d"]], True),
    ("req.trailers", "request", "trailers", [["t", "u"]], True),
    ("req.content", "request", "content", "hello", True),
    ("resp.code", "response", "code", 404, True),
    ("resp.reason", "response", "reason", "Nope", True),
    ("resp.headers", "response", "headers", [["x", "y"]], True),
    ("resp.content", "response", "content", "body", True),
    ("marked", "", "marked", ":red_circle:", True),
    ("comment", "", "comment", "edited", True),
    ("req.unknown", "request", "colour", "blue", False),
    ("resp.unknown", "response", "colour", "blue", False),
    ("top.unknown", "", "colour", "blue", False),
    ("req.port:x", "request", "port", "x", False),
    ("req.port:null", "request", "port", None, False),
    ("resp.code:x", "response", "code", "x", False),
    ("req.headers:arity1", "request", "headers", [["a", "b"], ["c"]], False),
    ("resp.headers:arity3", "response", "headers", [["a", "b", "c"]], False),
    ("req.trailers:arity1", "request", "trailers", [["t"]], False),
    ("req.content:int", "request", "content", 5, False),
    ("req.headers:null-value", "request", "headers", [["a", "b"], ["c", None]], False),
    ("resp.headers:null-name", "response", "headers", [[None, "b"]], False),
    ("req.trailers:null-value", "request", "trailers", [["t", None]], False),
    ("resp.trailers:null-value", "response", "trailers", [["t", None]], False),
    ("req.headers:int-value", "request", "headers", [["a", 5]], False),
    ("req.method:surrogate", "request", "method", "\ud800", False),
    ("req.host:surrogate", "request", "host", "a\ud800.example", None),   # validity decided by the real setter (200 or error)
]


def _doc_of(entries):
    doc = {}
    for label, sec, key, val, ok in entries:
        if sec == "":
            if key in doc:
                return None
            doc[key] = val
        else:
            d = doc.setdefault(sec, {})
            if not isinstance(d, dict) or key in d:
                return None
            d[key] = val
    return doc


def _core(state):
    s = dict(state)
    s.pop("backup", None)
    return s


def bounded(tier, seed):
    import itertools
    from mitmproxy.test import tflow
    from props.webui import WebApp

    b = Bounded()
    depth = 2 if tier == "quick" else 3
    b.rule = ("PUT /flows/<id> on the real mitmweb Application with edit documents built from ordered selections of a 26-entry menu of valid and invalid field edits "
              "(unknown field at each level, port 'x'/null, status code 'x', header/trailer lists of wrong arity, non-string content, lone-surrogate method/host) x "
              "{fresh flow, flow with an earlier successful edit}, plus: flows without a response x documents with a response part; an accepted trailers edit ([] / one pair) followed by a rejected document that replaces the trailers; an accepted single-field edit followed by a rejected document whose first entry restores that field's original value; checked: valid document => 200 and every field applied; rejected document (status >= 400) => "
              "flow state (get_state without the backup slot) exactly as before the request; distinct = (entries in order, prior edit); non-trivial = document mixes valid and invalid entries")
    b.bound = f"all ordered selections of <= {depth} menu entries (documents with a repeated key are skipped) + documents whose section entry is not an object"
    b.exhaustive = True
    w = WebApp.start(xsrf=False)
    try:
        def fresh(prior, live=False):
            f = tflow.tflow(resp=True)
            f.id = "42"
            if live:
                # a live flow (e.g. edited while intercepted at the response): the server connection is OPEN and has its
                # address and via (upstream proxy) set — Server.__setattr__ then refuses to change them
                from mitmproxy.connection import ConnectionState
                f.live = True
                f.server_conn.via = ("http", ("upstream.example", 3128))
                f.server_conn.state = ConnectionState.OPEN
            w.view.clear()
            w.view.add([f])
            if prior:
                r = w.request("PUT", "/flows/42", json_body={"request": {"method": "ONE"}, "comment": "first"})
                assert r.code == 200, r.code
            return f

        def run(entries, doc, prior, key, live=False):
            f = fresh(prior, live)
            before = _core(f.get_state())
            r = w.request("PUT", "/flows/42", json_body=doc)
            after = _core(f.get_state())
            labels = [e[0] for e in entries]
            inp = {"entries": labels, "document": doc, "prior_edit": prior, "server_connection": "open" if live else "closed"}
            if r.code >= 400 and r.code != 400:
                b.fail("put.rejected_with_400", inp, f"status {r.code}")
            all_valid = entries and all(e[4] is True for e in entries)
            any_invalid = any(e[4] is False for e in entries)
            b.case(key, nontrivial=any_invalid and any(e[4] for e in entries))
            if all_valid and r.code != 200:
                b.fail("put.valid_document_accepted", inp, f"status {r.code}")
            if any_invalid and r.code < 400:
                b.fail("put.invalid_document_rejected", inp, f"status {r.code}: accepted")
            if r.code >= 400:
                if after != before:
                    diff = sorted(k for k in before if before[k] != after.get(k))
                    if r.code >= 500:
                        b.fail("put.atomic.non_api_error", inp, f"status {r.code}; changed: {diff}")
                    elif prior:
                        b.fail("put.atomic.after_prior_edit", inp, f"status {r.code}; changed: {diff}; method now {f.request.method!r}, comment {f.comment!r}")
                    else:
                        b.fail("put.atomic.api_error", inp, f"status {r.code}; changed: {diff}")
                if w.view.get_by_id("42") is not f:
                    b.fail("put.flow_identity", inp, "flow replaced")
            elif r.code == 200:
                # every requested field holds the requested value
                for label, sec, k, val, ok in entries:
                    got = _read_field(f, sec, k)
                    want = int(val) if k in ("port", "code") else val
                    if k in ("headers", "trailers"):
                        want = [tuple(x) for x in val]
                    if label == "req.host:surrogate":
                        continue
                    if got != want:
                        b.fail("put.applies_all", inp, f"{sec}.{k}: got {got!r}, want {want!r}")

        for n in range(1, depth + 1):
            for entries in itertools.permutations(MENU, n):
                doc = _doc_of(entries)
                if doc is None:
                    continue
                for prior, live in ((False, False), (True, False), (False, True), (True, True)):
                    run(entries, doc, prior, (tuple(e[0] for e in entries), prior, live), live)
        # ---- an earlier accepted edit, then a rejected edit whose valid prefix exactly undoes it (the flow then equals its
        #      backup again although it is not the state from before the rejected request)
        undo = [("request", "method", "PATCH"), ("request", "path", "/edited"), ("response", "code", 404), ("response", "reason", "Edited"), ("", "comment", "first"), ("", "marked", ":red_circle:")]
        for sec, key, newval in undo:
            for bad in [e for e in MENU if e[4] is False and not (e[1] == sec and e[2] == key)]:
                f = fresh(False)
                original = _read_field(f, sec, key)
                first = {key: newval} if sec == "" else {sec: {key: newval}}
                r1 = w.request("PUT", "/flows/42", json_body=first)
                second = _doc_of([("undo", sec, key, original, True), bad])
                b.case(("undo", sec, key, bad[0]), nontrivial=True)
                if r1.code != 200 or second is None:
                    continue
                before = _core(f.get_state())
                was_modified = f.modified()
                r2 = w.request("PUT", "/flows/42", json_body=second)
                inp = {"first_edit": first, "rejected_edit": second}
                if r2.code < 400:
                    b.fail("put.invalid_document_rejected", inp, f"status {r2.code}")
                elif _core(f.get_state()) != before or f.modified() != was_modified:
                    b.fail("put.atomic.rejected_edit_undoing_an_earlier_one", inp, f"status {r2.code}; {sec}.{key} is now {_read_field(f, sec, key)!r}, was {newval!r}")
        # ---- a flow that has no response (yet): a document with a response part cannot be applied completely => rejected, untouched
        from mitmproxy.test import tflow as _tflow
        resp_entries = [e for e in MENU if e[1] == "response"]
        req_valid = [e for e in MENU if e[1] in ("request", "") and e[4] is True][:4]
        combos = [[e] for e in resp_entries] + [[a, e] for e in resp_entries[:6] for a in req_valid] + [[e, a] for e in resp_entries[:6] for a in req_valid]
        for entries in combos:
            doc = _doc_of(entries)
            if doc is None:
                continue
            f = _tflow.tflow(resp=False)
            f.id = "42"
            w.view.clear()
            w.view.add([f])
            before = _core(f.get_state())
            r = w.request("PUT", "/flows/42", json_body=doc)
            b.case(("no-response", tuple(e[0] for e in entries)), nontrivial=True)
            inp = {"flow": "no response yet", "entries": [e[0] for e in entries], "document": doc}
            if r.code < 400:
                b.fail("put.no_response.response_part_rejected", inp, f"status {r.code}")
            if _core(f.get_state()) != before:
                b.fail("put.no_response.untouched", inp, f"status {r.code}")
        # ---- trailers edited in place: an accepted edit leaves an (empty / non-empty) trailers object, then a rejected document
        #      that replaces the trailers before its invalid part must not leave the new trailers behind
        for which in ("request", "response"):
            for first_trailers in ([], [["a", "b"]]):
                for bad in [e for e in MENU if e[4] is False and e[2] != "trailers"]:
                    f = fresh(False)
                    r1 = w.request("PUT", "/flows/42", json_body={which: {"trailers": first_trailers}})
                    second = _doc_of([("trailers", which, "trailers", [["t", "u"], ["v", "w"]], True), bad])
                    b.case(("trailers-in-place", which, len(first_trailers), bad[0]), nontrivial=True)
                    if r1.code != 200 or second is None:
                        continue
                    before = _core(f.get_state())
                    r2 = w.request("PUT", "/flows/42", json_body=second)
                    inp = {"first_edit": {which: {"trailers": first_trailers}}, "rejected_edit": second}
                    if r2.code < 400:
                        b.fail("put.invalid_document_rejected", inp, f"status {r2.code}")
                    elif _core(f.get_state()) != before:
                        b.fail("put.atomic.trailers_edited_in_place", inp, f"status {r2.code}; trailers now {_read_field(f, which, 'trailers')!r}")
        for doc in ({"request": 5}, {"response": "x"}, {"request": {"method": "PUT"}, "response": None}, {"request": ["method"]}, {"marked": ":red_circle:", "request": 7}):
            for prior in (False, True):
                f = fresh(prior)
                before = _core(f.get_state())
                r = w.request("PUT", "/flows/42", json_body=doc)
                b.case(("non-object", json.dumps(doc), prior))
                if r.code < 400:
                    b.fail("put.invalid_document_rejected", {"document": doc, "prior_edit": prior}, f"status {r.code}")
                elif _core(f.get_state()) != before:
                    b.fail("put.atomic.non_api_error" if r.code >= 500 else "put.atomic.after_prior_edit" if prior else "put.atomic.api_error", {"document": doc, "prior_edit": prior}, f"status {r.code}")
    finally:
        w.stop()
    return b


import json


def _read_field(f, sec, k):
    if sec == "":
        return getattr(f, k)
    m = getattr(f, sec)
    if k == "code":
        return m.status_code
    if k == "content":
        return m.text
    if k in ("headers", "trailers"):
        h = getattr(m, k)
        # setting the content maintains Content-Length: not part of the requested header list
        dec = lambda x: x.decode() if isinstance(x, bytes) else x
        return [(dec(a), dec(c)) for a, c in h.fields if not (isinstance(a, bytes) and a.lower() == b"content-length")]
    return getattr(m, k)
