"""C05 — HTTP/2 streams are isolated and correctly mapped.

T1: contracts on Http2Client._handle_event (stream-id maps, queue of streams waiting for upstream capacity),
Http2Connection/Http2Server/Http2Client.handle_h2_event (per-stream receive state) and HttpLayer.event_to_child / make_stream /
_handle_event routing (mitmproxy/proxy/layers/http/_http2.py, __init__.py). hyper-h2 is a trusted library contract.
T2: two plain hyper-h2 connections as client and server peers around the real HttpLayer: interleaved and segmented frames of
several concurrent streams, SETTINGS lowering MAX_CONCURRENT_STREAMS, resets, trailers, responses in any order.
"""
from pyvc.api import *
from props.prelude import *

CLAIM = "other"
EXPLANATION = ("T1 proves, relative to a trusted hyper-h2 contract and for every value of the open-stream count, the peer's limit and the "
               "provisional limit: Http2Client._handle_event rewrites an event's stream id to the upstream id of its own client stream, "
               "allocates a new upstream id only while open < limit and extends both maps consistently (bijection invariant), otherwise "
               "appends the event to its stream's waiting list and does nothing else; everything the HTTP/2 engine reports is translated "
               "back to the client stream it belongs to, order kept; freed capacity resumes the oldest waiting stream first, replays each "
               "stream's events once, in order, under one new id, and stops only when capacity is exhausted or nobody waits. "
               "Http2Connection/Http2Server/Http2Client.handle_h2_event: every report carries the h2 event's stream id, per-stream state is "
               "touched for that id only, DATA before response headers / unexpected or malformed HEADERS are connection errors that reach "
               "every open stream once. HttpLayer.event_to_child/_handle_event/make_stream: ReceiveHttp goes to the stream of its id only "
               "(unknown ids are dropped), SendHttp to the handler of its connection only, completions return to the issuing stream, new "
               "request headers create exactly one stream. The proofs use representative stream ids and a bounded number of waiting "
               "streams/events; frame-level interleavings, segmentation and the real hyper-h2 state machines are covered bounded in T2 "
               "(two plain hyper-h2 peers around the real HttpLayer).")
ASSUMPTIONS = [
    "hyper-h2 (h2.connection.H2Connection / BufferedH2Connection) is trusted: open_outbound_streams counts our open streams, remote_settings.max_concurrent_streams is the peer's current limit, get_next_available_stream_id() is fresh and increasing, receive_data reports each frame as an event with the right stream id",
    "T1 uses representative ids (client streams 5, 9 open as 1, 3; 21 and 17 waiting, 21 first; 13 new): the code uses ids only as dictionary keys",
    "T1 bounds: <= 2 waiting streams with <= 2 events each; Http2Client._handle_event2 (the h2 I/O) is abstracted to: logs its event, yields scripted commands, changes the open-stream count (+1 on request headers, arbitrary otherwise)",
    "queue invariant (streams wait only while open >= limit) is assumed on entry and proved on exit of every call",
    "BufferedH2Connection's flow-control buffering is not exercised (T2 bodies are small); h2 PUSH is disabled by mitmproxy",
    "T2 observes the order in which requests are handed to the upstream connection with a spy on Http2Client._handle_event (hook completion order decides it, not frame order)",
]


M2 = "mitmproxy.proxy.layers.http._http2"
HP = "mitmproxy.proxy.layers.http"
EV = "mitmproxy.proxy.layers.http._events"


class H2Stub:
    """Stands for BufferedH2Connection in T1: exactly the members the code under contract reads or calls.
    Trusted hyper-h2 contract (stated by the summaries in the scenarios): open_outbound_streams counts our open streams,
    remote_settings.max_concurrent_streams is the peer's limit, get_next_available_stream_id() returns an id that was never
    used on this connection."""

    def get_next_available_stream_id(self):  # summarised
        raise NotImplementedError

    def acknowledge_received_data(self, n, stream_id):  # summarised
        raise NotImplementedError

    def close_connection(self, error_code=0, additional_data=None, last_stream_id=None):  # summarised
        raise NotImplementedError

    def data_to_send(self, amount=None):  # summarised
        raise NotImplementedError


class SettingsStub:
    pass


def _cls(ref):
    from pyvc.vc import resolve_ref
    return resolve_ref(ref)[2]


def d_items(vc, d):
    return list(d.items) if isinstance(d, SDict) else list(d.items())


def d_get(vc, d, key):
    for k, v in d_items(vc, d):
        if (k.concrete() if hasattr(k, "concrete") else k) == key:
            return v
    return None


def l_items(x):
    return list(x.items) if isinstance(x, (SList, STuple)) else list(x)


def conc(x):
    return x.concrete() if hasattr(x, "concrete") else x


def mk_defaultdict(vc, items):
    import collections
    if vc.mode == "sym":
        from pyvc.libx_http2 import SDefaultDict
        return SDefaultDict(SConst(list), [(lift(k), lift(v)) for k, v in items])
    return collections.defaultdict(list, items)


def is_ghost(c, tag):
    if isinstance(c, STuple):
        return c.items[0].concrete() == tag
    return isinstance(c, tuple) and len(c) > 0 and c[0] == tag


def mk_http_event(vc, kind, sid):
    if kind == "RequestHeaders":
        return vc.new(EV + ":RequestHeaders", stream_id=sid, request=vc.new("mitmproxy.http:Request", data=None), end_stream=False, replay_flow=None)
    if kind == "RequestData":
        return vc.new(EV + ":RequestData", stream_id=sid, data=vc.sym_bytes(f"data{sid}", 8))
    if kind == "RequestEndOfMessage":
        return vc.new(EV + ":RequestEndOfMessage", stream_id=sid)
    if kind == "RequestProtocolError":
        from mitmproxy.proxy.layers.http._events import ErrorCode
        return vc.new(EV + ":RequestProtocolError", stream_id=sid, message="cancelled", code=ErrorCode.CANCEL)
    raise ValueError(kind)


# ours/theirs in the pre-state: client streams 5 and 9 are open upstream as 1 and 3; client streams 21 then 17 wait for capacity
# (21 was queued first). The code uses ids only as dictionary keys; the concrete numbers are representatives.
OURS = {5: 1, 9: 3}
NEXT_OURS = 5


def mk_h2client(vc, queued, provisional, open_streams, limit):
    stub = vc.new("props.C05:H2Stub", open_outbound_streams=open_streams, remote_settings=vc.new("props.C05:SettingsStub", max_concurrent_streams=limit), next_id=NEXT_OURS)
    server = mk_server(vc)
    ctx = mk_context(vc, server=server, options=mk_options(vc, http2_ping_keepalive=0))
    q = [(sid, vc.list(evs)) for sid, evs in queued]
    layer = vc.new(M2 + ":Http2Client", context=ctx, conn=server, h2_conn=stub, streams=vc.dict([]), debug=None, _paused=None, _paused_event_queue=vc.deque([]),
                   our_stream_id=vc.dict(list(OURS.items())), their_stream_id=vc.dict([(v, k) for k, v in OURS.items()]),
                   stream_queue=mk_defaultdict(vc, q), provisional_max_concurrency=provisional, last_activity=0.0)
    return layer, stub


def install_h2client_env(vc, stub, script):
    """_handle_event2 (the real sending/receiving through hyper-h2) is abstracted: it logs the event it is given (with the
    stream id it carries at that moment), yields the scripted commands of `script(event, call_index)` and lets the peer/library
    change the number of open streams: +1 when request headers are sent, otherwise an arbitrary new value (streams end, resets)."""
    calls, allocs = [], []

    def inner(v, self_, event):
        idx = len(calls)
        sid = conc(event.stream_id) if isa(event, _cls(HP + "._base:HttpEvent")) else None
        calls.append((event, sid))
        if isa(event, _cls(EV + ":RequestHeaders")):
            stub.open_outbound_streams = stub.open_outbound_streams + 1
        else:
            nv = v.fresh_int("open_after")
            v.assume(nv >= 0)
            stub.open_outbound_streams = nv
        return v.gen(script(event, idx))

    def next_id(v, self_):
        cur = self_.next_id
        lim = layer_limit(v, self_)
        allocs.append((cur, self_.open_outbound_streams, lim))
        self_.next_id = cur + 2
        return cur

    def layer_limit(v, stub_):
        return stub_.remote_settings.max_concurrent_streams

    vc.summary(M2 + ":Http2Client._handle_event2", inner)
    vc.summary("props.C05:H2Stub.get_next_available_stream_id", next_id)
    return calls, allocs


def bijection_ok(vc, layer):
    ours, theirs = d_items(vc, layer.our_stream_id), d_items(vc, layer.their_stream_id)
    o = {conc(k): conc(v) for k, v in ours}
    t = {conc(k): conc(v) for k, v in theirs}
    return len(o) == len(ours) and len(t) == len(theirs) and len(o) == len(t) and all(t.get(v) == k for k, v in o.items()) and len(set(o.values())) == len(o)


@scenario("Http2Client._handle_event.map_and_queue", functions=[M2 + ":Http2Client._handle_event"], asserts_are_obligations=True)
def s_h2c_event(vc):
    target = vc.case("event_stream", [5, 9, 13, 21])       # known, known, brand new, already waiting
    kind = vc.case("event_kind", ["RequestHeaders", "RequestData", "RequestEndOfMessage", "RequestProtocolError"])
    nq = vc.case("queued_streams", [0, 1, 2])
    provisional = vc.case("provisional", [None, 10])
    if target == 21 and nq == 0:
        return
    if target == 13 and kind != "RequestHeaders":
        return  # a stream starts with its headers (HttpStream sends nothing else first)
    open_streams = vc.sym_int("open_streams", lo=0)
    limit = vc.sym_int("limit", lo=1)
    q_evs = {21: [mk_http_event(vc, "RequestHeaders", 21), mk_http_event(vc, "RequestEndOfMessage", 21)], 17: [mk_http_event(vc, "RequestHeaders", 17)]}
    queued = [(sid, q_evs[sid]) for sid in [21, 17][:nq]]
    layer, stub = mk_h2client(vc, queued, provisional, open_streams, limit)
    eff_limit = 10 if provisional == 10 else limit
    # queue invariant: streams only wait while there is no capacity
    if nq:
        vc.assume(open_streams >= eff_limit)
    ev = mk_http_event(vc, kind, target)
    resp_for = vc.case("inner_yields_response_for", [None, 1, 3])

    def script(event, idx):
        out = []
        if idx == 0 and resp_for is not None:
            out.append(vc.new(HP + "._base:ReceiveHttp", event=vc.new(EV + ":ResponseData", stream_id=resp_for, data=b"r"), blocking=False))
        out.append(vc.new("mitmproxy.proxy.commands:SendData", connection=layer.conn, data=b"frame", blocking=False))
        return out

    calls, allocs = install_h2client_env(vc, stub, script)
    out = vc.call(M2 + ":Http2Client._handle_event", layer, ev)
    vc.ensure("no_exception", out.ok)
    if not out.ok:
        return
    vc.ensure("inv.bijection_preserved", bijection_ok(vc, layer))
    known = target in OURS
    had_capacity = vc.branch(open_streams < eff_limit)
    queue_now = [(conc(k), l_items(v)) for k, v in d_items(vc, layer.stream_queue)]
    if not known and not had_capacity:
        # no capacity: the event waits, nothing is sent, nothing else changes
        vc.ensure("wait.nothing_sent_or_received", len(out.trace) == 0 and calls == [] and allocs == [])
        want = [(sid, list(evs)) for sid, evs in queued]
        if target == 21:
            want[0] = (21, want[0][1] + [ev])
        else:
            want.append((target, [ev]))
        vc.ensure("wait.appended_at_end_of_its_stream_queue", [k for k, _ in queue_now] == [k for k, _ in want] and all(len(a) == len(b_) and all(x is y for x, y in zip(a, b_)) for (_, a), (_, b_) in zip(queue_now, want)))
        vc.ensure("wait.stream_id_not_rewritten", vc.eq(ev.stream_id, target))
        vc.ensure("wait.maps_unchanged", len(d_items(vc, layer.our_stream_id)) == 2)
        return
    # the event itself is processed first, exactly once, under our id
    vc.ensure("first_call_is_this_event", len(calls) >= 1 and calls[0][0] is ev)
    if len(calls) < 1:
        return
    if known:
        vc.ensure("known.rewritten_to_our_id", calls[0][1] == OURS[target])
        vc.ensure("known.no_allocation_for_it", all(conc(a[0]) != OURS[target] for a in allocs))
    else:
        vc.ensure("new.allocated_fresh_id", len(allocs) >= 1 and conc(allocs[0][0]) == NEXT_OURS and calls[0][1] == NEXT_OURS)
        vc.ensure("new.both_maps_extended", conc(d_get(vc, layer.our_stream_id, target)) == NEXT_OURS and conc(d_get(vc, layer.their_stream_id, NEXT_OURS)) == target)
    # every upstream stream is opened only while the limit allows it
    for i, (nid, open_then, lim_then) in enumerate(allocs):
        lim_eff = 10 if provisional == 10 else lim_then
        vc.ensure(f"alloc[{i}].only_below_limit", open_then < lim_eff)
    # translation of what comes back: the first inner call answered for our stream `resp_for`
    recv = [c for c in out.trace if is_cmd(c, "ReceiveHttp")]
    if resp_for is not None:
        theirs = {1: 5, 3: 9}[resp_for]
        vc.ensure("receive.translated_to_client_stream_id", len(recv) == 1 and vc.eq(recv[0].event.stream_id, theirs))
    else:
        vc.ensure("receive.none_invented", recv == [])
    vc.ensure("other_commands_passed_through", sum(1 for c in out.trace if is_cmd(c, "SendData")) == len(calls))
    # resumption of waiting streams: oldest first, each stream's events in their order, all under one newly allocated id
    replayed = calls[1:]
    flat = []
    for sid, evs in queued:
        if sid == 21 and target == 21:
            continue
        flat.extend((sid, e) for e in evs)
    if target == 21:
        # cannot happen: a waiting stream receives capacity only through resumption (queue invariant) - covered by the wait branch
        pass
    popped = len(queued) - len([k for k, _ in queue_now])
    total = 0
    for sid, evs in queued[:popped]:
        ours_new = conc(d_get(vc, layer.our_stream_id, sid))
        vc.ensure(f"resume.stream[{sid}].mapped", ours_new is not None and conc(d_get(vc, layer.their_stream_id, ours_new)) == sid)
        mine = [r for r in replayed if any(r[0] is e_ for e_ in evs)]
        vc.ensure(f"resume.stream[{sid}].all_events_once_in_order_under_one_id", len(mine) == len(evs) and all(m[0] is e_ and m[1] == ours_new for m, e_ in zip(mine, evs)))
        total += len(evs)
    vc.ensure("resume.nothing_lost_or_duplicated", len(replayed) == total and [kk for kk, _ in queue_now] == [sid for sid, _ in queued[popped:]])
    # opened in arrival order: the ids handed out to resumed streams increase in queue order (oldest waiting stream first)
    new_ids = [conc(d_get(vc, layer.our_stream_id, sid)) for sid, _ in queued[:popped]]
    first_pos = [min([i for i, r in enumerate(replayed) if any(r[0] is e_ for e_ in evs)] or [-1]) for sid, evs in queued[:popped]]
    vc.ensure("resume.opened_in_arrival_order", all(x is not None for x in new_ids) and new_ids == sorted(new_ids) and first_pos == sorted(first_pos))
    if queue_now:
        vc.ensure("resume.stops_only_without_capacity", Not(stub.open_outbound_streams < (10 if provisional == 10 else stub.remote_settings.max_concurrent_streams)))


@scenario("Http2Client._handle_event.connection_event", functions=[M2 + ":Http2Client._handle_event"], asserts_are_obligations=True)
def s_h2c_conn_event(vc):
    """bytes from the server: whatever the HTTP/2 engine reports for our streams reaches the client streams they belong to,
    in order; freed capacity resumes the oldest waiting stream."""
    nq = vc.case("queued_streams", [0, 1, 2])
    provisional = vc.case("provisional", [None, 10])
    open_streams = vc.sym_int("open_streams", lo=0)
    limit = vc.sym_int("limit", lo=1)
    q_evs = {21: [mk_http_event(vc, "RequestHeaders", 21), mk_http_event(vc, "RequestData", 21)], 17: [mk_http_event(vc, "RequestHeaders", 17)]}
    queued = [(sid, q_evs[sid]) for sid in [21, 17][:nq]]
    layer, stub = mk_h2client(vc, queued, provisional, open_streams, limit)
    eff_limit = 10 if provisional == 10 else limit
    if nq:
        vc.assume(open_streams >= eff_limit)
    ev = vc.new("mitmproxy.proxy.events:DataReceived", connection=layer.conn, data=vc.sym_bytes("wire", 16))
    inner_cmds = []

    def script(event, idx):
        if idx != 0:
            return [vc.new("mitmproxy.proxy.commands:SendData", connection=layer.conn, data=b"frame", blocking=False)]
        out = [vc.new(HP + "._base:ReceiveHttp", event=vc.new(EV + ":ResponseData", stream_id=3, data=b"for-9"), blocking=False),
               vc.new("mitmproxy.proxy.commands:SendData", connection=layer.conn, data=b"ack", blocking=False),
               vc.new(HP + "._base:ReceiveHttp", event=vc.new(EV + ":ResponseEndOfMessage", stream_id=1), blocking=False),
               vc.new(HP + "._base:ReceiveHttp", event=vc.new(EV + ":ResponseProtocolError", stream_id=3, message="reset", code=None), blocking=False)]
        inner_cmds.extend(out)
        return out

    calls, allocs = install_h2client_env(vc, stub, script)
    out = vc.call(M2 + ":Http2Client._handle_event", layer, ev)
    vc.ensure("no_exception", out.ok)
    if not out.ok:
        return
    vc.ensure("event_passed_unchanged_first", len(calls) >= 1 and calls[0][0] is ev)
    tr = out.trace
    vc.ensure("commands_kept_in_order", len(tr) >= 4 and all(a is b_ for a, b_ in zip(tr[:4], inner_cmds)))
    if len(tr) >= 4:
        vc.ensure("data_for_our_stream_3_reaches_client_stream_9", vc.eq(tr[0].event.stream_id, 9))
        vc.ensure("end_of_our_stream_1_reaches_client_stream_5", vc.eq(tr[2].event.stream_id, 5))
        vc.ensure("reset_of_our_stream_3_reaches_client_stream_9", vc.eq(tr[3].event.stream_id, 9))
    vc.ensure("inv.bijection_preserved", bijection_ok(vc, layer))
    for i, (nid, open_then, lim_then) in enumerate(allocs):
        vc.ensure(f"alloc[{i}].only_below_limit", open_then < (10 if provisional == 10 else lim_then))
    queue_now = [(conc(k), l_items(v)) for k, v in d_items(vc, layer.stream_queue)]
    popped = len(queued) - len(queue_now)
    replayed = calls[1:]
    total = 0
    for sid, evs in queued[:popped]:
        ours_new = conc(d_get(vc, layer.our_stream_id, sid))
        mine = [r for r in replayed if any(r[0] is e_ for e_ in evs)]
        vc.ensure(f"resume.stream[{sid}].all_events_once_in_order_under_one_id", ours_new is not None and len(mine) == len(evs) and all(m[0] is e_ and m[1] == ours_new for m, e_ in zip(mine, evs)))
        total += len(evs)
    vc.ensure("resume.nothing_lost_or_duplicated", len(replayed) == total and [kk for kk, _ in queue_now] == [sid for sid, _ in queued[popped:]])
    new_ids = [conc(d_get(vc, layer.our_stream_id, sid)) for sid, _ in queued[:popped]]
    vc.ensure("resume.opened_in_arrival_order", all(x is not None for x in new_ids) and new_ids == sorted(new_ids))
    if queue_now:
        vc.ensure("resume.stops_only_without_capacity", Not(stub.open_outbound_streams < (10 if provisional == 10 else stub.remote_settings.max_concurrent_streams)))


# ---------------------------------------------------------------------------------------------
# per-stream receive state: Http2Connection / Http2Server / Http2Client .handle_h2_event

def mk_h2conn(vc, side, streams):
    from mitmproxy.proxy.layers.http._http2 import StreamState
    stub = vc.new("props.C05:H2Stub", open_outbound_streams=0, remote_settings=vc.new("props.C05:SettingsStub", max_concurrent_streams=100), next_id=1)
    client, server = mk_client(vc), mk_server(vc, peername=("10.0.0.1", 443))
    ctx = mk_context(vc, client, server, mk_options(vc, http2_ping_keepalive=0, validate_inbound_headers=True))
    cls = M2 + (":Http2Server" if side == "server" else ":Http2Client")
    extra = {} if side == "server" else dict(our_stream_id=vc.dict([]), their_stream_id=vc.dict([]), stream_queue=mk_defaultdict(vc, []), provisional_max_concurrency=10, last_activity=0.0)
    layer = vc.new(cls, context=ctx, conn=client if side == "server" else server, h2_conn=stub, streams=vc.dict([(k, v) for k, v in streams]), debug=None,
                   _paused=None, _paused_event_queue=vc.deque([]), **extra)
    return layer, stub


def install_h2conn_env(vc, closed_answer):
    acks, closes = [], []

    def ack(v, self_, n, sid):
        acks.append((n, sid))
        return None

    def close_conn(v, self_, error_code=0, additional_data=None, last_stream_id=None):
        closes.append(error_code)
        return None

    def data_to_send(v, self_, amount=None):
        return b"GOAWAY"

    def is_closed(v, self_, sid):
        return closed_answer

    vc.summary("props.C05:H2Stub.acknowledge_received_data", ack)
    vc.summary("props.C05:H2Stub.close_connection", close_conn)
    vc.summary("props.C05:H2Stub.data_to_send", data_to_send)
    vc.summary(M2 + ":Http2Connection.is_closed", is_closed)
    return acks, closes


def all_(conds):
    conds = list(conds)
    return And(*conds) if conds else True


def same_state(vc, got, want):
    if got is None or want is None:
        return got is None and want is None
    return vc.eq(got, want)


def stream_states(vc, layer):
    return {conc(k): v for k, v in d_items(vc, layer.streams)}


def check_connection_error(vc, tag, out, layer, pre_streams, err_cls):
    """a connection error: GOAWAY sent, connection closed, *every* open stream is told, nothing else, no more events handled"""
    tr = out.trace
    kinds = trace_kinds(tr)
    vc.ensure(tag + ".returns_stop", vc.eq(out.result, True))
    recv = [c for c in tr if is_cmd(c, "ReceiveHttp")]
    vc.ensure(tag + ".goaway_then_close", kinds[:3] == ["Log", "SendData", "CloseConnection"] and tr[2].connection is layer.conn and tr[1].connection is layer.conn)
    vc.ensure(tag + ".every_open_stream_gets_the_error_once", all_(And(isa(c.event, err_cls), vc.eq(c.event.stream_id, sid)) for c, sid in zip(recv, pre_streams)) if len(recv) == len(pre_streams) else False)
    vc.ensure(tag + ".nothing_else", len(tr) == 3 + len(pre_streams))
    vc.ensure(tag + ".streams_cleared", len(stream_states(vc, layer)) == 0)
    h = (layer.fields if vc.mode == "sym" else layer.__dict__).get("_handle_event")
    vc.ensure(tag + ".connection_done", h is not None)


@scenario("handle_h2_event.stream_events", functions=[M2 + ":Http2Connection.handle_h2_event", M2 + ":Http2Connection.protocol_error", M2 + ":Http2Connection.close_connection"],
          asserts_are_obligations=True)
def s_h2_stream_events(vc):
    from mitmproxy.proxy.layers.http._http2 import StreamState as SS
    side = vc.case("side", ["server", "client"])
    kind = vc.case("h2_event", ["DataReceived", "TrailersReceived", "StreamEnded", "StreamReset"])
    sid = vc.case("stream", [1, 3, 7])   # 1: headers received, 3: still expecting (response) headers, 7: not tracked
    pre = [(1, SS.HEADERS_RECEIVED), (3, SS.EXPECTING_HEADERS)] if side == "client" else [(1, SS.HEADERS_RECEIVED), (3, SS.HEADERS_RECEIVED)]
    closed_answer = vc.sym_bool("h2_says_stream_closed")
    layer, stub = mk_h2conn(vc, side, pre)
    acks, closes = install_h2conn_env(vc, closed_answer)
    E = lambda n: _cls(EV + ":" + ("Request" if side == "server" else "Response") + n)
    data = vc.sym_bytes("data", 12)
    ended = vc.sym_bool("stream_ended")
    if kind == "DataReceived":
        ev = vc.new("h2.events:DataReceived", stream_id=sid, data=data, flow_controlled_length=vc.sym_int("fcl", lo=0), stream_ended=If(ended, True, None) if vc.mode == "sym" else (True if ended else None))
    elif kind == "TrailersReceived":
        ev = vc.new("h2.events:TrailersReceived", stream_id=sid, headers=[(b"x-t", data)], stream_ended=None, priority_updated=None)
    elif kind == "StreamEnded":
        ev = vc.new("h2.events:StreamEnded", stream_id=sid)
    else:
        ev = vc.new("h2.events:StreamReset", stream_id=sid, error_code=vc.case("error_code", [8, 13, 2, 999]), remote_reset=True)
    out = vc.call(M2 + ":Http2Connection.handle_h2_event", layer, ev)
    if kind == "StreamEnded" and side == "client" and sid == 3:
        return  # END_STREAM before response headers cannot be reported by hyper-h2 (marked unreachable in the code)
    vc.ensure("no_exception", out.ok)
    if not out.ok:
        return
    tr = out.trace
    recv = [c for c in tr if is_cmd(c, "ReceiveHttp")]
    post = stream_states(vc, layer)
    pre_d = dict(pre)
    state = pre_d.get(sid)
    if kind == "DataReceived" and state is SS.EXPECTING_HEADERS:
        check_connection_error(vc, "data_before_headers", out, layer, [k for k, _ in pre], E("ProtocolError"))
        return
    vc.ensure("continues", vc.eq(out.result, False))
    vc.ensure("only_receive_commands", len(recv) == len(tr))
    vc.ensure("every_report_is_for_the_event_stream", all_(vc.eq(c.event.stream_id, sid) for c in recv))
    others = [k for k in pre_d if k != sid]
    vc.ensure("frame.other_streams_untouched", all_(same_state(vc, post.get(k), pre_d[k]) for k in others))
    if kind == "DataReceived":
        vc.ensure("data.flow_control_acknowledged_for_this_stream", len(acks) == 1 and vc.eq(acks[0][1], sid))
        if state is SS.HEADERS_RECEIVED:
            empty_end = And(ended, len_(data) == 0)
            if vc.branch(empty_end):
                vc.ensure("data.empty_end_marker_not_forwarded", recv == [])
            else:
                vc.ensure("data.forwarded_once", len(recv) == 1 and isa(recv[0].event, E("Data")))
                if len(recv) == 1:
                    vc.ensure("data.bytes_unchanged", vc.eq(recv[0].event.data, data))
        else:
            vc.ensure("data.untracked_stream_ignored", recv == [])
        vc.ensure("data.state_unchanged", same_state(vc, post.get(sid), state))
    elif kind == "TrailersReceived":
        vc.ensure("trailers.forwarded_once", len(recv) == 1 and isa(recv[0].event, E("Trailers")))
        if len(recv) == 1:
            tf = recv[0].event.trailers
            tfl = l_items(tf.fields["fields"] if isinstance(tf, SObj) else tf.fields)
            vc.ensure("trailers.same_fields", And(vc.eq(tfl[0][0], b"x-t"), vc.eq(tfl[0][1], data)) if len(tfl) == 1 else False)
    elif kind == "StreamEnded":
        if state is SS.HEADERS_RECEIVED:
            vc.ensure("end.reported_once", len(recv) == 1 and isa(recv[0].event, E("EndOfMessage")))
            if vc.branch(closed_answer):
                vc.ensure("end.closed_stream_forgotten", sid not in post)
            else:
                vc.ensure("end.half_open_stream_kept", same_state(vc, post.get(sid), state))
        else:
            vc.ensure("end.untracked_stream_ignored", recv == [])
    else:
        if state is not None:
            vc.ensure("reset.reported_once_and_forgotten", len(recv) == 1 and isa(recv[0].event, E("ProtocolError")) and sid not in post)
        else:
            vc.ensure("reset.untracked_stream_ignored", recv == [] and len(post) == len(pre_d))


@scenario("handle_h2_event.headers", functions=[M2 + ":Http2Server.handle_h2_event", M2 + ":Http2Client.handle_h2_event", M2 + ":parse_h2_request_headers", M2 + ":parse_h2_response_headers"],
          asserts_are_obligations=True)
def s_h2_headers(vc):
    from mitmproxy.proxy.layers.http._http2 import StreamState as SS
    side = vc.case("side", ["server", "client"])
    sid = vc.case("stream", [1, 3, 7])
    shape = vc.case("block", ["ok", "malformed"])
    ended = vc.sym_bool("stream_ended")
    pre = [(1, SS.HEADERS_RECEIVED), (3, SS.EXPECTING_HEADERS)] if side == "client" else [(1, SS.HEADERS_RECEIVED)]
    layer, stub = mk_h2conn(vc, side, pre)
    acks, closes = install_h2conn_env(vc, False)
    from props.C06 import install_parse_authority
    install_parse_authority(vc)  # url.parse_authority evaluated by the real function on the concrete authority b"a.test"
    perrs = []

    def protocol_error_summary(v, self_, message, error_code=None):
        # the body of protocol_error (GOAWAY, close, error to every open stream, streams cleared) is proved in
        # handle_h2_event.stream_events[data_before_headers]; here only that it is the one thing that happens
        perrs.append(message)
        return v.gen([v.ghost("protocol_error", self_)])

    vc.summary(M2 + ":Http2Connection.protocol_error", protocol_error_summary)
    val = vc.sym_bytes("field_value", 12)
    ended_v = If(ended, True, None) if vc.mode == "sym" else (True if ended else None)
    if side == "server":
        blk = [(b":method", b"GET"), (b":scheme", b"https"), (b":authority", b"a.test"), (b":path", vc.sym_bytes("path", 12)), (b"x-f", val)]
        if shape == "malformed":
            blk = [blk[0]] + blk  # duplicate :method (the error text is then concrete; other malformed shapes are C06's)
        hdrs = vc.list([vc.lift(x) for x in blk]) if vc.mode == "sym" else blk
        ev = vc.new("h2.events:RequestReceived", stream_id=sid, headers=hdrs, stream_ended=ended_v, priority_updated=None)
        out = vc.call(M2 + ":Http2Server.handle_h2_event", layer, ev)
    else:
        blk = [(b":status", b"200"), (b"x-f", val)]
        if shape == "malformed":
            blk = [(b":status", b"200"), (b":status", b"404")]
        hdrs = vc.list([vc.lift(x) for x in blk]) if vc.mode == "sym" else blk
        ev = vc.new("h2.events:ResponseReceived", stream_id=sid, headers=hdrs, stream_ended=ended_v, priority_updated=None)
        out = vc.call(M2 + ":Http2Client.handle_h2_event", layer, ev)
    vc.ensure("no_exception", out.ok)
    if not out.ok:
        return
    pre_d = dict(pre)
    post = stream_states(vc, layer)
    E = lambda n: _cls(EV + ":" + ("Request" if side == "server" else "Response") + n)
    unexpected = side == "client" and pre_d.get(sid) is not SS.EXPECTING_HEADERS
    if unexpected or shape == "malformed":
        # a response nobody waits for, or a malformed block: connection error, nothing is forwarded as a message
        vc.ensure("rejected.connection_error_and_nothing_else", len(perrs) == 1 and len(out.trace) == 1 and is_ghost(out.trace[0], "protocol_error"))
        vc.ensure("rejected.returns_stop", vc.eq(out.result, True))
        vc.ensure("rejected.no_stream_state_created", And(all_(same_state(vc, post.get(k), pre_d[k]) for k in pre_d), len(post) == len(pre_d)))
        return
    tr = out.trace
    vc.ensure("continues", vc.eq(out.result, False))
    vc.ensure("no_connection_error", perrs == [])
    vc.ensure("exactly_one_headers_event", len(tr) == 1 and is_cmd(tr[0], "ReceiveHttp") and isa(tr[0].event, E("Headers")))
    if len(tr) != 1:
        return
    e = tr[0].event
    vc.ensure("carries_the_h2_stream_id", vc.eq(e.stream_id, sid))
    vc.ensure("end_of_stream_flag_kept", vc.eq(e.end_stream, ended))
    msg = e.request if side == "server" else e.response
    hf = msg.data.headers
    hfl = l_items(hf.fields["fields"] if isinstance(hf, SObj) else hf.fields)
    vc.ensure("fields_of_this_block", And(vc.eq(hfl[0][0], b"x-f"), vc.eq(hfl[0][1], val)) if len(hfl) == 1 else False)
    vc.ensure("state.headers_received_for_this_stream", same_state(vc, post.get(sid), SS.HEADERS_RECEIVED))
    vc.ensure("frame.other_streams_untouched", And(all_(same_state(vc, post.get(k), pre_d[k]) for k in pre_d if k != sid), len(post) == len(set(pre_d) | {sid})))


# ---------------------------------------------------------------------------------------------
# HttpLayer: routing between connections and streams

HL = HP + ":HttpLayer"
HS = HP + ":HttpStream"


class ScriptedChild:
    """stands for a child layer (HttpConnection or HttpStream): handle_event yields the scripted commands"""

    def handle_event(self, event):  # summarised
        raise NotImplementedError


def mk_layer_with_children(vc, script):
    """HttpLayer with a client connection handler, two streams (1, 3), two upstream connections; script: child name ->
    list of commands yielded on the first event it receives"""
    from mitmproxy.proxy.layers.http import HTTPMode
    client = mk_client(vc)
    s1, s2 = mk_server(vc, "srv1", address=("a.test", 443)), mk_server(vc, "srv2", address=("b.test", 443))
    ctx = mk_context(vc, client, mk_server(vc, "ctxsrv", address=None), mk_options(vc, proxy_debug=False))
    names = ["client_conn", "stream1", "stream3", "up1", "up2"]
    kids = {n: vc.new("props.C05:ScriptedChild", name=n, context=ctx, debug=None) for n in names}
    layer = vc.new(HL, context=ctx, debug=None, _paused=None, _paused_event_queue=vc.deque([]), mode=HTTPMode.regular,
                   connections=vc.dict([(client, kids["client_conn"]), (s1, kids["up1"]), (s2, kids["up2"])]),
                   streams=vc.dict([(1, kids["stream1"]), (3, kids["stream3"])]), command_sources=vc.dict([]),
                   waiting_for_establishment=mk_defaultdict(vc, []))
    log = []

    def handle(v, self_, event):
        n = conc(self_.name)
        first = not any(l[0] == n for l in log)
        log.append((n, event))
        return v.gen(script.get(n, []) if first else [])

    vc.summary("props.C05:ScriptedChild.handle_event", handle)
    return layer, kids, log, dict(client=client, s1=s1, s2=s2)


@scenario("HttpLayer.event_to_child.routing", functions=[HL + ".event_to_child", HL + "._handle_event"], asserts_are_obligations=True)
def s_routing(vc):
    what = vc.case("command", ["receive_data_known", "receive_data_unknown", "send_to_up1", "send_to_up2", "send_to_client", "drop_stream", "blocking_hook", "plain_command"])
    script = {}
    layer, kids, log, conns = mk_layer_with_children(vc, script)
    sid = {"receive_data_known": 3, "receive_data_unknown": 9}.get(what, 1)
    inner_ev = vc.new(EV + ":RequestData", stream_id=sid, data=vc.sym_bytes("d", 8))
    resp_ev = vc.new(EV + ":ResponseData", stream_id=1, data=vc.sym_bytes("r", 8))
    hook = vc.new("mitmproxy.proxy.layers.http._hooks:HttpRequestHook", flow=None, blocking=True)
    plain = vc.new("mitmproxy.proxy.commands:SendData", connection=conns["client"], data=b"x", blocking=False)
    if what.startswith("receive"):
        src, cmd = "client_conn", vc.new(HP + "._base:ReceiveHttp", event=inner_ev, blocking=False)
    elif what == "send_to_up1":
        src, cmd = "stream1", vc.new(HP + ":SendHttp", event=inner_ev, connection=conns["s1"], blocking=False)
    elif what == "send_to_up2":
        src, cmd = "stream1", vc.new(HP + ":SendHttp", event=inner_ev, connection=conns["s2"], blocking=False)
    elif what == "send_to_client":
        src, cmd = "stream3", vc.new(HP + ":SendHttp", event=resp_ev, connection=conns["client"], blocking=False)
    elif what == "drop_stream":
        src, cmd = "stream3", vc.new(HP + ":DropStream", stream_id=3, blocking=False)
    elif what == "blocking_hook":
        src, cmd = "stream3", hook
    else:
        src, cmd = "up2", plain
    script[src] = [cmd]
    start_ev = vc.new("mitmproxy.proxy.events:DataReceived", connection=conns["client"], data=b"")
    out = vc.call(HL + ".event_to_child", layer, kids[src], start_ev)
    vc.ensure("no_exception", out.ok)
    if not out.ok:
        return
    routed = [(n, e) for n, e in log[1:]]
    streams_now = {conc(k): v for k, v in d_items(vc, layer.streams)}
    if what == "receive_data_known":
        vc.ensure("receive.routed_to_stream_of_that_id_only", len(routed) == 1 and routed[0][0] == "stream3" and routed[0][1] is inner_ev)
    elif what == "receive_data_unknown":
        vc.ensure("receive.unknown_stream_dropped_silently", routed == [] and out.trace == [])
    elif what in ("send_to_up1", "send_to_up2", "send_to_client"):
        want = {"send_to_up1": "up1", "send_to_up2": "up2", "send_to_client": "client_conn"}[what]
        vc.ensure("send.routed_to_handler_of_that_connection_only", len(routed) == 1 and routed[0][0] == want and routed[0][1] is cmd.event)
    elif what == "drop_stream":
        vc.ensure("drop.only_that_stream_forgotten", sorted(streams_now) == [1] and routed == [] and out.trace == [])
    elif what == "blocking_hook":
        vc.ensure("blocking.passed_up_and_source_remembered", len(out.trace) == 1 and out.trace[0] is hook and d_lookup(vc, layer.command_sources, hook) is kids["stream3"])
    else:
        vc.ensure("plain.passed_up_unchanged", len(out.trace) == 1 and out.trace[0] is plain and len(d_items(vc, layer.command_sources)) == 0)
    if what != "drop_stream":
        vc.ensure("frame.streams_unchanged", sorted(streams_now) == [1, 3])
    vc.ensure("frame.connections_unchanged", len(d_items(vc, layer.connections)) == 3)
    if what == "blocking_hook":
        # the completion is returned to exactly the stream that issued the command
        done = vc.new("mitmproxy.proxy.events:HookCompleted", command=hook, reply=None)
        n0 = len(log)
        out2 = vc.call(HL + "._handle_event", layer, done)
        vc.ensure("completion.no_exception", out2.ok)
        vc.ensure("completion.returned_to_issuer_once", len(log) == n0 + 1 and log[-1][0] == "stream3" and log[-1][1] is done)
        vc.ensure("completion.source_forgotten", d_lookup(vc, layer.command_sources, hook) is None)


def d_lookup(vc, d, key):
    for k, v in d_items(vc, d):
        if k is key:
            return v
    return None


@scenario("HttpLayer.make_stream_on_request_headers", functions=[HL + ".event_to_child", HL + ".make_stream"], asserts_are_obligations=True)
def s_make_stream(vc):
    """request headers for a new stream id create exactly one new HttpStream for that id, start it, then deliver the headers
    to it; existing streams are not touched"""
    script = {}
    layer, kids, log, conns = mk_layer_with_children(vc, script)
    req_ev = vc.new(EV + ":RequestHeaders", stream_id=5, request=vc.new("mitmproxy.http:Request", data=None), end_stream=False, replay_flow=None)
    script["client_conn"] = [vc.new(HP + "._base:ReceiveHttp", event=req_ev, blocking=False)]
    created = []

    def new_stream(v, context, stream_id):
        c = v.new("props.C05:ScriptedChild", name=f"new{conc(stream_id)}", context=context, debug=None, stream_id=stream_id)
        created.append(c)
        return c

    vc.summary(HP + ":HttpStream", new_stream)
    out = vc.call(HL + ".event_to_child", layer, kids["client_conn"], vc.new("mitmproxy.proxy.events:DataReceived", connection=conns["client"], data=b""))
    vc.ensure("no_exception", out.ok)
    if not out.ok:
        return
    streams_now = {conc(k): v for k, v in d_items(vc, layer.streams)}
    vc.ensure("one_stream_created_for_that_id", len(created) == 1 and sorted(streams_now) == [1, 3, 5] and streams_now[5] is created[0] and vc.eq(created[0].stream_id, 5))
    vc.ensure("existing_streams_untouched", streams_now[1] is kids["stream1"] and streams_now[3] is kids["stream3"])
    routed = log[1:]
    vc.ensure("started_then_given_its_headers", len(routed) == 2 and routed[0][0] == "new5" and isa(routed[0][1], _cls("mitmproxy.proxy.events:Start")) and routed[1][0] == "new5" and routed[1][1] is req_ev)
    vc.ensure("own_context_fork", len(created) == 1 and created[0].context is not layer.context and created[0].context.client is layer.context.client)


# =============================================================================================
# T2 (bounded)

CLIENT_SEQS = {
    "HE": [("H", True)],
    "H.De": [("H", False), ("D", True)],
    "H.D.E": [("H", False), ("D", False), ("E",)],
    "H.D.D.T": [("H", False), ("D", False), ("D", False), ("T",)],
    "H.R": [("H", False), ("R",)],
    "H.D.R": [("H", False), ("D", False), ("R",)],
}
SERVER_SHAPES = ["He", "H.De", "H.D.T", "R"]


def interleavings(seqs):
    """all merges of the given sequences (lists) that keep each sequence's own order; items are (seq index, item)"""
    if all(not s for s in seqs):
        yield []
        return
    for i, s in enumerate(seqs):
        if s:
            rest = [list(x) for x in seqs]
            head = rest[i].pop(0)
            for tail in interleavings(rest):
                yield [(i, head)] + tail


class H2World:
    """client peer (plain hyper-h2) -- real HttpLayer -- server peer (plain hyper-h2), one upstream connection"""

    def __init__(self, max_streams=None):
        import h2.settings
        from mitmproxy.proxy import mode_specs
        from mitmproxy.proxy.layers import http as H, tls
        from props import sansio
        from props.h2peer import DeferDriver, H2Peer, PassTLS

        class TLS(PassTLS):
            alpn_for = staticmethod(lambda conn: b"h2")

        self._tls, self._orig = tls, tls.ServerTLSLayer
        tls.ServerTLSLayer = TLS
        self.H2Peer = H2Peer
        opts = sansio.make_options(connection_strategy="lazy")
        self.client = sansio.make_client()
        self.client.alpn, self.client.tls = b"h2", True
        self.client.proxy_mode = mode_specs.ProxyMode.parse("regular")
        self.ctx = sansio.context_for(opts, self.client)
        self.top = H.HttpLayer(self.ctx, H.HTTPMode.regular)
        self.flows = []

        def hook(h):
            if h.name == "requestheaders" and h.flow not in self.flows:
                self.flows.append(h.flow)

        self.drv = DeferDriver(self.top, hook_policy=hook)
        self.drv.start()
        self.cp = H2Peer(self.drv, self.client, client_side=True)
        self.cp.start()
        self.sp = None
        self.max_streams = max_streams
        self.sid_of = {}        # request tag k -> client stream id
        self.next_sid = 1
        self.pending_client = b""
        self.server_seen = []   # upstream stream ids in order of RequestReceived
        self.server_events = []
        self.max_open_seen = 0
        self.limit_now = None   # limit in force at the server peer once its SETTINGS were acknowledged

    def close(self):
        self._tls.ServerTLSLayer = self._orig

    # ---- client
    def client_action(self, k, act):
        h2c = self.cp.h2
        if act[0] == "H":
            sid = self.next_sid
            self.next_sid += 2
            self.sid_of[k] = sid
            h2c.send_headers(sid, [(b":method", b"POST"), (b":scheme", b"https"), (b":authority", b"a.test"), (b":path", f"/s{k}".encode()),
                                   (b"x-id", str(k).encode())], end_stream=act[1])
        elif act[0] == "D":
            n = sum(1 for _ in range(1))
            h2c.send_data(self.sid_of[k], f"[body-{k}]".encode(), end_stream=act[1])
        elif act[0] == "E":
            h2c.send_data(self.sid_of[k], b"", end_stream=True)
        elif act[0] == "T":
            h2c.send_headers(self.sid_of[k], [(b"x-trailer", str(k).encode())], end_stream=True)
        elif act[0] == "R":
            h2c.reset_stream(self.sid_of[k], 8)
        self.pending_client += h2c.data_to_send()

    def deliver_client(self, cuts=()):
        from mitmproxy.connection import ConnectionState
        data, self.pending_client = self.pending_client, b""
        if not data:
            return
        pts = sorted({c % len(data) for c in cuts if len(data) > 1} - {0})
        segs, last = [], 0
        for p_ in pts:
            segs.append(data[last:p_])
            last = p_
        segs.append(data[last:])
        for s in segs:
            if s and (self.client.state & ConnectionState.CAN_READ):
                self.drv.data(self.client, s)
        self.pump_server()

    # ---- server
    def pump_server(self):
        import h2.events
        import h2.settings
        if self.sp is None:
            ups = [c for c, d in self.drv.sent_chunks if c is not self.client]
            if not ups:
                return []
            conn = ups[0]
            settings = {h2.settings.SettingCodes.MAX_CONCURRENT_STREAMS: self.max_streams} if self.max_streams else None
            self.sp = self.H2Peer(self.drv, conn, client_side=False, settings=settings)
            self.sp.cursor = [i for i, (c, d) in enumerate(self.drv.sent_chunks) if c is conn][0]
            self.sp.start()
        new = self.sp.pump()
        for ev in new:
            if isinstance(ev, h2.events.RequestReceived):
                self.server_seen.append(ev.stream_id)
                self.max_open_seen = max(self.max_open_seen, self.sp.h2.open_inbound_streams)
                if self.limit_now is not None and self.sp.h2.open_inbound_streams > self.limit_now:
                    self.server_events.append(("over-limit", ev.stream_id, self.sp.h2.open_inbound_streams, self.limit_now))
            elif isinstance(ev, h2.events.SettingsAcknowledged):
                self.limit_now = self.sp.h2.local_settings.max_concurrent_streams
        self.server_events.extend(new)
        self.sp.flush()
        return new

    def server_settings(self, n):
        import h2.settings
        self.sp.h2.update_settings({h2.settings.SettingCodes.MAX_CONCURRENT_STREAMS: n})
        self.sp.flush()
        self.pump_server()

    def server_request(self, usid):
        """what the server peer has decoded on upstream stream usid"""
        from props.C06 import h2_message
        return h2_message(self.server_events, usid, True)

    def server_respond(self, usid, shape):
        tag = dict(self.server_request(usid)["headers"]).get(b"x-id", b"?")
        h = self.sp.h2
        try:
            if shape == "R":
                h.reset_stream(usid, 2)
            else:
                h.send_headers(usid, [(b":status", b"200"), (b"x-for", tag)], end_stream=shape == "He")
                if shape in ("H.De", "H.D.T"):
                    h.send_data(usid, b"[resp-" + tag + b"]", end_stream=shape == "H.De")
                if shape == "H.D.T":
                    h.send_headers(usid, [(b"x-resp-trailer", tag)], end_stream=True)
        except Exception as e:  # stream already reset by the other side
            self.server_events.append(("respond-refused", usid, repr(e)))
        self.sp.flush()
        self.pump_server()


def run_world(spec):
    """spec: dict(max_streams, seqs=[names for k=1..n], order=interleaving [(stream idx, action)], settings_at=(pos, n)|None,
    cuts=(..), resp_shapes=[...], resp_order=[...]). Returns observations."""
    import h2.events
    from props.C06 import h2_message
    from mitmproxy.proxy.layers.http import _http2
    w = H2World(spec["max_streams"])
    handed = []  # observation only: order in which requests are handed to the upstream HTTP/2 connection (first event per stream)
    orig_he = _http2.Http2Client._handle_event

    def spy(self, event):
        if isinstance(event, _http2.RequestHeaders) and event.request.path not in handed:
            handed.append(event.request.path)
        return orig_he(self, event)

    _http2.Http2Client._handle_event = spy
    try:
        # phase 0: one complete request that the server leaves unanswered (it occupies one upstream slot)
        w.client_action(0, ("H", True))
        w.deliver_client()
        w.pump_server()
        w.pump_server()
        w.cp.pump()
        # phase 1: interleaved frames of the other streams, delivered in arbitrary segments
        arrival = []
        for pos, (i, act) in enumerate(spec["order"]):
            if spec.get("settings_at") and spec["settings_at"][0] == pos:
                w.deliver_client(spec["cuts"])
                w.server_settings(spec["settings_at"][1])
            k = i + 1
            # a request is handed to the upstream connection when it is complete (requests are buffered, not streamed, by default)
            if (act[0] in ("H", "D") and act[1]) or act[0] in ("E", "T"):
                arrival.append(k)
            w.client_action(k, act)
            if spec.get("flush_each"):
                w.deliver_client(spec["cuts"])
        w.deliver_client(spec["cuts"])
        w.cp.pump()
        # phase 2: the server answers in the given order; freed capacity lets queued streams through
        answered = []
        shapes = list(spec["resp_shapes"])
        order = list(spec["resp_order"])
        step = 0
        while step < 40:
            w.pump_server()
            pend = [u for u in w.server_seen if u not in answered and w.server_request(u)["headers"] is not None]
            # only answer requests that the server has read completely or that were reset
            ready = [u for u in pend if w.server_request(u)["ended"] or w.server_request(u)["reset"] is not None]
            if not ready:
                break
            u = ready[order[step % len(order)] % len(ready)]
            answered.append(u)
            if w.server_request(u)["reset"] is None:
                w.server_respond(u, shapes[step % len(shapes)])
            step += 1
        w.pump_server()
        w.cp.pump()
        arrival = [int(p_[2:]) for p_ in handed if p_ != "/s0"]
        obs = dict(world=w, arrival=arrival, answered=answered, server_seen=list(w.server_seen), flows=list(w.flows),
                   server_error=w.sp.error if w.sp else None, client_error=w.cp.error, over_limit=[e for e in w.server_events if isinstance(e, tuple) and e[0] == "over-limit"],
                   max_open=w.max_open_seen)
        obs["server_requests"] = {u: w.server_request(u) for u in w.server_seen}
        obs["client_responses"] = {k: h2_message(w.cp.events, sid, False) for k, sid in w.sid_of.items()}
        obs["client_terminated"] = any(isinstance(e, h2.events.ConnectionTerminated) for e in w.cp.events)
        return obs
    finally:
        _http2.Http2Client._handle_event = orig_he
        w.close()


def expected_request(k, seq):
    acts = CLIENT_SEQS[seq] if k else [("H", True)]
    body = b"".join(f"[body-{k}]".encode() for a in acts if a[0] == "D")
    trailers = [(b"x-trailer", str(k).encode())] if any(a[0] == "T" for a in acts) else None
    reset = any(a[0] == "R" for a in acts)
    return body, trailers, reset


def check_world(b, spec, obs):
    inp = {k: (v if not isinstance(v, tuple) else list(v)) for k, v in spec.items()}
    inp["order"] = [[i, list(a)] for i, a in spec["order"]]
    n = len(spec["seqs"])
    if obs["server_error"] is not None:
        b.fail("h2.server_peer_accepts_upstream_frames", inp, repr(obs["server_error"]))
    if obs["client_error"] is not None:
        b.fail("h2.client_peer_accepts_downstream_frames", inp, repr(obs["client_error"]))
    if obs["client_terminated"]:
        b.fail("h2.client_connection_survives", inp, "mitmproxy terminated the client connection")
    if obs["over_limit"]:
        b.fail("upstream.opened_only_within_concurrency_limit", inp, str(obs["over_limit"]))
    # upstream: each client stream maps to its own server stream; consistent content; no loss, no duplication
    by_tag = {}
    for u, m in obs["server_requests"].items():
        hd = dict(m["headers"] or [])
        tag = hd.get(b"x-id")
        path = hd.get(b":path")
        if tag is None or path != b"/s" + tag:
            b.fail("upstream.headers_of_one_stream", inp, f"upstream stream {u}: {m['headers']}")
            continue
        k = int(tag)
        if k in by_tag:
            b.fail("upstream.no_duplicate_stream", inp, f"request {k} opened on upstream streams {by_tag[k]} and {u}")
        by_tag[k] = u
        body, trailers, reset = expected_request(k, spec["seqs"][k - 1] if k else None)
        if not reset:
            if m["body"] != body or (m["trailers"] or None) != trailers or not m["ended"]:
                b.fail("upstream.body_and_trailers_of_own_stream", inp, f"request {k} on upstream stream {u}: body {m['body']!r} trailers {m['trailers']} ended {m['ended']}; expected {body!r} {trailers}")
        else:
            if not body.startswith(m["body"]) or m["trailers"]:
                b.fail("upstream.body_and_trailers_of_own_stream", inp, f"reset request {k}: upstream got body {m['body']!r} trailers {m['trailers']}")
    for k in range(0, n + 1):
        body, trailers, reset = expected_request(k, spec["seqs"][k - 1] if k else None)
        if not reset and k not in by_tag:
            b.fail("upstream.no_stream_lost", inp, f"request {k} never reached the server (seen: {sorted(by_tag)})")
    # streams that had to wait for capacity are opened in arrival order
    seen_tags = [int(dict(obs["server_requests"][u]["headers"])[b"x-id"]) for u in obs["server_seen"] if obs["server_requests"][u]["headers"] and b"x-id" in dict(obs["server_requests"][u]["headers"])]
    arrival_seen = [k for k in obs["arrival"] if k in seen_tags]
    if [k for k in seen_tags if k != 0] != arrival_seen:
        b.fail("upstream.opened_in_arrival_order", inp, f"requests were handed to the upstream connection in order {obs['arrival']}, upstream streams opened in order {seen_tags}")
    if obs["server_seen"] != sorted(obs["server_seen"]):
        b.fail("upstream.stream_ids_increase", inp, str(obs["server_seen"]))
    # downstream: each response / reset reaches the client on the stream of the request it answers
    for k, m in obs["client_responses"].items():
        body, trailers, reset = expected_request(k, spec["seqs"][k - 1] if k else None)
        if m["headers"] is not None:
            hd = dict(m["headers"])
            if hd.get(b"x-for") is not None and hd.get(b"x-for") != str(k).encode():
                b.fail("downstream.response_on_the_stream_of_its_request", inp, f"client stream of request {k} got the response for request {hd.get(b'x-for')}")
            if hd.get(b"x-for") is not None:
                if m["body"] not in (b"", b"[resp-" + str(k).encode() + b"]"):
                    b.fail("downstream.body_of_own_response", inp, f"request {k}: body {m['body']!r}")
                if m["trailers"] and m["trailers"] != [(b"x-resp-trailer", str(k).encode())]:
                    b.fail("downstream.trailers_of_own_response", inp, f"request {k}: trailers {m['trailers']}")
        u = by_tag.get(k)
        if u is not None and u in obs["answered"] and not reset:
            shape = None
            # which shape was used for u
            idx = obs["answered"].index(u)
            shape = spec["resp_shapes"][idx % len(spec["resp_shapes"])]
            if shape == "R":
                if m["reset"] is None and m["headers"] is None:
                    b.fail("downstream.reset_reaches_the_client_stream", inp, f"server reset request {k}; client stream saw nothing")
            else:
                if m["headers"] is None:
                    b.fail("downstream.response_reaches_the_client_stream", inp, f"request {k} answered ({shape}) but the client stream got {m}")
                else:
                    want_body = b"" if shape == "He" else b"[resp-" + str(k).encode() + b"]"
                    want_tr = [(b"x-resp-trailer", str(k).encode())] if shape == "H.D.T" else None
                    if m["body"] != want_body or (m["trailers"] or None) != want_tr or not m["ended"]:
                        b.fail("downstream.complete_response_of_own_request", inp, f"request {k} ({shape}): client got body {m['body']!r} trailers {m['trailers']} ended {m['ended']}")
    # flows: every flow carries the headers, body and trailers of its own stream only
    for f in obs["flows"]:
        p = f.request.path
        if not p.startswith("/s"):
            b.fail("flow.identified", inp, p)
            continue
        k = int(p[2:])
        body, trailers, reset = expected_request(k, spec["seqs"][k - 1] if k else None)
        if f.request.headers.get("x-id") != str(k):
            b.fail("flow.request_headers_of_own_stream", inp, f"flow {p}: x-id {f.request.headers.get('x-id')}")
        if f.request.raw_content is not None and not reset and f.request.raw_content != body:
            b.fail("flow.request_body_of_own_stream", inp, f"flow {p}: {f.request.raw_content!r} expected {body!r}")
        if f.request.raw_content is not None and reset and not body.startswith(f.request.raw_content):
            b.fail("flow.request_body_of_own_stream", inp, f"flow {p}: {f.request.raw_content!r} expected prefix of {body!r}")
        if f.request.trailers is not None and [(a, c) for a, c in f.request.trailers.fields] != (trailers or []):
            b.fail("flow.request_trailers_of_own_stream", inp, f"flow {p}: {f.request.trailers.fields}")
        if f.response is not None and f.response.headers.get("x-for") not in (None, str(k)):
            b.fail("flow.response_of_own_request", inp, f"flow {p}: response for {f.response.headers.get('x-for')}")
        if f.response is not None and f.response.raw_content not in (None, b"", b"[resp-" + str(k).encode() + b"]"):
            b.fail("flow.response_body_of_own_request", inp, f"flow {p}: {f.response.raw_content!r}")
    if len({f.request.path for f in obs["flows"]}) != len(obs["flows"]):
        b.fail("flow.one_per_stream", inp, str([f.request.path for f in obs["flows"]]))


def bounded(tier, seed):
    import itertools
    import random
    rnd = random.Random(seed)
    b = Bounded()
    b.rule = ("client peer: stream 0 (complete request, left unanswered so that it holds one upstream slot) then every interleaving of the frame "
              "sequences of n<=3 further streams drawn from {HEADERS+END, HEADERS DATA+END, HEADERS DATA DATA(empty,END), HEADERS DATA DATA TRAILERS, "
              "HEADERS RST, HEADERS DATA RST}, delivered whole / frame by frame / cut at arbitrary byte offsets; server peer: initial "
              "MAX_CONCURRENT_STREAMS in {default, 1, 2}, optional SETTINGS lowering it to 1 in the middle, answers (headers | headers+data | "
              "headers+data+trailers | RST) in a permuted order, each answer freeing capacity for queued streams; checked: content of every "
              "upstream stream, flow and client stream belongs to one request, no request lost or duplicated, queued streams open in arrival "
              "order, the limit announced by the server is never exceeded (hyper-h2 server peer + explicit count). distinct = the whole "
              "schedule; non-trivial = at least 2 concurrent streams")
    b.bound = "<= 3 concurrent streams + 1 blocker, <= 8 client frames per schedule, <= 3 cuts; one upstream connection; bodies <= 20 bytes (flow-control buffering of BufferedH2Connection not exercised)"
    names = list(CLIENT_SEQS)
    specs = []
    combos = []
    for n in (1, 2, 3):
        for seqs in itertools.product(names, repeat=n):
            if sum(len(CLIENT_SEQS[s]) for s in seqs) <= 8:
                combos.append(seqs)
    rnd.shuffle(combos)
    budget = 2400 if tier == "quick" else 40000
    per_combo = 10 if tier == "quick" else 200
    for seqs in combos:
        ils = list(itertools.islice(interleavings([list(CLIENT_SEQS[s]) for s in seqs]), 400))
        rnd.shuffle(ils)
        for order in ils[:per_combo]:
            ms = rnd.choice([None, 1, 1, 2])
            settings_at = None
            if ms is None and rnd.random() < 0.5:
                settings_at = (rnd.randrange(len(order)), 1)
            cuts = tuple(rnd.randrange(1, 400) for _ in range(rnd.choice([0, 0, 1, 2, 3])))
            specs.append(dict(max_streams=ms, seqs=list(seqs), order=order, settings_at=settings_at, cuts=cuts, flush_each=rnd.random() < 0.4,
                              resp_shapes=[rnd.choice(SERVER_SHAPES) for _ in range(4)], resp_order=[rnd.randrange(4) for _ in range(4)]))
        if len(specs) >= budget:
            break
    for spec in specs[:budget]:
        b.case(repr(spec), nontrivial=len(spec["seqs"]) >= 2)
        try:
            obs = run_world(spec)
        except Exception as e:
            import traceback
            b.fail("h2.no_crash", {k: str(v) for k, v in spec.items()}, f"{type(e).__name__}: {e} {traceback.format_exc()[-700:]}")
            continue
        check_world(b, spec, obs)
    return b
