"""C05 — HTTP/2 streams are isolated and correctly mapped.

T1: contracts on Http2Client._handle_event (stream-id maps, queue of streams waiting for upstream capacity),
Http2Connection/Http2Server/Http2Client.handle_h2_event (per-stream receive state) and HttpLayer.event_to_child / make_stream /
_handle_event routing (mitmproxy/proxy/layers/http/_http2.py, __init__.py). hyper-h2 is a trusted library contract.
T2: two plain hyper-h2 connections as client and server peers around the real HttpLayer: interleaved and segmented frames of
several concurrent streams, SETTINGS lowering MAX_CONCURRENT_STREAMS, resets, trailers, responses in any order.
"""
from pyvc.api import *
from props.prelude import *

CLAIM = "other"
EXPLANATION = ("T1 proves, relative to a trusted hyper-h2 contract and for every value of the open-stream count, the peer's limit and the "
               "provisional limit: Http2Client._handle_event rewrites an event's stream id to the upstream id of its own client stream, "
               "allocates a new upstream id only while open < limit and extends both maps consistently (bijection invariant), otherwise "
               "appends the event to its stream's waiting list and does nothing else; everything the HTTP/2 engine reports is translated "
               "back to the client stream it belongs to, order kept; freed capacity resumes the oldest waiting stream first, replays each "
               "stream's events once, in order, under one new id, and stops only when capacity is exhausted or nobody waits. "
               "Http2Connection/Http2Server/Http2Client.handle_h2_event: every report carries the h2 event's stream id, per-stream state is "
               "touched for that id only, DATA before response headers / unexpected or malformed HEADERS are connection errors that reach "
               "every open stream once. HttpLayer.event_to_child/_handle_event/make_stream: ReceiveHttp goes to the stream of its id only "
               "(unknown ids are dropped), SendHttp to the handler of its connection only, completions return to the issuing stream, new "
               "request headers create exactly one stream. HttpStream.handle_protocol_error drops exactly its own stream id, last, once, even when "
               "the receiver of SendHttp rewrites the event's stream id in place (as Http2Client does). BufferedH2Connection: an operation on stream X reads and writes only X's buffer and X's "
               "queued trailers and hands frames to hyper-h2 for X only; bytes are conserved in order (wire ++ buffer = old buffer ++ new data), "
               "never more than the credit, as much as the credit allows on a window update; trailers go out at once when X has nothing buffered "
               "(whatever other streams have buffered), otherwise strictly after X's data and they end the stream; the END_STREAM flag stays "
               "with the last byte. The proofs use representative stream ids and a bounded number of waiting "
               "streams/events; frame-level interleavings, segmentation and the real hyper-h2 state machines are covered bounded in T2 "
               "(two plain hyper-h2 peers around the real HttpLayer). HttpStream.check_body_size never closes a connection: an oversized response "
               "cancels only this stream's own upstream stream. When the upstream connection dies, the open streams and the streams still waiting for capacity are each told once "
               "(the latter was KF-C05-1, repaired in dcf87b3d2). Known finding KF-C05-2 (check_invalid closes the shared upstream connection) "
               "is excluded by its class predicate and re-witnessed on every run.")
ASSUMPTIONS = [
    "hyper-h2 (h2.connection.H2Connection / BufferedH2Connection) is trusted: open_outbound_streams counts our open streams, remote_settings.max_concurrent_streams is the peer's current limit, get_next_available_stream_id() is fresh and increasing, receive_data reports each frame as an event with the right stream id",
    "T1 uses representative ids (client streams 5, 9 open as 1, 3; 21 and 17 waiting, 21 first; 13 new): the code uses ids only as dictionary keys",
    "T1 bounds: <= 2 waiting streams with <= 2 events each; Http2Client._handle_event2 (the h2 I/O) is abstracted to: logs its event, yields scripted commands, changes the open-stream count (+1 on request headers, arbitrary otherwise)",
    "queue invariant (streams wait only while open >= limit) is assumed on entry and proved on exit of every call",
    "BufferedH2Connection (send_data, send_trailers, end_stream, reset_stream, stream_window_updated, receive_data) is under T1 contract with the hyper-h2 base class summarised (ghost log of frames, symbolic per-stream credit; send_data beyond the credit is recorded as a violation): <= 2 buffered chunks, one unrelated stream Y (idle | blocked | blocked with queued trailers); send_data with data <= one frame (16384), and its frame-splitting branch with max_outbound_frame_size = 4 and every data length in (4, 12] (scenario send_data.split_over_frames: conservation, piece size, END_STREAM on exactly the last piece, credit, isolation; the code only compares and slices with the frame size); the round-robin of connection_window_updated is covered in T2 only (70000-byte bodies, late credit; error pages of up to 140000 bytes written by mitmproxy in one send_data(end_stream=True)); h2 PUSH is disabled by mitmproxy",
    "T2 observes the order in which requests are handed to the upstream connection with a spy on Http2Client._handle_event (hook completion order decides it, not frame order)",
]


M2 = "mitmproxy.proxy.layers.http._http2"
HP = "mitmproxy.proxy.layers.http"
EV = "mitmproxy.proxy.layers.http._events"


class H2Stub:
    """Stands for BufferedH2Connection in T1: exactly the members the code under contract reads or calls.
    Trusted hyper-h2 contract (stated by the summaries in the scenarios): open_outbound_streams counts our open streams,
    remote_settings.max_concurrent_streams is the peer's limit, get_next_available_stream_id() returns an id that was never
    used on this connection."""

    def get_next_available_stream_id(self):  # summarised
        raise NotImplementedError

    def acknowledge_received_data(self, n, stream_id):  # summarised
        raise NotImplementedError

    def close_connection(self, error_code=0, additional_data=None, last_stream_id=None):  # summarised
        raise NotImplementedError

    def data_to_send(self, amount=None):  # summarised
        raise NotImplementedError


class SettingsStub:
    pass


def _cls(ref):
    from pyvc.vc import resolve_ref
    return resolve_ref(ref)[2]


def d_items(vc, d):
    return list(d.items) if isinstance(d, SDict) else list(d.items())


def d_get(vc, d, key):
    for k, v in d_items(vc, d):
        if (k.concrete() if hasattr(k, "concrete") else k) == key:
            return v
    return None


def l_items(x):
    return list(x.items) if isinstance(x, (SList, STuple)) else list(x)


def conc(x):
    return x.concrete() if hasattr(x, "concrete") else x


def mk_defaultdict(vc, items):
    import collections
    if vc.mode == "sym":
        from pyvc.libx_http2 import SDefaultDict
        return SDefaultDict(SConst(list), [(lift(k), lift(v)) for k, v in items])
    return collections.defaultdict(list, items)


def is_ghost(c, tag):
    if isinstance(c, STuple):
        return c.items[0].concrete() == tag
    return isinstance(c, tuple) and len(c) > 0 and c[0] == tag


def mk_http_event(vc, kind, sid):
    if kind == "RequestHeaders":
        return vc.new(EV + ":RequestHeaders", stream_id=sid, request=vc.new("mitmproxy.http:Request", data=None), end_stream=False, replay_flow=None)
    if kind == "RequestData":
        return vc.new(EV + ":RequestData", stream_id=sid, data=vc.sym_bytes(f"data{sid}", 8))
    if kind == "RequestEndOfMessage":
        return vc.new(EV + ":RequestEndOfMessage", stream_id=sid)
    if kind == "RequestProtocolError":
        from mitmproxy.proxy.layers.http._events import ErrorCode
        return vc.new(EV + ":RequestProtocolError", stream_id=sid, message="cancelled", code=ErrorCode.CANCEL)
    raise ValueError(kind)


# ours/theirs in the pre-state: client streams 5 and 9 are open upstream as 1 and 3; client streams 21 then 17 wait for capacity
# (21 was queued first). The code uses ids only as dictionary keys; the concrete numbers are representatives.
OURS = {5: 1, 9: 3}
NEXT_OURS = 5


def mk_h2client(vc, queued, provisional, open_streams, limit):
    stub = vc.new("props.C05:H2Stub", open_outbound_streams=open_streams, remote_settings=vc.new("props.C05:SettingsStub", max_concurrent_streams=limit), next_id=NEXT_OURS)
    server = mk_server(vc)
    ctx = mk_context(vc, server=server, options=mk_options(vc, http2_ping_keepalive=0))
    q = [(sid, vc.list(evs)) for sid, evs in queued]
    layer = vc.new(M2 + ":Http2Client", context=ctx, conn=server, h2_conn=stub, streams=vc.dict([]), debug=None, _paused=None, _paused_event_queue=vc.deque([]),
                   our_stream_id=vc.dict(list(OURS.items())), their_stream_id=vc.dict([(v, k) for k, v in OURS.items()]),
                   stream_queue=mk_defaultdict(vc, q), provisional_max_concurrency=provisional, last_activity=0.0)
    return layer, stub


def install_h2client_env(vc, stub, script):
    """_handle_event2 (the real sending/receiving through hyper-h2) is abstracted: it logs the event it is given (with the
    stream id it carries at that moment), yields the scripted commands of `script(event, call_index)` and lets the peer/library
    change the number of open streams: +1 when request headers are sent, otherwise an arbitrary new value (streams end, resets)."""
    calls, allocs = [], []

    def inner(v, self_, event):
        idx = len(calls)
        sid = conc(event.stream_id) if isa(event, _cls(HP + "._base:HttpEvent")) else None
        calls.append((event, sid))
        if isa(event, _cls(EV + ":RequestHeaders")):
            stub.open_outbound_streams = stub.open_outbound_streams + 1
        else:
            nv = v.fresh_int("open_after")
            v.assume(nv >= 0)
            stub.open_outbound_streams = nv
        return v.gen(script(event, idx))

    def next_id(v, self_):
        cur = self_.next_id
        lim = layer_limit(v, self_)
        allocs.append((cur, self_.open_outbound_streams, lim))
        self_.next_id = cur + 2
        return cur

    def layer_limit(v, stub_):
        return stub_.remote_settings.max_concurrent_streams

    vc.summary(M2 + ":Http2Client._handle_event2", inner)
    vc.summary("props.C05:H2Stub.get_next_available_stream_id", next_id)
    return calls, allocs


def bijection_ok(vc, layer):
    ours, theirs = d_items(vc, layer.our_stream_id), d_items(vc, layer.their_stream_id)
    o = {conc(k): conc(v) for k, v in ours}
    t = {conc(k): conc(v) for k, v in theirs}
    return len(o) == len(ours) and len(t) == len(theirs) and len(o) == len(t) and all(t.get(v) == k for k, v in o.items()) and len(set(o.values())) == len(o)


@scenario("Http2Client._handle_event.map_and_queue", functions=[M2 + ":Http2Client._handle_event"], asserts_are_obligations=True)
def s_h2c_event(vc):
    target = vc.case("event_stream", [5, 9, 13, 21])       # known, known, brand new, already waiting
    kind = vc.case("event_kind", ["RequestHeaders", "RequestData", "RequestEndOfMessage", "RequestProtocolError"])
    nq = vc.case("queued_streams", [0, 1, 2])
    provisional = vc.case("provisional", [None, 10])
    if target == 21 and nq == 0:
        return
    if target == 13 and kind != "RequestHeaders":
        return  # a stream starts with its headers (HttpStream sends nothing else first)
    open_streams = vc.sym_int("open_streams", lo=0)
    limit = vc.sym_int("limit", lo=1)
    q_evs = {21: [mk_http_event(vc, "RequestHeaders", 21), mk_http_event(vc, "RequestEndOfMessage", 21)], 17: [mk_http_event(vc, "RequestHeaders", 17)]}
    queued = [(sid, q_evs[sid]) for sid in [21, 17][:nq]]
    layer, stub = mk_h2client(vc, queued, provisional, open_streams, limit)
    eff_limit = 10 if provisional == 10 else limit
    # queue invariant: streams only wait while there is no capacity
    if nq:
        vc.assume(open_streams >= eff_limit)
    ev = mk_http_event(vc, kind, target)
    resp_for = vc.case("inner_yields_response_for", [None, 1, 3])

    def script(event, idx):
        out = []
        if idx == 0 and resp_for is not None:
            out.append(vc.new(HP + "._base:ReceiveHttp", event=vc.new(EV + ":ResponseData", stream_id=resp_for, data=b"r"), blocking=False))
        out.append(vc.new("mitmproxy.proxy.commands:SendData", connection=layer.conn, data=b"frame", blocking=False))
        return out

    calls, allocs = install_h2client_env(vc, stub, script)
    out = vc.call(M2 + ":Http2Client._handle_event", layer, ev)
    vc.ensure("no_exception", out.ok)
    if not out.ok:
        return
    vc.ensure("inv.bijection_preserved", bijection_ok(vc, layer))
    known = target in OURS
    had_capacity = vc.branch(open_streams < eff_limit)
    queue_now = [(conc(k), l_items(v)) for k, v in d_items(vc, layer.stream_queue)]
    if not known and not had_capacity:
        # no capacity: the event waits, nothing is sent, nothing else changes
        vc.ensure("wait.nothing_sent_or_received", len(out.trace) == 0 and calls == [] and allocs == [])
        want = [(sid, list(evs)) for sid, evs in queued]
        if target == 21:
            want[0] = (21, want[0][1] + [ev])
        else:
            want.append((target, [ev]))
        vc.ensure("wait.appended_at_end_of_its_stream_queue", [k for k, _ in queue_now] == [k for k, _ in want] and all(len(a) == len(b_) and all(x is y for x, y in zip(a, b_)) for (_, a), (_, b_) in zip(queue_now, want)))
        vc.ensure("wait.stream_id_not_rewritten", vc.eq(ev.stream_id, target))
        vc.ensure("wait.maps_unchanged", len(d_items(vc, layer.our_stream_id)) == 2)
        return
    # the event itself is processed first, exactly once, under our id
    vc.ensure("first_call_is_this_event", len(calls) >= 1 and calls[0][0] is ev)
    if len(calls) < 1:
        return
    if known:
        vc.ensure("known.rewritten_to_our_id", calls[0][1] == OURS[target])
        vc.ensure("known.no_allocation_for_it", all(conc(a[0]) != OURS[target] for a in allocs))
    else:
        vc.ensure("new.allocated_fresh_id", len(allocs) >= 1 and conc(allocs[0][0]) == NEXT_OURS and calls[0][1] == NEXT_OURS)
        vc.ensure("new.both_maps_extended", conc(d_get(vc, layer.our_stream_id, target)) == NEXT_OURS and conc(d_get(vc, layer.their_stream_id, NEXT_OURS)) == target)
    # every upstream stream is opened only while the limit allows it
    for i, (nid, open_then, lim_then) in enumerate(allocs):
        lim_eff = 10 if provisional == 10 else lim_then
        vc.ensure(f"alloc[{i}].only_below_limit", open_then < lim_eff)
    # translation of what comes back: the first inner call answered for our stream `resp_for`
    recv = [c for c in out.trace if is_cmd(c, "ReceiveHttp")]
    if resp_for is not None:
        theirs = {1: 5, 3: 9}[resp_for]
        vc.ensure("receive.translated_to_client_stream_id", len(recv) == 1 and vc.eq(recv[0].event.stream_id, theirs))
    else:
        vc.ensure("receive.none_invented", recv == [])
    vc.ensure("other_commands_passed_through", sum(1 for c in out.trace if is_cmd(c, "SendData")) == len(calls))
    # resumption of waiting streams: oldest first, each stream's events in their order, all under one newly allocated id
    replayed = calls[1:]
    flat = []
    for sid, evs in queued:
        if sid == 21 and target == 21:
            continue
        flat.extend((sid, e) for e in evs)
    if target == 21:
        # cannot happen: a waiting stream receives capacity only through resumption (queue invariant) - covered by the wait branch
        pass
    popped = len(queued) - len([k for k, _ in queue_now])
    total = 0
    for sid, evs in queued[:popped]:
        ours_new = conc(d_get(vc, layer.our_stream_id, sid))
        vc.ensure(f"resume.stream[{sid}].mapped", ours_new is not None and conc(d_get(vc, layer.their_stream_id, ours_new)) == sid)
        mine = [r for r in replayed if any(r[0] is e_ for e_ in evs)]
        vc.ensure(f"resume.stream[{sid}].all_events_once_in_order_under_one_id", len(mine) == len(evs) and all(m[0] is e_ and m[1] == ours_new for m, e_ in zip(mine, evs)))
        total += len(evs)
    vc.ensure("resume.nothing_lost_or_duplicated", len(replayed) == total and [kk for kk, _ in queue_now] == [sid for sid, _ in queued[popped:]])
    # opened in arrival order: the ids handed out to resumed streams increase in queue order (oldest waiting stream first)
    new_ids = [conc(d_get(vc, layer.our_stream_id, sid)) for sid, _ in queued[:popped]]
    first_pos = [min([i for i, r in enumerate(replayed) if any(r[0] is e_ for e_ in evs)] or [-1]) for sid, evs in queued[:popped]]
    vc.ensure("resume.opened_in_arrival_order", all(x is not None for x in new_ids) and new_ids == sorted(new_ids) and first_pos == sorted(first_pos))
    if queue_now:
        vc.ensure("resume.stops_only_without_capacity", Not(stub.open_outbound_streams < (10 if provisional == 10 else stub.remote_settings.max_concurrent_streams)))


@scenario("Http2Client._handle_event.connection_event", functions=[M2 + ":Http2Client._handle_event"], asserts_are_obligations=True)
def s_h2c_conn_event(vc):
    """bytes from the server: whatever the HTTP/2 engine reports for our streams reaches the client streams they belong to,
    in order; freed capacity resumes the oldest waiting stream."""
    nq = vc.case("queued_streams", [0, 1, 2])
    provisional = vc.case("provisional", [None, 10])
    open_streams = vc.sym_int("open_streams", lo=0)
    limit = vc.sym_int("limit", lo=1)
    q_evs = {21: [mk_http_event(vc, "RequestHeaders", 21), mk_http_event(vc, "RequestData", 21)], 17: [mk_http_event(vc, "RequestHeaders", 17)]}
    queued = [(sid, q_evs[sid]) for sid in [21, 17][:nq]]
    layer, stub = mk_h2client(vc, queued, provisional, open_streams, limit)
    eff_limit = 10 if provisional == 10 else limit
    if nq:
        vc.assume(open_streams >= eff_limit)
    ev = vc.new("mitmproxy.proxy.events:DataReceived", connection=layer.conn, data=vc.sym_bytes("wire", 16))
    inner_cmds = []

    def script(event, idx):
        if idx != 0:
            return [vc.new("mitmproxy.proxy.commands:SendData", connection=layer.conn, data=b"frame", blocking=False)]
        out = [vc.new(HP + "._base:ReceiveHttp", event=vc.new(EV + ":ResponseData", stream_id=3, data=b"for-9"), blocking=False),
               vc.new("mitmproxy.proxy.commands:SendData", connection=layer.conn, data=b"ack", blocking=False),
               vc.new(HP + "._base:ReceiveHttp", event=vc.new(EV + ":ResponseEndOfMessage", stream_id=1), blocking=False),
               vc.new(HP + "._base:ReceiveHttp", event=vc.new(EV + ":ResponseProtocolError", stream_id=3, message="reset", code=None), blocking=False)]
        inner_cmds.extend(out)
        return out

    calls, allocs = install_h2client_env(vc, stub, script)
    out = vc.call(M2 + ":Http2Client._handle_event", layer, ev)
    vc.ensure("no_exception", out.ok)
    if not out.ok:
        return
    vc.ensure("event_passed_unchanged_first", len(calls) >= 1 and calls[0][0] is ev)
    tr = out.trace
    vc.ensure("commands_kept_in_order", len(tr) >= 4 and all(a is b_ for a, b_ in zip(tr[:4], inner_cmds)))
    if len(tr) >= 4:
        vc.ensure("data_for_our_stream_3_reaches_client_stream_9", vc.eq(tr[0].event.stream_id, 9))
        vc.ensure("end_of_our_stream_1_reaches_client_stream_5", vc.eq(tr[2].event.stream_id, 5))
        vc.ensure("reset_of_our_stream_3_reaches_client_stream_9", vc.eq(tr[3].event.stream_id, 9))
    vc.ensure("inv.bijection_preserved", bijection_ok(vc, layer))
    for i, (nid, open_then, lim_then) in enumerate(allocs):
        vc.ensure(f"alloc[{i}].only_below_limit", open_then < (10 if provisional == 10 else lim_then))
    queue_now = [(conc(k), l_items(v)) for k, v in d_items(vc, layer.stream_queue)]
    popped = len(queued) - len(queue_now)
    replayed = calls[1:]
    total = 0
    for sid, evs in queued[:popped]:
        ours_new = conc(d_get(vc, layer.our_stream_id, sid))
        mine = [r for r in replayed if any(r[0] is e_ for e_ in evs)]
        vc.ensure(f"resume.stream[{sid}].all_events_once_in_order_under_one_id", ours_new is not None and len(mine) == len(evs) and all(m[0] is e_ and m[1] == ours_new for m, e_ in zip(mine, evs)))
        total += len(evs)
    vc.ensure("resume.nothing_lost_or_duplicated", len(replayed) == total and [kk for kk, _ in queue_now] == [sid for sid, _ in queued[popped:]])
    new_ids = [conc(d_get(vc, layer.our_stream_id, sid)) for sid, _ in queued[:popped]]
    vc.ensure("resume.opened_in_arrival_order", all(x is not None for x in new_ids) and new_ids == sorted(new_ids))
    if queue_now:
        vc.ensure("resume.stops_only_without_capacity", Not(stub.open_outbound_streams < (10 if provisional == 10 else stub.remote_settings.max_concurrent_streams)))


# ---------------------------------------------------------------------------------------------
# per-stream receive state: Http2Connection / Http2Server / Http2Client .handle_h2_event

def mk_h2conn(vc, side, streams):
    from mitmproxy.proxy.layers.http._http2 import StreamState
    stub = vc.new("props.C05:H2Stub", open_outbound_streams=0, remote_settings=vc.new("props.C05:SettingsStub", max_concurrent_streams=100), next_id=1)
    client, server = mk_client(vc), mk_server(vc, peername=("10.0.0.1", 443))
    ctx = mk_context(vc, client, server, mk_options(vc, http2_ping_keepalive=0, validate_inbound_headers=True))
    cls = M2 + (":Http2Server" if side == "server" else ":Http2Client")
    extra = {} if side == "server" else dict(our_stream_id=vc.dict([]), their_stream_id=vc.dict([]), stream_queue=mk_defaultdict(vc, []), provisional_max_concurrency=10, last_activity=0.0)
    layer = vc.new(cls, context=ctx, conn=client if side == "server" else server, h2_conn=stub, streams=vc.dict([(k, v) for k, v in streams]), debug=None,
                   _paused=None, _paused_event_queue=vc.deque([]), **extra)
    return layer, stub


def install_h2conn_env(vc, closed_answer):
    acks, closes = [], []

    def ack(v, self_, n, sid):
        acks.append((n, sid))
        return None

    def close_conn(v, self_, error_code=0, additional_data=None, last_stream_id=None):
        closes.append(error_code)
        return None

    def data_to_send(v, self_, amount=None):
        return b"GOAWAY"

    def is_closed(v, self_, sid):
        return closed_answer

    vc.summary("props.C05:H2Stub.acknowledge_received_data", ack)
    vc.summary("props.C05:H2Stub.close_connection", close_conn)
    vc.summary("props.C05:H2Stub.data_to_send", data_to_send)
    vc.summary(M2 + ":Http2Connection.is_closed", is_closed)
    return acks, closes


def all_(conds):
    conds = list(conds)
    return And(*conds) if conds else True


def same_state(vc, got, want):
    if got is None or want is None:
        return got is None and want is None
    return vc.eq(got, want)


def stream_states(vc, layer):
    return {conc(k): v for k, v in d_items(vc, layer.streams)}


def check_connection_error(vc, tag, out, layer, pre_streams, err_cls):
    """a connection error: GOAWAY sent, connection closed, *every* open stream is told, nothing else, no more events handled"""
    tr = out.trace
    kinds = trace_kinds(tr)
    vc.ensure(tag + ".returns_stop", vc.eq(out.result, True))
    recv = [c for c in tr if is_cmd(c, "ReceiveHttp")]
    vc.ensure(tag + ".goaway_then_close", kinds[:3] == ["Log", "SendData", "CloseConnection"] and tr[2].connection is layer.conn and tr[1].connection is layer.conn)
    vc.ensure(tag + ".every_open_stream_gets_the_error_once", all_(And(isa(c.event, err_cls), vc.eq(c.event.stream_id, sid)) for c, sid in zip(recv, pre_streams)) if len(recv) == len(pre_streams) else False)
    vc.ensure(tag + ".nothing_else", len(tr) == 3 + len(pre_streams))
    vc.ensure(tag + ".streams_cleared", len(stream_states(vc, layer)) == 0)
    h = (layer.fields if vc.mode == "sym" else layer.__dict__).get("_handle_event")
    vc.ensure(tag + ".connection_done", h is not None)


@scenario("handle_h2_event.stream_events", functions=[M2 + ":Http2Connection.handle_h2_event", M2 + ":Http2Connection.protocol_error", M2 + ":Http2Connection.close_connection"],
          asserts_are_obligations=True)
def s_h2_stream_events(vc):
    from mitmproxy.proxy.layers.http._http2 import StreamState as SS
    side = vc.case("side", ["server", "client"])
    kind = vc.case("h2_event", ["DataReceived", "TrailersReceived", "StreamEnded", "StreamReset"])
    sid = vc.case("stream", [1, 3, 7])   # 1: headers received, 3: still expecting (response) headers, 7: not tracked
    pre = [(1, SS.HEADERS_RECEIVED), (3, SS.EXPECTING_HEADERS)] if side == "client" else [(1, SS.HEADERS_RECEIVED), (3, SS.HEADERS_RECEIVED)]
    closed_answer = vc.sym_bool("h2_says_stream_closed")
    layer, stub = mk_h2conn(vc, side, pre)
    acks, closes = install_h2conn_env(vc, closed_answer)
    E = lambda n: _cls(EV + ":" + ("Request" if side == "server" else "Response") + n)
    data = vc.sym_bytes("data", 12)
    ended = vc.sym_bool("stream_ended")
    if kind == "DataReceived":
        ev = vc.new("h2.events:DataReceived", stream_id=sid, data=data, flow_controlled_length=vc.sym_int("fcl", lo=0), stream_ended=If(ended, True, None) if vc.mode == "sym" else (True if ended else None))
    elif kind == "TrailersReceived":
        ev = vc.new("h2.events:TrailersReceived", stream_id=sid, headers=[(b"x-t", data)], stream_ended=None, priority_updated=None)
    elif kind == "StreamEnded":
        ev = vc.new("h2.events:StreamEnded", stream_id=sid)
    else:
        ev = vc.new("h2.events:StreamReset", stream_id=sid, error_code=vc.case("error_code", [8, 13, 2, 999]), remote_reset=True)
    out = vc.call(M2 + ":Http2Connection.handle_h2_event", layer, ev)
    if kind == "StreamEnded" and side == "client" and sid == 3:
        return  # END_STREAM before response headers cannot be reported by hyper-h2 (marked unreachable in the code)
    vc.ensure("no_exception", out.ok)
    if not out.ok:
        return
    tr = out.trace
    recv = [c for c in tr if is_cmd(c, "ReceiveHttp")]
    post = stream_states(vc, layer)
    pre_d = dict(pre)
    state = pre_d.get(sid)
    if kind == "DataReceived" and state is SS.EXPECTING_HEADERS:
        check_connection_error(vc, "data_before_headers", out, layer, [k for k, _ in pre], E("ProtocolError"))
        return
    vc.ensure("continues", vc.eq(out.result, False))
    vc.ensure("only_receive_commands", len(recv) == len(tr))
    vc.ensure("every_report_is_for_the_event_stream", all_(vc.eq(c.event.stream_id, sid) for c in recv))
    others = [k for k in pre_d if k != sid]
    vc.ensure("frame.other_streams_untouched", all_(same_state(vc, post.get(k), pre_d[k]) for k in others))
    if kind == "DataReceived":
        vc.ensure("data.flow_control_acknowledged_for_this_stream", len(acks) == 1 and vc.eq(acks[0][1], sid))
        if state is SS.HEADERS_RECEIVED:
            empty_end = And(ended, len_(data) == 0)
            if vc.branch(empty_end):
                vc.ensure("data.empty_end_marker_not_forwarded", recv == [])
            else:
                vc.ensure("data.forwarded_once", len(recv) == 1 and isa(recv[0].event, E("Data")))
                if len(recv) == 1:
                    vc.ensure("data.bytes_unchanged", vc.eq(recv[0].event.data, data))
        else:
            vc.ensure("data.untracked_stream_ignored", recv == [])
        vc.ensure("data.state_unchanged", same_state(vc, post.get(sid), state))
    elif kind == "TrailersReceived":
        vc.ensure("trailers.forwarded_once", len(recv) == 1 and isa(recv[0].event, E("Trailers")))
        if len(recv) == 1:
            tf = recv[0].event.trailers
            tfl = l_items(tf.fields["fields"] if isinstance(tf, SObj) else tf.fields)
            vc.ensure("trailers.same_fields", And(vc.eq(tfl[0][0], b"x-t"), vc.eq(tfl[0][1], data)) if len(tfl) == 1 else False)
    elif kind == "StreamEnded":
        if state is SS.HEADERS_RECEIVED:
            vc.ensure("end.reported_once", len(recv) == 1 and isa(recv[0].event, E("EndOfMessage")))
            if vc.branch(closed_answer):
                vc.ensure("end.closed_stream_forgotten", sid not in post)
            else:
                vc.ensure("end.half_open_stream_kept", same_state(vc, post.get(sid), state))
        else:
            vc.ensure("end.untracked_stream_ignored", recv == [])
    else:
        if state is not None:
            vc.ensure("reset.reported_once_and_forgotten", len(recv) == 1 and isa(recv[0].event, E("ProtocolError")) and sid not in post)
        else:
            vc.ensure("reset.untracked_stream_ignored", recv == [] and len(post) == len(pre_d))


@scenario("handle_h2_event.headers", functions=[M2 + ":Http2Server.handle_h2_event", M2 + ":Http2Client.handle_h2_event", M2 + ":parse_h2_request_headers", M2 + ":parse_h2_response_headers"],
          asserts_are_obligations=True)
def s_h2_headers(vc):
    from mitmproxy.proxy.layers.http._http2 import StreamState as SS
    side = vc.case("side", ["server", "client"])
    sid = vc.case("stream", [1, 3, 7])
    shape = vc.case("block", ["ok", "malformed"])
    ended = vc.sym_bool("stream_ended")
    pre = [(1, SS.HEADERS_RECEIVED), (3, SS.EXPECTING_HEADERS)] if side == "client" else [(1, SS.HEADERS_RECEIVED)]
    layer, stub = mk_h2conn(vc, side, pre)
    acks, closes = install_h2conn_env(vc, False)
    from props.C06 import install_parse_authority
    install_parse_authority(vc)  # url.parse_authority evaluated by the real function on the concrete authority b"a.test"
    perrs = []

    def protocol_error_summary(v, self_, message, error_code=None):
        # the body of protocol_error (GOAWAY, close, error to every open stream, streams cleared) is proved in
        # handle_h2_event.stream_events[data_before_headers]; here only that it is the one thing that happens
        perrs.append(message)
        return v.gen([v.ghost("protocol_error", self_)])

    vc.summary(M2 + ":Http2Connection.protocol_error", protocol_error_summary)
    val = vc.sym_bytes("field_value", 12)
    ended_v = If(ended, True, None) if vc.mode == "sym" else (True if ended else None)
    if side == "server":
        blk = [(b":method", b"GET"), (b":scheme", b"https"), (b":authority", b"a.test"), (b":path", vc.sym_bytes("path", 12)), (b"x-f", val)]
        if shape == "malformed":
            blk = [blk[0]] + blk  # duplicate :method (the error text is then concrete; other malformed shapes are C06's)
        hdrs = vc.list([vc.lift(x) for x in blk]) if vc.mode == "sym" else blk
        ev = vc.new("h2.events:RequestReceived", stream_id=sid, headers=hdrs, stream_ended=ended_v, priority_updated=None)
        out = vc.call(M2 + ":Http2Server.handle_h2_event", layer, ev)
    else:
        blk = [(b":status", b"200"), (b"x-f", val)]
        if shape == "malformed":
            blk = [(b":status", b"200"), (b":status", b"404")]
        hdrs = vc.list([vc.lift(x) for x in blk]) if vc.mode == "sym" else blk
        ev = vc.new("h2.events:ResponseReceived", stream_id=sid, headers=hdrs, stream_ended=ended_v, priority_updated=None)
        out = vc.call(M2 + ":Http2Client.handle_h2_event", layer, ev)
    vc.ensure("no_exception", out.ok)
    if not out.ok:
        return
    pre_d = dict(pre)
    post = stream_states(vc, layer)
    E = lambda n: _cls(EV + ":" + ("Request" if side == "server" else "Response") + n)
    unexpected = side == "client" and pre_d.get(sid) is not SS.EXPECTING_HEADERS
    if unexpected or shape == "malformed":
        # a response nobody waits for, or a malformed block: connection error, nothing is forwarded as a message
        vc.ensure("rejected.connection_error_and_nothing_else", len(perrs) == 1 and len(out.trace) == 1 and is_ghost(out.trace[0], "protocol_error"))
        vc.ensure("rejected.returns_stop", vc.eq(out.result, True))
        vc.ensure("rejected.no_stream_state_created", And(all_(same_state(vc, post.get(k), pre_d[k]) for k in pre_d), len(post) == len(pre_d)))
        return
    tr = out.trace
    vc.ensure("continues", vc.eq(out.result, False))
    vc.ensure("no_connection_error", perrs == [])
    vc.ensure("exactly_one_headers_event", len(tr) == 1 and is_cmd(tr[0], "ReceiveHttp") and isa(tr[0].event, E("Headers")))
    if len(tr) != 1:
        return
    e = tr[0].event
    vc.ensure("carries_the_h2_stream_id", vc.eq(e.stream_id, sid))
    vc.ensure("end_of_stream_flag_kept", vc.eq(e.end_stream, ended))
    msg = e.request if side == "server" else e.response
    hf = msg.data.headers
    hfl = l_items(hf.fields["fields"] if isinstance(hf, SObj) else hf.fields)
    vc.ensure("fields_of_this_block", And(vc.eq(hfl[0][0], b"x-f"), vc.eq(hfl[0][1], val)) if len(hfl) == 1 else False)
    vc.ensure("state.headers_received_for_this_stream", same_state(vc, post.get(sid), SS.HEADERS_RECEIVED))
    vc.ensure("frame.other_streams_untouched", And(all_(same_state(vc, post.get(k), pre_d[k]) for k in pre_d if k != sid), len(post) == len(set(pre_d) | {sid})))


# ---------------------------------------------------------------------------------------------
# HttpLayer: routing between connections and streams

HL = HP + ":HttpLayer"
HS = HP + ":HttpStream"


class ScriptedChild:
    """stands for a child layer (HttpConnection or HttpStream): handle_event yields the scripted commands"""

    def handle_event(self, event):  # summarised
        raise NotImplementedError


def mk_layer_with_children(vc, script):
    """HttpLayer with a client connection handler, two streams (1, 3), two upstream connections; script: child name ->
    list of commands yielded on the first event it receives"""
    from mitmproxy.proxy.layers.http import HTTPMode
    client = mk_client(vc)
    s1, s2 = mk_server(vc, "srv1", address=("a.test", 443)), mk_server(vc, "srv2", address=("b.test", 443))
    ctx = mk_context(vc, client, mk_server(vc, "ctxsrv", address=None), mk_options(vc, proxy_debug=False))
    names = ["client_conn", "stream1", "stream3", "up1", "up2"]
    kids = {n: vc.new("props.C05:ScriptedChild", name=n, context=ctx, debug=None) for n in names}
    layer = vc.new(HL, context=ctx, debug=None, _paused=None, _paused_event_queue=vc.deque([]), mode=HTTPMode.regular,
                   connections=vc.dict([(client, kids["client_conn"]), (s1, kids["up1"]), (s2, kids["up2"])]),
                   streams=vc.dict([(1, kids["stream1"]), (3, kids["stream3"])]), command_sources=vc.dict([]),
                   waiting_for_establishment=mk_defaultdict(vc, []))
    log = []

    def handle(v, self_, event):
        n = conc(self_.name)
        first = not any(l[0] == n for l in log)
        log.append((n, event))
        return v.gen(script.get(n, []) if first else [])

    vc.summary("props.C05:ScriptedChild.handle_event", handle)
    return layer, kids, log, dict(client=client, s1=s1, s2=s2)


@scenario("HttpLayer.event_to_child.routing", functions=[HL + ".event_to_child", HL + "._handle_event"], asserts_are_obligations=True)
def s_routing(vc):
    what = vc.case("command", ["receive_data_known", "receive_data_unknown", "send_to_up1", "send_to_up2", "send_to_client", "drop_stream", "blocking_hook", "plain_command"])
    script = {}
    layer, kids, log, conns = mk_layer_with_children(vc, script)
    sid = {"receive_data_known": 3, "receive_data_unknown": 9}.get(what, 1)
    inner_ev = vc.new(EV + ":RequestData", stream_id=sid, data=vc.sym_bytes("d", 8))
    resp_ev = vc.new(EV + ":ResponseData", stream_id=1, data=vc.sym_bytes("r", 8))
    hook = vc.new("mitmproxy.proxy.layers.http._hooks:HttpRequestHook", flow=None, blocking=True)
    plain = vc.new("mitmproxy.proxy.commands:SendData", connection=conns["client"], data=b"x", blocking=False)
    if what.startswith("receive"):
        src, cmd = "client_conn", vc.new(HP + "._base:ReceiveHttp", event=inner_ev, blocking=False)
    elif what == "send_to_up1":
        src, cmd = "stream1", vc.new(HP + ":SendHttp", event=inner_ev, connection=conns["s1"], blocking=False)
    elif what == "send_to_up2":
        src, cmd = "stream1", vc.new(HP + ":SendHttp", event=inner_ev, connection=conns["s2"], blocking=False)
    elif what == "send_to_client":
        src, cmd = "stream3", vc.new(HP + ":SendHttp", event=resp_ev, connection=conns["client"], blocking=False)
    elif what == "drop_stream":
        src, cmd = "stream3", vc.new(HP + ":DropStream", stream_id=3, blocking=False)
    elif what == "blocking_hook":
        src, cmd = "stream3", hook
    else:
        src, cmd = "up2", plain
    script[src] = [cmd]
    start_ev = vc.new("mitmproxy.proxy.events:DataReceived", connection=conns["client"], data=b"")
    out = vc.call(HL + ".event_to_child", layer, kids[src], start_ev)
    vc.ensure("no_exception", out.ok)
    if not out.ok:
        return
    routed = [(n, e) for n, e in log[1:]]
    streams_now = {conc(k): v for k, v in d_items(vc, layer.streams)}
    if what == "receive_data_known":
        vc.ensure("receive.routed_to_stream_of_that_id_only", len(routed) == 1 and routed[0][0] == "stream3" and routed[0][1] is inner_ev)
    elif what == "receive_data_unknown":
        vc.ensure("receive.unknown_stream_dropped_silently", routed == [] and out.trace == [])
    elif what in ("send_to_up1", "send_to_up2", "send_to_client"):
        want = {"send_to_up1": "up1", "send_to_up2": "up2", "send_to_client": "client_conn"}[what]
        vc.ensure("send.routed_to_handler_of_that_connection_only", len(routed) == 1 and routed[0][0] == want and routed[0][1] is cmd.event)
    elif what == "drop_stream":
        vc.ensure("drop.only_that_stream_forgotten", sorted(streams_now) == [1] and routed == [] and out.trace == [])
    elif what == "blocking_hook":
        vc.ensure("blocking.passed_up_and_source_remembered", len(out.trace) == 1 and out.trace[0] is hook and d_lookup(vc, layer.command_sources, hook) is kids["stream3"])
    else:
        vc.ensure("plain.passed_up_unchanged", len(out.trace) == 1 and out.trace[0] is plain and len(d_items(vc, layer.command_sources)) == 0)
    if what != "drop_stream":
        vc.ensure("frame.streams_unchanged", sorted(streams_now) == [1, 3])
    vc.ensure("frame.connections_unchanged", len(d_items(vc, layer.connections)) == 3)
    if what == "blocking_hook":
        # the completion is returned to exactly the stream that issued the command
        done = vc.new("mitmproxy.proxy.events:HookCompleted", command=hook, reply=None)
        n0 = len(log)
        out2 = vc.call(HL + "._handle_event", layer, done)
        vc.ensure("completion.no_exception", out2.ok)
        vc.ensure("completion.returned_to_issuer_once", len(log) == n0 + 1 and log[-1][0] == "stream3" and log[-1][1] is done)
        vc.ensure("completion.source_forgotten", d_lookup(vc, layer.command_sources, hook) is None)


def d_lookup(vc, d, key):
    for k, v in d_items(vc, d):
        if k is key:
            return v
    return None


@scenario("HttpLayer.make_stream_on_request_headers", functions=[HL + ".event_to_child", HL + ".make_stream"], asserts_are_obligations=True)
def s_make_stream(vc):
    """request headers for a new stream id create exactly one new HttpStream for that id, start it, then deliver the headers
    to it; existing streams are not touched"""
    script = {}
    layer, kids, log, conns = mk_layer_with_children(vc, script)
    req_ev = vc.new(EV + ":RequestHeaders", stream_id=5, request=vc.new("mitmproxy.http:Request", data=None), end_stream=False, replay_flow=None)
    script["client_conn"] = [vc.new(HP + "._base:ReceiveHttp", event=req_ev, blocking=False)]
    created = []

    def new_stream(v, context, stream_id):
        c = v.new("props.C05:ScriptedChild", name=f"new{conc(stream_id)}", context=context, debug=None, stream_id=stream_id)
        created.append(c)
        return c

    vc.summary(HP + ":HttpStream", new_stream)
    out = vc.call(HL + ".event_to_child", layer, kids["client_conn"], vc.new("mitmproxy.proxy.events:DataReceived", connection=conns["client"], data=b""))
    vc.ensure("no_exception", out.ok)
    if not out.ok:
        return
    streams_now = {conc(k): v for k, v in d_items(vc, layer.streams)}
    vc.ensure("one_stream_created_for_that_id", len(created) == 1 and sorted(streams_now) == [1, 3, 5] and streams_now[5] is created[0] and vc.eq(created[0].stream_id, 5))
    vc.ensure("existing_streams_untouched", streams_now[1] is kids["stream1"] and streams_now[3] is kids["stream3"])
    routed = log[1:]
    vc.ensure("started_then_given_its_headers", len(routed) == 2 and routed[0][0] == "new5" and isa(routed[0][1], _cls("mitmproxy.proxy.events:Start")) and routed[1][0] == "new5" and routed[1][1] is req_ev)
    vc.ensure("own_context_fork", len(created) == 1 and created[0].context is not layer.context and created[0].context.client is layer.context.client)


# ---------------------------------------------------------------------------------------------
# BufferedH2Connection (_http_h2.py): per-stream send buffers on top of hyper-h2's flow control.
# The hyper-h2 base class is summarised: a ghost log of the frames handed to it and symbolic flow-control windows.

BH = "mitmproxy.proxy.layers.http._http_h2:BufferedH2Connection"
H2C = "h2.connection:H2Connection"
X, Y = 1, 3   # the stream operated on, and an unrelated concurrent stream (representative ids; used as dictionary keys only)
MAXFRAME = 16384


class H2StreamStub:
    pass


class H2StateStub:
    pass


def mk_chunk(vc, data, end):
    return vc.construct("mitmproxy.proxy.layers.http._http_h2:SendH2Data", data, end)


def mk_buffered(vc, bufs, trailers, x_open=True, max_frame=None):
    """bufs: {sid: [(data, end_stream)]}; trailers: {sid: fields}. Streams X and Y exist at the h2 level (Y open; X open or not)."""
    import collections
    import h2.stream
    items = []
    for sid, chunks in bufs.items():
        cs = [mk_chunk(vc, d, e) for d, e in chunks]
        items.append((sid, vc.deque(cs)))
    if vc.mode == "sym":
        from pyvc.libx_http2 import SDefaultDict, fresh_deque
        sb = SDefaultDict(SConst(fresh_deque), [(lift(k), v) for k, v in items])
    else:
        sb = collections.defaultdict(collections.deque, items)
    SS = h2.stream.StreamState
    streams = vc.dict([(sid, vc.new("props.C05:H2StreamStub", state_machine=vc.new("props.C05:H2StateStub", state=st)))
                       for sid, st in ((X, SS.OPEN if x_open else SS.CLOSED), (Y, SS.OPEN))])
    return vc.new(BH, stream_buffers=sb, stream_trailers=vc.dict(list(trailers.items())), max_outbound_frame_size=max_frame or MAXFRAME, streams=streams,
                  outbound_flow_control_window=1)


def install_h2_base(vc, win):
    """Trusted hyper-h2 contract: local_flow_control_window(s) = credit currently available for s; send_data(s, d, end) hands a
    DATA frame to the wire and consumes len(d) credit (it raises if len(d) exceeds the credit - recorded as `overdraft`);
    send_headers / reset_stream hand a HEADERS / RST_STREAM frame to the wire. Frames are logged in order."""
    log, overdraft = [], []

    def window(v, self_, sid):
        return win[conc(sid)]

    def send_data(v, self_, sid, data, end_stream=False, pad_length=None):
        k = conc(sid)
        n = len_(data)
        if v.branch(n > win[k]) if v.mode == "sym" else n > win[k]:
            overdraft.append((k, data))
        win[k] = win[k] - n
        log.append(("data", k, data, end_stream))
        return None

    def send_headers(v, self_, sid, headers, end_stream=False, **kw):
        log.append(("headers", conc(sid), headers, end_stream))
        return None

    def reset(v, self_, sid, error_code=0):
        log.append(("reset", conc(sid), error_code, None))
        return None

    vc.summary(H2C + ".local_flow_control_window", window)
    vc.summary(H2C + ".send_data", send_data)
    vc.summary(H2C + ".send_headers", send_headers)
    vc.summary(H2C + ".reset_stream", reset)
    return log, overdraft


def buf_chunks(vc, conn, sid):
    """[(data, end_stream)] currently buffered for sid (absent and empty are the same thing)"""
    d = conn.stream_buffers
    for k, v in d_items(vc, d):
        if conc(k) == sid:
            its = list(v.fields["_items"].items) if isinstance(v, SObj) else list(v)
            return [(c.data, c.end_stream) if not isinstance(c, SObj) else (c.fields["data"], c.fields["end_stream"]) for c in its]
    return []


def trailers_of(vc, conn, sid):
    for k, v in d_items(vc, conn.stream_trailers):
        if conc(k) == sid:
            return v
    return None


def cat(parts):
    r = b""
    for p_ in parts:
        r = r + p_
    return r


def other_stream_untouched(vc, tag, conn, log, y_chunks, y_trailers):
    now = buf_chunks(vc, conn, Y)
    vc.ensure(tag + ".other_stream_buffer_untouched", all_(And(vc.eq(a[0], b_[0]), vc.eq(a[1], b_[1])) for a, b_ in zip(now, y_chunks)) if len(now) == len(y_chunks) else False)
    vc.ensure(tag + ".other_stream_trailers_untouched", trailers_of(vc, conn, Y) is y_trailers)
    vc.ensure(tag + ".no_frame_for_other_stream", all(e[1] == X for e in log))


def y_state(vc):
    """the unrelated stream Y: nothing, or flow-control-blocked data, optionally with queued trailers"""
    y = vc.case("other_stream", ["idle", "blocked", "blocked_with_trailers"])
    y_chunks = [] if y == "idle" else [(vc.sym_bytes("y_data", MAXFRAME), True if y == "blocked" else False)]
    y_tr = vc.list([vc.lift((b"y-trailer", b"y"))]) if y == "blocked_with_trailers" else None
    return y_chunks, y_tr


@scenario("BufferedH2Connection.send_data", functions=[BH + ".send_data"], asserts_are_obligations=True)
def s_buf_send_data(vc):
    y_chunks, y_tr = y_state(vc)
    pre_x = vc.case("own_buffer", [0, 1])
    x_chunks = [(vc.sym_bytes("x_buffered", MAXFRAME), False)] if pre_x else []
    if pre_x:
        vc.assume(len_(x_chunks[0][0]) > 0)
    data = vc.sym_bytes("data", MAXFRAME)
    end = vc.sym_bool("end_stream")
    wx = vc.sym_int("window_x", lo=0)
    win = {X: wx, Y: vc.sym_int("window_y", lo=0)}
    bufs = {}
    if x_chunks:
        bufs[X] = x_chunks
    if y_chunks:
        bufs[Y] = y_chunks
    conn = mk_buffered(vc, bufs, {Y: y_tr} if y_tr is not None else {})
    log, overdraft = install_h2_base(vc, win)
    out = vc.call(BH + ".send_data", conn, X, data, end)
    vc.ensure("no_exception", out.ok)
    if not out.ok:
        return
    vc.ensure("never_beyond_the_window", overdraft == [])
    other_stream_untouched(vc, "isolation", conn, log, y_chunks, y_tr)
    now = buf_chunks(vc, conn, X)
    sent = [e for e in log if e[0] == "data"]
    vc.ensure("only_data_frames", len(sent) == len(log))
    # nothing lost, nothing reordered: what went to the wire followed by what is buffered is the old buffer followed by the new data
    vc.ensure("conservation_in_order", vc.eq(cat([e[2] for e in sent] + [c[0] for c in now]), cat([c[0] for c in x_chunks] + [data])))
    if pre_x:
        vc.ensure("behind_buffered_data.queued_at_the_end", len(sent) == 0 and len(now) == 2)
        if len(now) == 2:
            vc.ensure("behind_buffered_data.end_flag_kept", vc.eq(now[1][1], end))
    elif vc.branch(len_(data) <= wx):
        vc.ensure("fits.sent_now_with_end_flag", And(vc.eq(sent[0][3], end), vc.eq(sent[0][2], data)) if len(sent) == 1 and len(now) == 0 else False)
    else:
        vc.ensure("blocked.rest_buffered_with_end_flag", vc.eq(now[0][1], end) if len(now) == 1 else False)
        vc.ensure("blocked.sent_part_does_not_end_the_stream", all_(vc.eq(e[3], False) for e in sent) if len(sent) <= 1 else False)
        vc.ensure("blocked.window_used_up", Iff(wx > 0, len(sent) == 1) if vc.mode == "sym" else ((wx > 0) == (len(sent) == 1)))


SMALLFRAME = 4


@scenario("BufferedH2Connection.send_data.split_over_frames", functions=[BH + ".send_data"], asserts_are_obligations=True)
def s_buf_send_data_split(vc):
    """a write larger than the peer's maximum frame size (here 4; the code only compares and slices with it) is cut into frames:
    nothing lost or reordered, no piece larger than a frame, the caller's END_STREAM flag on exactly the last piece - whether
    that piece goes to the wire or has to wait for credit"""
    y_chunks, y_tr = y_state(vc)
    L = vc.case("data_length", list(range(SMALLFRAME + 1, 3 * SMALLFRAME + 1)))
    pre_x = vc.case("own_buffer", [0, 1])
    x_chunks = [(vc.sym_bytes("x_buffered", SMALLFRAME), False)] if pre_x else []
    if pre_x:
        vc.assume(len_(x_chunks[0][0]) > 0)
    data = vc.sym_bytes("data", 3 * SMALLFRAME)
    vc.assume(len_(data) == L)
    end = vc.sym_bool("end_stream")
    wx = vc.sym_int("window_x", lo=0)
    win = {X: wx, Y: vc.sym_int("window_y", lo=0)}
    bufs = {}
    if x_chunks:
        bufs[X] = x_chunks
    if y_chunks:
        bufs[Y] = y_chunks
    conn = mk_buffered(vc, bufs, {Y: y_tr} if y_tr is not None else {}, max_frame=SMALLFRAME)
    log, overdraft = install_h2_base(vc, win)
    out = vc.call(BH + ".send_data", conn, X, data, end)
    vc.ensure("no_exception", out.ok)
    if not out.ok:
        return
    vc.ensure("never_beyond_the_window", overdraft == [])
    other_stream_untouched(vc, "isolation", conn, log, y_chunks, y_tr)
    now = buf_chunks(vc, conn, X)
    sent = [e for e in log if e[0] == "data"]
    vc.ensure("only_data_frames", len(sent) == len(log))
    vc.ensure("conservation_in_order", vc.eq(cat([e[2] for e in sent] + [c[0] for c in now]), cat([c[0] for c in x_chunks] + [data])))
    new_buffered = now[len(x_chunks):]
    vc.ensure("old_buffer_stays_in_front", And(vc.eq(now[0][0], x_chunks[0][0]), vc.eq(now[0][1], False)) if pre_x and now else (not pre_x))
    pieces = [(e[2], e[3]) for e in sent] + list(new_buffered)
    vc.ensure("every_piece_fits_a_frame", all_(len_(p_[0]) <= SMALLFRAME for p_ in pieces))
    vc.ensure("at_least_two_pieces", len(pieces) >= 2)
    if pieces:
        vc.ensure("end_flag.on_the_last_piece_iff_requested", vc.eq(pieces[-1][1], end))
        vc.ensure("end_flag.on_no_earlier_piece", all_(vc.eq(p_[1], False) for p_ in pieces[:-1]))
    if pre_x:
        vc.ensure("behind_buffered_data.nothing_sent", sent == [])
    else:
        # progress: whatever the credit allows goes out now
        want = If(wx < L, wx, L)
        vc.ensure("progress.as_much_as_the_window_allows", len_(cat([e[2] for e in sent])) == want)


@scenario("BufferedH2Connection.send_trailers_end_reset", functions=[BH + ".send_trailers", BH + ".end_stream", BH + ".reset_stream", BH + ".send_data"], asserts_are_obligations=True)
def s_buf_trailers(vc):
    op = vc.case("operation", ["send_trailers", "end_stream", "end_stream_with_trailers_queued", "reset_stream"])
    y_chunks, y_tr = y_state(vc)
    pre_x = vc.case("own_buffer", [0, 1])
    x_chunks = [(vc.sym_bytes("x_buffered", MAXFRAME), False)] if pre_x else []
    if pre_x:
        vc.assume(len_(x_chunks[0][0]) > 0)
    if op == "end_stream_with_trailers_queued" and not pre_x:
        return  # trailers are only ever queued behind buffered data
    win = {X: vc.sym_int("window_x", lo=0), Y: vc.sym_int("window_y", lo=0)}
    bufs = {}
    if x_chunks:
        bufs[X] = x_chunks
    if y_chunks:
        bufs[Y] = y_chunks
    tr = vc.list([vc.lift((b"x-trailer", vc.sym_bytes("tv", 8)))])
    x_tr_pre = tr if op == "end_stream_with_trailers_queued" else None
    trs = {}
    if x_tr_pre is not None:
        trs[X] = x_tr_pre
    if y_tr is not None:
        trs[Y] = y_tr
    conn = mk_buffered(vc, bufs, trs)
    log, overdraft = install_h2_base(vc, win)
    if op == "send_trailers":
        out = vc.call(BH + ".send_trailers", conn, X, tr)
    elif op == "reset_stream":
        out = vc.call(BH + ".reset_stream", conn, X, 8)
    else:
        out = vc.call(BH + ".end_stream", conn, X)
    vc.ensure("no_exception", out.ok)
    if not out.ok:
        return
    other_stream_untouched(vc, "isolation", conn, log, y_chunks, y_tr)
    now = buf_chunks(vc, conn, X)
    if op == "send_trailers":
        if pre_x:
            # strictly after the data that is still waiting for credit
            vc.ensure("trailers.queued_behind_own_buffered_data", log == [] and trailers_of(vc, conn, X) is tr and len(now) == 1)
        else:
            # nothing of this stream is waiting: the trailers go out now and end the stream - whatever other streams have buffered
            vc.ensure("trailers.sent_now_and_end_the_stream", len(log) == 1 and log[0][0] == "headers" and log[0][2] is tr and vc.eq(log[0][3], True) is not False)
            if len(log) == 1:
                vc.ensure("trailers.end_stream_flag", vc.eq(log[0][3], True))
            vc.ensure("trailers.not_parked", trailers_of(vc, conn, X) is None)
    elif op == "end_stream":
        if pre_x:
            vc.ensure("end.queued_behind_own_buffered_data", And(len_(now[1][0]) == 0, vc.eq(now[1][1], True)) if (log == [] and len(now) == 2) else False)
        else:
            vc.ensure("end.sent_now", And(len_(log[0][2]) == 0, vc.eq(log[0][3], True)) if (len(log) == 1 and log[0][0] == "data" and now == []) else False)
    elif op == "end_stream_with_trailers_queued":
        vc.ensure("end.left_to_the_queued_trailers", log == [] and len(now) == 1 and trailers_of(vc, conn, X) is tr)
    else:
        vc.ensure("reset.own_buffer_dropped_and_stream_reset", now == [] and len(log) == 1 and log[0][0] == "reset")


@scenario("BufferedH2Connection.stream_window_updated", functions=[BH + ".stream_window_updated"], asserts_are_obligations=True)
def s_buf_window(vc):
    y_chunks, y_tr = y_state(vc)
    n = vc.case("own_chunks", [1, 2])
    with_tr = vc.case("own_trailers_queued", [False, True])
    x_open = vc.case("own_stream_open", [True, False])
    d = [vc.sym_bytes(f"x{i}", MAXFRAME) for i in range(n)]
    for x in d:
        vc.assume(len_(x) > 0)
    last_end = vc.sym_bool("last_chunk_ends") if not with_tr else False
    x_chunks = [(d[i], (last_end if i == n - 1 else False)) for i in range(n)]
    wx0 = vc.sym_int("window_x", lo=0)
    win = {X: wx0, Y: vc.sym_int("window_y", lo=0)}
    tr = vc.list([vc.lift((b"x-trailer", b"t"))])
    bufs = {X: x_chunks}
    if y_chunks:
        bufs[Y] = y_chunks
    trs = {}
    if with_tr:
        trs[X] = tr
    if y_tr is not None:
        trs[Y] = y_tr
    conn = mk_buffered(vc, bufs, trs, x_open=x_open)
    log, overdraft = install_h2_base(vc, win)
    out = vc.call(BH + ".stream_window_updated", conn, X)
    vc.ensure("no_exception", out.ok)
    if not out.ok:
        return
    other_stream_untouched(vc, "isolation", conn, log, y_chunks, y_tr)
    now = buf_chunks(vc, conn, X)
    if not x_open:
        vc.ensure("closed_stream.buffer_dropped_nothing_sent", now == [] and log == [] and vc.eq(out.result, False) is not False)
        return
    vc.ensure("never_beyond_the_window", overdraft == [])
    sent = [e for e in log if e[0] == "data"]
    total = cat(d)
    sent_bytes = cat([e[2] for e in sent])
    vc.ensure("conservation_in_order", vc.eq(sent_bytes + cat([c[0] for c in now]), total))
    # progress: everything the window allows is handed over now (independent of the other stream)
    want_len = If(wx0 < len_(total), wx0, len_(total))
    vc.ensure("progress.as_much_as_the_window_allows", len_(sent_bytes) == want_len)
    vc.ensure("result_says_whether_data_was_sent", Iff(tr_b(vc, out.result), len(sent) > 0))
    drained = len(now) == 0
    hdr = [e for e in log if e[0] == "headers"]
    ends = [e for e in sent if conc_b(e[3]) is not False]
    if drained:
        if with_tr:
            vc.ensure("drained.trailers_after_all_data_end_the_stream", len(hdr) == 1 and log[-1] is hdr[0] and hdr[0][2] is tr and trailers_of(vc, conn, X) is None)
            vc.ensure("drained.data_frames_do_not_end_the_stream", all_(vc.eq(e[3], False) for e in sent))
        else:
            vc.ensure("drained.no_headers_frame", hdr == [])
            vc.ensure("drained.end_flag_on_last_frame_only", And(all_(vc.eq(e[3], False) for e in sent[:-1]), vc.eq(sent[-1][3], last_end)) if sent else False)
    else:
        vc.ensure("partial.stream_not_ended_and_trailers_kept", And(all_(vc.eq(e[3], False) for e in sent), hdr == [], (trailers_of(vc, conn, X) is tr) if with_tr else True))
        vc.ensure("partial.end_flag_stays_with_the_rest", vc.eq(now[-1][1], last_end))


def tr_b(vc, x):
    return truth(x) if vc.mode == "sym" else bool(x)


def conc_b(x):
    c = x.concrete() if hasattr(x, "concrete") else x
    return c


@scenario("BufferedH2Connection.receive_data", functions=[BH + ".receive_data"], asserts_are_obligations=True)
def s_buf_receive(vc):
    """dispatch of what hyper-h2 reports: a stream WINDOW_UPDATE flushes that stream only, a connection-level one (or a changed
    INITIAL_WINDOW_SIZE) every stream; RST_STREAM drops that stream's buffer only; other events are passed on in order"""
    import h2.settings
    kind = vc.case("h2_reports", ["window_update_stream", "window_update_connection", "stream_reset", "settings_window", "settings_other", "connection_terminated", "data"])
    y_chunks = [(vc.sym_bytes("y_data", 64), True)]
    x_chunks = [(vc.sym_bytes("x_data", 64), False)]
    conn = mk_buffered(vc, {X: x_chunks, Y: y_chunks}, {})
    other = vc.new("h2.events:PingReceived", ping_data=b"12345678")
    if kind == "window_update_stream":
        ev = vc.new("h2.events:WindowUpdated", stream_id=X, delta=10)
    elif kind == "window_update_connection":
        ev = vc.new("h2.events:WindowUpdated", stream_id=0, delta=10)
    elif kind == "stream_reset":
        ev = vc.new("h2.events:StreamReset", stream_id=X, error_code=8, remote_reset=True)
    elif kind == "settings_window":
        ev = vc.new("h2.events:RemoteSettingsChanged", changed_settings=vc.dict([(h2.settings.SettingCodes.INITIAL_WINDOW_SIZE, "changed")]))
    elif kind == "settings_other":
        ev = vc.new("h2.events:RemoteSettingsChanged", changed_settings=vc.dict([(h2.settings.SettingCodes.MAX_CONCURRENT_STREAMS, "changed")]))
    elif kind == "connection_terminated":
        ev = vc.new("h2.events:ConnectionTerminated", error_code=0, last_stream_id=0, additional_data=None)
    else:
        ev = vc.new("h2.events:DataReceived", stream_id=X, data=b"d", flow_controlled_length=1, stream_ended=None)
    flushed = []

    def base_receive(v, self_, data):
        return v.list([other, ev]) if v.mode == "sym" else [other, ev]

    def swu(v, self_, sid):
        flushed.append(("stream", conc(sid)))
        return False

    def cwu(v, self_):
        flushed.append(("connection",))
        return None

    vc.summary(H2C + ".receive_data", base_receive)
    vc.summary(BH + ".stream_window_updated", swu)
    vc.summary(BH + ".connection_window_updated", cwu)
    out = vc.call(BH + ".receive_data", conn, vc.sym_bytes("wire", 16))
    vc.ensure("no_exception", out.ok)
    if not out.ok:
        return
    res = l_items(out.result)
    bx, by = buf_chunks(vc, conn, X), buf_chunks(vc, conn, Y)
    if kind.startswith("window_update"):
        vc.ensure("window_update.consumed_others_passed_on", len(res) == 1 and res[0] is other)
        vc.ensure("window_update.flushes_exactly_the_credited_scope", flushed == ([("stream", X)] if kind == "window_update_stream" else [("connection",)]))
        vc.ensure("buffers_untouched_here", len(bx) == 1 and len(by) == 1)
    else:
        vc.ensure("passed_on_in_order", len(res) == 2 and res[0] is other and res[1] is ev)
        if kind == "stream_reset":
            vc.ensure("reset.only_that_streams_buffer_dropped", bx == [] and len(by) == 1 and flushed == [])
        elif kind == "settings_window":
            vc.ensure("initial_window_change.flushes_all_streams", flushed == [("connection",)] and len(bx) == 1 and len(by) == 1)
        elif kind == "connection_terminated":
            vc.ensure("terminated.all_buffers_dropped", bx == [] and by == [] and flushed == [])
        else:
            vc.ensure("unrelated.nothing_flushed_or_dropped", flushed == [] and len(bx) == 1 and len(by) == 1)


# ---------------------------------------------------------------------------------------------
# HttpStream.handle_protocol_error: a stream that dies removes itself (and nothing else) from the HttpLayer

@scenario("HttpStream.handle_protocol_error", functions=[HS + ".handle_protocol_error", HS + ".check_killed"], asserts_are_obligations=True)
def s_protocol_error(vc):
    """SendHttp hands the *same event object* to the connection layer, and Http2Client/Http3Client rewrite its stream_id in
    place to the upstream id (modelled in on_yield). Whatever they do to the event: the stream dropped at the end is this
    HttpStream's own id, exactly once, as the last command."""
    from mitmproxy.proxy.layers.http._events import ErrorCode
    side = vc.case("error_from", ["client", "server"])
    cstate = vc.case("client_state", ["state_stream_request_body", "state_done", "state_consume_request_body", "state_errored"])
    sstate = vc.case("server_state", ["state_wait_for_response_headers", "state_consume_response_body", "state_done", "state_errored", "state_uninitialized"])
    killed = vc.case("flow_killed_by_addon", [False, True])
    MY_ID, UPSTREAM_ID = 7, 3   # 3 is also the client id of another, healthy stream
    client, server = mk_client(vc), mk_server(vc)
    ctx = mk_context(vc, client, server, mk_options(vc, proxy_debug=False))
    flow_ = vc.new("mitmproxy.http:HTTPFlow", client_conn=client, server_conn=server, request=None, response=None, error=None, live=True, websocket=None,
                   id="flow-id", intercepted=False, marked="", is_replay=None, metadata=vc.dict([]), comment="", timestamp_created=1.0, _backup=None)
    stream = vc.new(HS, context=ctx, debug=None, _paused=None, _paused_event_queue=vc.deque([]), flow=flow_, stream_id=MY_ID, child_layer=None)
    stream.client_state = vc.bound(stream, HS + "." + cstate)
    stream.server_state = vc.bound(stream, HS + "." + sstate)
    msg = vc.sym_str("message")
    vc.assume(len_(msg) > 0)
    from mitmproxy import flow as _flow0
    vc.assume(msg != _flow0.Error.KILLED_MESSAGE)   # the text mitmproxy reserves for flows killed by an addon (that path: flow_killed_by_addon)
    ev = vc.new(EV + (":RequestProtocolError" if side == "client" else ":ResponseProtocolError"), stream_id=MY_ID, message=msg,
                code=ErrorCode.CANCEL if side == "client" else ErrorCode.GENERIC_SERVER_ERROR)
    sends, hooks = [], []

    def on_yield(cmd):
        if is_cmd(cmd, "SendHttp"):
            sends.append((cmd.event, cmd.connection, conc(cmd.event.stream_id)))
            if cmd.connection is server:
                cmd.event.stream_id = UPSTREAM_ID       # Http2Client._handle_event: event.stream_id = ours
        elif is_cmd(cmd, "HttpErrorHook"):
            hooks.append(cmd)
            if killed:
                from mitmproxy import flow as _flow
                cmd.flow.error = vc.new("mitmproxy.flow:Error", msg=_flow.Error.KILLED_MESSAGE, timestamp=1.0)

    out = vc.call(HS + ".handle_protocol_error", stream, ev, on_yield=on_yield)
    vc.ensure("no_exception", out.ok)
    if not out.ok:
        return
    tr = out.trace
    upstream_contact = side == "client" and cstate in ("state_stream_request_body", "state_done") and sstate not in ("state_done", "state_errored")
    need_hook = not (cstate == "state_errored" or sstate in ("state_done", "state_errored"))
    to_server = [x for x in sends if x[1] is server]
    to_client = [x for x in sends if x[1] is client]
    # a client error is passed on upstream exactly when the request was (being) sent there and the exchange is not over
    vc.ensure("client_error.forwarded_upstream_iff_request_was_sent", len(to_server) == (1 if upstream_contact else 0) and all(x[0] is ev and x[2] == MY_ID for x in to_server))
    vc.ensure("error_hook.at_most_once_iff_exchange_unfinished", len(hooks) == (1 if need_hook else 0) and all(h.flow is flow_ for h in hooks))
    drops = [c for c in tr if is_cmd(c, "DropStream")]
    if killed and need_hook:
        # killed inside the error hook: the kill path answers the client and ends the flow (C11); no second teardown
        vc.ensure("killed.client_told_once", len(to_client) == 1 and vc.eq(flow_.live, False) is not False)
        vc.ensure("killed.at_most_own_stream_dropped", all_(vc.eq(d.stream_id, MY_ID) for d in drops))
        return
    vc.ensure("drop.exactly_once_and_last", len(drops) == 1 and tr[-1] is drops[0])
    if len(drops) == 1:
        vc.ensure("drop.is_this_stream_whatever_happened_to_the_event_object", vc.eq(drops[0].stream_id, MY_ID))
    if side == "server":
        vc.ensure("server_error.reaches_the_client_unless_it_already_failed", len(to_client) == (0 if cstate == "state_errored" else 1) and all(x[0] is ev for x in to_client))
    else:
        vc.ensure("client_error.not_echoed_to_the_client", to_client == [])
    vc.ensure("flow_is_over", vc.eq(flow_.live, False))
    vc.ensure("own_id_unchanged", vc.eq(stream.stream_id, MY_ID))


# ---------------------------------------------------------------------------------------------
# death of the upstream connection: every client stream that depends on it is told

@scenario("Http2Client.upstream_connection_closed", functions=[M2 + ":Http2Client._handle_event", M2 + ":Http2Client._handle_event2", M2 + ":Http2Connection._handle_event", M2 + ":Http2Connection.close_connection"],
          asserts_are_obligations=True)
def s_h2c_closed(vc):
    from mitmproxy.proxy.layers.http._http2 import StreamState as SS
    nq = vc.case("waiting_streams", [0, 1, 2])
    q_evs = {21: [mk_http_event(vc, "RequestHeaders", 21), mk_http_event(vc, "RequestEndOfMessage", 21)], 17: [mk_http_event(vc, "RequestHeaders", 17)]}
    queued = [(sid, q_evs[sid]) for sid in [21, 17][:nq]]
    layer, stub = mk_h2client(vc, queued, None, 2, 2)
    layer.streams = vc.dict([(1, SS.EXPECTING_HEADERS), (3, SS.HEADERS_RECEIVED)])
    ev = vc.new("mitmproxy.proxy.events:ConnectionClosed", connection=layer.conn)
    out = vc.call(M2 + ":Http2Client._handle_event", layer, ev)
    vc.ensure("no_exception", out.ok)
    if not out.ok:
        return
    tr = out.trace
    errs = [c for c in tr if is_cmd(c, "ReceiveHttp")]
    told = [conc(c.event.stream_id) for c in errs]
    vc.ensure("connection_closed_towards_the_server", any(is_cmd(c, "CloseConnection") and c.connection is layer.conn for c in tr))
    vc.ensure("only_error_reports", all(isa(c.event, _cls(EV + ":ResponseProtocolError")) for c in errs))
    vc.ensure("open_streams_told_once_under_their_client_ids", sorted(t for t in told if t in (5, 9)) == [5, 9])
    vc.ensure("nobody_else_told", all(t in (5, 9, 21, 17) for t in told))
    # "none is lost": a request still waiting for upstream capacity depends on this connection too
    waiting = [sid for sid, _ in queued]
    vc.ensure("waiting_streams_told_once_too", all(told.count(sid) == 1 for sid in waiting))   # was KF-C05-1, repaired in dcf87b3d2
    h = (layer.fields if vc.mode == "sym" else layer.__dict__).get("_handle_event")
    vc.ensure("connection_done", h is not None)


# ---------------------------------------------------------------------------------------------
# HttpStream.check_body_size: an oversized message aborts this exchange on its own streams only

@scenario("HttpStream.check_body_size", functions=[HS + ".check_body_size"], asserts_are_obligations=True)
def s_check_body_size(vc):
    """The upstream connection may be shared by many streams (HTTP/2|3): exceeding body_size_limit cancels this stream's own
    upstream stream (RequestProtocolError for self.stream_id towards the server) and tells this stream's client side; the
    connection itself is never closed from here."""
    from mitmproxy.proxy.layers.http._events import ErrorCode
    is_request = vc.case("message", ["request", "response"]) == "request"
    late = vc.case("noticed", ["from_headers", "while_buffering"]) == "while_buffering"
    MY_ID = 7
    client, server = mk_client(vc), mk_server(vc)
    other_server = mk_server(vc, "flowsrv")
    ctx = mk_context(vc, client, server, mk_options(vc, proxy_debug=False, stream_large_bodies=None, body_size_limit="limit"))
    flow_ = vc.new("mitmproxy.http:HTTPFlow", client_conn=client, server_conn=server, request=vc.new("mitmproxy.http:Request", data=None),
                   response=None if is_request else vc.new("mitmproxy.http:Response", data=None), error=None, live=True, websocket=None,
                   id="flow-id", intercepted=False, marked="", is_replay=None, metadata=vc.dict([]), comment="", timestamp_created=1.0, _backup=None)
    buffered = vc.sym_bytes("buffered_body", 64)
    if late:
        vc.assume(len_(buffered) > 0)
    empty = b"" if vc.mode == "sym" else bytearray()
    mine = buffered if vc.mode == "sym" else bytearray(buffered)
    stream = vc.new(HS, context=ctx, debug=None, _paused=None, _paused_event_queue=vc.deque([]), flow=flow_, stream_id=MY_ID, child_layer=None,
                    request_body_buf=(mine if (late and is_request) else empty), response_body_buf=(mine if (late and not is_request) else empty))
    stream.client_state = vc.bound(stream, HS + ".state_consume_request_body")
    stream.server_state = vc.bound(stream, HS + ".state_wait_for_response_headers")
    announced = vc.opt("announced_size", vc.sym_int("announced_size_v", lo=-1))
    limit = vc.sym_int("limit", lo=0)

    def expected_size(v, request, response=None):
        return announced

    def parse_size(v, text):
        if v.mode == "sym":
            return limit if (not isnone(text) and lift(text).concrete() == "limit") else v.lift(None)
        return limit if text == "limit" else None

    vc.summary("mitmproxy.proxy.layers.http:expected_http_body_size", expected_size)      # the name the native run looks up
    vc.summary("mitmproxy.net.http.http1.read:expected_http_body_size", expected_size)   # the defining module (symbolic dispatch)
    vc.summary("mitmproxy.utils.human:parse_size", parse_size)
    out = vc.call(HS + ".check_body_size", stream, is_request)
    vc.ensure("no_exception", out.ok)
    if not out.ok:
        return
    tr = out.trace
    vc.ensure("never_closes_a_connection", not any(is_cmd(c, "CloseConnection") or is_cmd(c, "CloseTcpConnection") for c in tr))
    if late:
        size = len_(buffered)
        known = True
    else:
        known = Not(isnone(announced)) if vc.mode == "sym" else announced is not None
        size = (announced.alts[1][1] if vc.mode == "sym" else announced)
    over = vc.branch(And(known, size > limit)) if vc.mode == "sym" else (known and size > limit)
    if not over:
        vc.ensure("within_limit.nothing_happens", len(tr) == 0 and vc.eq(out.result, False) is not False)
        vc.ensure("within_limit.result_false", vc.eq(out.result, False))
        return
    vc.ensure("over.stops_processing", vc.eq(out.result, True))
    sends = [c for c in tr if is_cmd(c, "SendHttp")]
    to_client = [c for c in sends if c.connection is client]
    to_server = [c for c in sends if c.connection is server]
    vc.ensure("over.client_side_of_this_stream_told_once", And(isa(to_client[0].event, _cls(EV + ":ResponseProtocolError")), vc.eq(to_client[0].event.stream_id, MY_ID),
                                                                vc.eq(to_client[0].event.code, ErrorCode.REQUEST_TOO_LARGE if is_request else ErrorCode.RESPONSE_TOO_LARGE)) if len(to_client) == 1 else False)
    if is_request:
        vc.ensure("over.request.nothing_sent_upstream", to_server == [])
    else:
        vc.ensure("over.response.own_upstream_stream_cancelled_once", And(isa(to_server[0].event, _cls(EV + ":RequestProtocolError")), vc.eq(to_server[0].event.stream_id, MY_ID)) if len(to_server) == 1 else False)
    vc.ensure("over.only_hooks_and_those_sends", all(is_cmd(c, "SendHttp") or is_cmd(c, "HttpErrorHook") or is_cmd(c, "HttpRequestHeadersHook") or is_cmd(c, "HttpResponseHeadersHook") for c in tr)
              and len(sends) == len(to_client) + len(to_server) and sum(1 for c in tr if is_cmd(c, "HttpErrorHook")) == 1)
    vc.ensure("over.flow_is_over_with_error", And(vc.eq(flow_.live, False), not isnone(flow_.error)))


# =============================================================================================
# T2 (bounded)

CLIENT_SEQS = {
    "HE": [("H", True)],
    "H.De": [("H", False), ("D", True)],
    "H.D.E": [("H", False), ("D", False), ("E",)],
    "H.D.D.T": [("H", False), ("D", False), ("D", False), ("T",)],
    "H.R": [("H", False), ("R",)],
    "H.D.R": [("H", False), ("D", False), ("R",)],
    # cancel after the request is complete (it has been, or is about to be, forwarded upstream)
    "HE.R": [("H", True), ("R",)],
    "H.De.R": [("H", False), ("D", True), ("R",)],
}
SERVER_SHAPES = ["He", "H.De", "H.D.T", "R"]


def interleavings(seqs):
    """all merges of the given sequences (lists) that keep each sequence's own order; items are (seq index, item)"""
    if all(not s for s in seqs):
        yield []
        return
    for i, s in enumerate(seqs):
        if s:
            rest = [list(x) for x in seqs]
            head = rest[i].pop(0)
            for tail in interleavings(rest):
                yield [(i, head)] + tail


class H2World:
    """client peer (plain hyper-h2) -- real HttpLayer -- server peer (plain hyper-h2), one upstream connection"""

    def __init__(self, max_streams=None, **options):
        import h2.settings
        from mitmproxy.proxy import mode_specs
        from mitmproxy.proxy.layers import http as H, tls
        from props import sansio
        from props.h2peer import DeferDriver, H2Peer, PassTLS

        class TLS(PassTLS):
            alpn_for = staticmethod(lambda conn: b"h2")

        self._tls, self._orig = tls, tls.ServerTLSLayer
        tls.ServerTLSLayer = TLS
        self.H2Peer = H2Peer
        opts = sansio.make_options(connection_strategy="lazy", **options)
        self.client = sansio.make_client()
        self.client.alpn, self.client.tls = b"h2", True
        self.client.proxy_mode = mode_specs.ProxyMode.parse("regular")
        self.ctx = sansio.context_for(opts, self.client)
        self.top = H.HttpLayer(self.ctx, H.HTTPMode.regular)
        self.flows = []

        def hook(h):
            if h.name == "requestheaders" and h.flow not in self.flows:
                self.flows.append(h.flow)

        self.drv = DeferDriver(self.top, hook_policy=hook)
        self.drv.start()
        self.cp = H2Peer(self.drv, self.client, client_side=True)
        self.cp.start()
        self.sp = None
        self.max_streams = max_streams
        self.sid_of = {}        # request tag k -> client stream id
        self.next_sid = 1
        self.pending_client = b""
        self.server_seen = []   # upstream stream ids in order of RequestReceived
        self.server_events = []
        self.max_open_seen = 0
        self.limit_now = None   # limit in force at the server peer once its SETTINGS were acknowledged

    def close(self):
        self._tls.ServerTLSLayer = self._orig

    # ---- client
    def client_action(self, k, act):
        h2c = self.cp.h2
        if act[0] == "H":
            sid = self.next_sid
            self.next_sid += 2
            self.sid_of[k] = sid
            h2c.send_headers(sid, [(b":method", b"POST"), (b":scheme", b"https"), (b":authority", b"a.test"), (b":path", f"/s{k}".encode()),
                                   (b"x-id", str(k).encode())], end_stream=act[1])
        elif act[0] == "D":
            n = sum(1 for _ in range(1))
            h2c.send_data(self.sid_of[k], f"[body-{k}]".encode(), end_stream=act[1])
        elif act[0] == "E":
            h2c.send_data(self.sid_of[k], b"", end_stream=True)
        elif act[0] == "T":
            h2c.send_headers(self.sid_of[k], [(b"x-trailer", str(k).encode())], end_stream=True)
        elif act[0] == "R":
            h2c.reset_stream(self.sid_of[k], 8)
        self.pending_client += h2c.data_to_send()

    def deliver_client(self, cuts=()):
        from mitmproxy.connection import ConnectionState
        data, self.pending_client = self.pending_client, b""
        if not data:
            return
        pts = sorted({c % len(data) for c in cuts if len(data) > 1} - {0})
        segs, last = [], 0
        for p_ in pts:
            segs.append(data[last:p_])
            last = p_
        segs.append(data[last:])
        for s in segs:
            if s and (self.client.state & ConnectionState.CAN_READ):
                self.drv.data(self.client, s)
        self.pump_server()

    # ---- server
    def pump_server(self):
        import h2.events
        import h2.settings
        if self.sp is None:
            ups = [c for c, d in self.drv.sent_chunks if c is not self.client]
            if not ups:
                return []
            conn = ups[0]
            settings = {h2.settings.SettingCodes.MAX_CONCURRENT_STREAMS: self.max_streams} if self.max_streams else None
            self.sp = self.H2Peer(self.drv, conn, client_side=False, settings=settings)
            self.sp.cursor = [i for i, (c, d) in enumerate(self.drv.sent_chunks) if c is conn][0]
            self.sp.start()
        new = self.sp.pump()
        for ev in new:
            if isinstance(ev, h2.events.RequestReceived):
                self.server_seen.append(ev.stream_id)
                self.max_open_seen = max(self.max_open_seen, self.sp.h2.open_inbound_streams)
                if self.limit_now is not None and self.sp.h2.open_inbound_streams > self.limit_now:
                    self.server_events.append(("over-limit", ev.stream_id, self.sp.h2.open_inbound_streams, self.limit_now))
            elif isinstance(ev, h2.events.SettingsAcknowledged):
                self.limit_now = self.sp.h2.local_settings.max_concurrent_streams
        self.server_events.extend(new)
        self.sp.flush()
        return new

    def server_settings(self, n):
        import h2.settings
        self.sp.h2.update_settings({h2.settings.SettingCodes.MAX_CONCURRENT_STREAMS: n})
        self.sp.flush()
        self.pump_server()

    def server_request(self, usid):
        """what the server peer has decoded on upstream stream usid"""
        from props.C06 import h2_message
        return h2_message(self.server_events, usid, True)

    def server_respond(self, usid, shape):
        tag = dict(self.server_request(usid)["headers"]).get(b"x-id", b"?")
        h = self.sp.h2
        try:
            if shape == "R":
                h.reset_stream(usid, 2)
            else:
                h.send_headers(usid, [(b":status", b"200"), (b"x-for", tag)], end_stream=shape == "He")
                if shape in ("H.De", "H.D.T"):
                    h.send_data(usid, b"[resp-" + tag + b"]", end_stream=shape == "H.De")
                if shape == "H.D.T":
                    h.send_headers(usid, [(b"x-resp-trailer", tag)], end_stream=True)
        except Exception as e:  # stream already reset by the other side
            self.server_events.append(("respond-refused", usid, repr(e)))
        self.sp.flush()
        self.pump_server()


def run_world(spec):
    """spec: dict(max_streams, seqs=[names for k=1..n], order=interleaving [(stream idx, action)], settings_at=(pos, n)|None,
    cuts=(..), resp_shapes=[...], resp_order=[...]). Returns observations."""
    import h2.events
    from props.C06 import h2_message
    from mitmproxy.proxy.layers.http import _http2
    w = H2World(spec["max_streams"])
    handed = []  # observation only: order in which requests are handed to the upstream HTTP/2 connection (first event per stream)
    orig_he = _http2.Http2Client._handle_event

    def spy(self, event):
        if isinstance(event, _http2.RequestHeaders) and event.request.path not in handed:
            handed.append(event.request.path)
        return orig_he(self, event)

    _http2.Http2Client._handle_event = spy
    try:
        # phase 0: one complete request that the server leaves unanswered (it occupies one upstream slot)
        w.client_action(0, ("H", True))
        w.deliver_client()
        w.pump_server()
        w.pump_server()
        w.cp.pump()
        # phase 1: interleaved frames of the other streams, delivered in arbitrary segments
        arrival = []
        for pos, (i, act) in enumerate(spec["order"]):
            if spec.get("settings_at") and spec["settings_at"][0] == pos:
                w.deliver_client(spec["cuts"])
                w.server_settings(spec["settings_at"][1])
            k = i + 1
            # a request is handed to the upstream connection when it is complete (requests are buffered, not streamed, by default)
            if (act[0] in ("H", "D") and act[1]) or act[0] in ("E", "T"):
                arrival.append(k)
            w.client_action(k, act)
            if spec.get("flush_each"):
                w.deliver_client(spec["cuts"])
        w.deliver_client(spec["cuts"])
        w.cp.pump()
        # phase 2: the server answers in the given order; freed capacity lets queued streams through
        answered = []
        shapes = list(spec["resp_shapes"])
        order = list(spec["resp_order"])
        step = 0
        while step < 40:
            w.pump_server()
            pend = [u for u in w.server_seen if u not in answered and w.server_request(u)["headers"] is not None]
            # only answer requests that the server has read completely or that were reset
            ready = [u for u in pend if w.server_request(u)["ended"] or w.server_request(u)["reset"] is not None]
            if not ready:
                break
            u = ready[order[step % len(order)] % len(ready)]
            answered.append(u)
            if w.server_request(u)["reset"] is None:
                w.server_respond(u, shapes[step % len(shapes)])
            step += 1
        w.pump_server()
        w.cp.pump()
        arrival = [int(p_[2:]) for p_ in handed if p_ != "/s0"]
        obs = dict(world=w, arrival=arrival, answered=answered, server_seen=list(w.server_seen), flows=list(w.flows),
                   server_error=w.sp.error if w.sp else None, client_error=w.cp.error, over_limit=[e for e in w.server_events if isinstance(e, tuple) and e[0] == "over-limit"],
                   max_open=w.max_open_seen)
        obs["server_requests"] = {u: w.server_request(u) for u in w.server_seen}
        obs["client_responses"] = {k: h2_message(w.cp.events, sid, False) for k, sid in w.sid_of.items()}
        obs["client_terminated"] = any(isinstance(e, h2.events.ConnectionTerminated) for e in w.cp.events)
        return obs
    finally:
        _http2.Http2Client._handle_event = orig_he
        w.close()


def expected_request(k, seq):
    acts = CLIENT_SEQS[seq] if k else [("H", True)]
    body = b"".join(f"[body-{k}]".encode() for a in acts if a[0] == "D")
    trailers = [(b"x-trailer", str(k).encode())] if any(a[0] == "T" for a in acts) else None
    reset = any(a[0] == "R" for a in acts)
    return body, trailers, reset


def check_world(b, spec, obs):
    inp = {k: (v if not isinstance(v, tuple) else list(v)) for k, v in spec.items()}
    inp["order"] = [[i, list(a)] for i, a in spec["order"]]
    n = len(spec["seqs"])
    if obs["server_error"] is not None:
        b.fail("h2.server_peer_accepts_upstream_frames", inp, repr(obs["server_error"]))
    if obs["client_error"] is not None:
        b.fail("h2.client_peer_accepts_downstream_frames", inp, repr(obs["client_error"]))
    if obs["client_terminated"]:
        b.fail("h2.client_connection_survives", inp, "mitmproxy terminated the client connection")
    if obs["over_limit"]:
        b.fail("upstream.opened_only_within_concurrency_limit", inp, str(obs["over_limit"]))
    # upstream: each client stream maps to its own server stream; consistent content; no loss, no duplication
    by_tag = {}
    for u, m in obs["server_requests"].items():
        hd = dict(m["headers"] or [])
        tag = hd.get(b"x-id")
        path = hd.get(b":path")
        if tag is None or path != b"/s" + tag:
            b.fail("upstream.headers_of_one_stream", inp, f"upstream stream {u}: {m['headers']}")
            continue
        k = int(tag)
        if k in by_tag:
            b.fail("upstream.no_duplicate_stream", inp, f"request {k} opened on upstream streams {by_tag[k]} and {u}")
        by_tag[k] = u
        body, trailers, reset = expected_request(k, spec["seqs"][k - 1] if k else None)
        if not reset:
            if m["body"] != body or (m["trailers"] or None) != trailers or not m["ended"]:
                b.fail("upstream.body_and_trailers_of_own_stream", inp, f"request {k} on upstream stream {u}: body {m['body']!r} trailers {m['trailers']} ended {m['ended']}; expected {body!r} {trailers}")
        else:
            if not body.startswith(m["body"]) or m["trailers"]:
                b.fail("upstream.body_and_trailers_of_own_stream", inp, f"reset request {k}: upstream got body {m['body']!r} trailers {m['trailers']}")
    # a cancel travels to the upstream stream of the cancelled request and to no other
    for u, m in obs["server_requests"].items():
        tag = dict(m["headers"] or []).get(b"x-id")
        if tag is None:
            continue
        k = int(tag)
        _, _, was_reset = expected_request(k, spec["seqs"][k - 1] if k else None)
        if m["reset"] is not None and not was_reset:
            b.fail("upstream.only_cancelled_streams_are_reset", inp, f"upstream stream {u} (request {k}) was reset although its client stream was not cancelled")
        if was_reset and m["reset"] is None and not (u in obs["answered"]):
            b.fail("upstream.cancel_reaches_the_upstream_stream", inp, f"request {k} was cancelled by the client; its upstream stream {u} was neither reset nor answered")
    for k in range(0, n + 1):
        body, trailers, reset = expected_request(k, spec["seqs"][k - 1] if k else None)
        if not reset and k not in by_tag:
            b.fail("upstream.no_stream_lost", inp, f"request {k} never reached the server (seen: {sorted(by_tag)})")
    # streams that had to wait for capacity are opened in arrival order
    seen_tags = [int(dict(obs["server_requests"][u]["headers"])[b"x-id"]) for u in obs["server_seen"] if obs["server_requests"][u]["headers"] and b"x-id" in dict(obs["server_requests"][u]["headers"])]
    arrival_seen = [k for k in obs["arrival"] if k in seen_tags]
    if [k for k in seen_tags if k != 0] != arrival_seen:
        b.fail("upstream.opened_in_arrival_order", inp, f"requests were handed to the upstream connection in order {obs['arrival']}, upstream streams opened in order {seen_tags}")
    if obs["server_seen"] != sorted(obs["server_seen"]):
        b.fail("upstream.stream_ids_increase", inp, str(obs["server_seen"]))
    # downstream: each response / reset reaches the client on the stream of the request it answers
    for k, m in obs["client_responses"].items():
        body, trailers, reset = expected_request(k, spec["seqs"][k - 1] if k else None)
        if m["headers"] is not None:
            hd = dict(m["headers"])
            if hd.get(b"x-for") is not None and hd.get(b"x-for") != str(k).encode():
                b.fail("downstream.response_on_the_stream_of_its_request", inp, f"client stream of request {k} got the response for request {hd.get(b'x-for')}")
            if hd.get(b"x-for") is not None:
                if m["body"] not in (b"", b"[resp-" + str(k).encode() + b"]"):
                    b.fail("downstream.body_of_own_response", inp, f"request {k}: body {m['body']!r}")
                if m["trailers"] and m["trailers"] != [(b"x-resp-trailer", str(k).encode())]:
                    b.fail("downstream.trailers_of_own_response", inp, f"request {k}: trailers {m['trailers']}")
        u = by_tag.get(k)
        if u is not None and u in obs["answered"] and not reset:
            shape = None
            # which shape was used for u
            idx = obs["answered"].index(u)
            shape = spec["resp_shapes"][idx % len(spec["resp_shapes"])]
            if shape == "R":
                if m["reset"] is None and m["headers"] is None:
                    b.fail("downstream.reset_reaches_the_client_stream", inp, f"server reset request {k}; client stream saw nothing")
            else:
                if m["headers"] is None:
                    b.fail("downstream.response_reaches_the_client_stream", inp, f"request {k} answered ({shape}) but the client stream got {m}")
                else:
                    want_body = b"" if shape == "He" else b"[resp-" + str(k).encode() + b"]"
                    want_tr = [(b"x-resp-trailer", str(k).encode())] if shape == "H.D.T" else None
                    if m["body"] != want_body or (m["trailers"] or None) != want_tr or not m["ended"]:
                        b.fail("downstream.complete_response_of_own_request", inp, f"request {k} ({shape}): client got body {m['body']!r} trailers {m['trailers']} ended {m['ended']}")
    # flows: every flow carries the headers, body and trailers of its own stream only
    for f in obs["flows"]:
        p = f.request.path
        if not p.startswith("/s"):
            b.fail("flow.identified", inp, p)
            continue
        k = int(p[2:])
        body, trailers, reset = expected_request(k, spec["seqs"][k - 1] if k else None)
        if f.request.headers.get("x-id") != str(k):
            b.fail("flow.request_headers_of_own_stream", inp, f"flow {p}: x-id {f.request.headers.get('x-id')}")
        if f.request.raw_content is not None and not reset and f.request.raw_content != body:
            b.fail("flow.request_body_of_own_stream", inp, f"flow {p}: {f.request.raw_content!r} expected {body!r}")
        if f.request.raw_content is not None and reset and not body.startswith(f.request.raw_content):
            b.fail("flow.request_body_of_own_stream", inp, f"flow {p}: {f.request.raw_content!r} expected prefix of {body!r}")
        if f.request.trailers is not None and [(a, c) for a, c in f.request.trailers.fields] != (trailers or []):
            b.fail("flow.request_trailers_of_own_stream", inp, f"flow {p}: {f.request.trailers.fields}")
        if f.response is not None and f.response.headers.get("x-for") not in (None, str(k)):
            b.fail("flow.response_of_own_request", inp, f"flow {p}: response for {f.response.headers.get('x-for')}")
        if f.response is not None and f.response.raw_content not in (None, b"", b"[resp-" + str(k).encode() + b"]"):
            b.fail("flow.response_body_of_own_request", inp, f"flow {p}: {f.response.raw_content!r}")
    if len({f.request.path for f in obs["flows"]}) != len(obs["flows"]):
        b.fail("flow.one_per_stream", inp, str([f.request.path for f in obs["flows"]]))


# ---- flow control: one stream blocked on the peer's window while another one sends trailers / ends --------------------
BIG = 70000  # > the initial HTTP/2 window of 65535


def run_flow_world(direction, wide_conn_window, big_first, big_trailers, small_len, small_trailers, chunk):
    """direction 'response': the server answers /big with a 70000-byte body and /small with a short one, the client peer reads
    (and thereby grants credit) only after both answers were handed to mitmproxy. direction 'request': the client uploads the
    two bodies, the server peer withholds credit until both requests were handed over. Returns {tag: (want, got)}."""
    from props.C06 import h2_message
    w = H2World(None)
    try:
        cp = w.cp
        if wide_conn_window and direction == "response":
            cp.h2.increment_flow_control_window(1_000_000)   # only the per-stream window can block
            cp.flush()
        bodies = {"big": b"B" * BIG, "small": b"s" * small_len}
        trailers = {"big": [(b"x-trailer", b"big")] if big_trailers else None, "small": [(b"x-trailer", b"small")] if small_trailers else None}
        order = ["big", "small"] if big_first else ["small", "big"]
        sids = {}

        def send_msg(h2c, sid, head, tag, relieve=None):
            body, tr = bodies[tag], trailers[tag]
            h2c.send_headers(sid, head, end_stream=not body and not tr)
            pos = 0
            while pos < len(body):
                n = min(chunk, len(body) - pos, h2c.local_flow_control_window(sid), h2c.max_outbound_frame_size)
                if n <= 0 and relieve is not None:
                    relieve()
                    n = min(chunk, len(body) - pos, h2c.local_flow_control_window(sid), h2c.max_outbound_frame_size)
                if n <= 0:
                    raise RuntimeError("test peer itself blocked on flow control")
                h2c.send_data(sid, body[pos:pos + n], end_stream=(pos + n == len(body) and not tr))
                pos += n
            if tr:
                h2c.send_headers(sid, tr, end_stream=True)

        if direction == "response":
            for tag in ("big", "small"):
                sid = w.next_sid
                w.next_sid += 2
                sids[tag] = sid
                cp.h2.send_headers(sid, [(b":method", b"GET"), (b":scheme", b"https"), (b":authority", b"a.test"), (b":path", b"/" + tag.encode()), (b"x-id", tag.encode())], end_stream=True)
            cp.flush()
            w.pump_server()
            w.pump_server()
            up = {dict(w.server_request(u)["headers"])[b"x-id"].decode(): u for u in w.server_seen}
            for tag in order:
                send_msg(w.sp.h2, up[tag], [(b":status", b"200"), (b"x-for", tag.encode())], tag)
                w.sp.flush()
                w.pump_server()
            # only now does the client read and hand out credit
            for _ in range(200):
                new = cp.pump()
                cp.flush()
                w.pump_server()
                if not new:
                    break
            got = {tag: h2_message(cp.events, sids[tag], False) for tag in sids}
            err = cp.error
        else:
            # the upstream connection and the server's SETTINGS must exist before the uploads: a first small exchange
            cp.h2.send_headers(w.next_sid, [(b":method", b"GET"), (b":scheme", b"https"), (b":authority", b"a.test"), (b":path", b"/warmup"), (b"x-id", b"warmup")], end_stream=True)
            w.next_sid += 2
            cp.flush()
            w.pump_server()
            w.pump_server()
            cp.pump()
            cp.flush()
            w.sp.auto_ack = False
            if wide_conn_window:
                w.sp.h2.increment_flow_control_window(1_000_000)
                w.sp.flush()
            for tag in order:
                sid = w.next_sid
                w.next_sid += 2
                sids[tag] = sid
                send_msg(cp.h2, sid, [(b":method", b"POST"), (b":scheme", b"https"), (b":authority", b"a.test"), (b":path", b"/" + tag.encode()), (b"x-id", tag.encode())], tag,
                         relieve=lambda: (cp.flush(), cp.pump(), cp.flush()))
                cp.flush()
                cp.pump()
                cp.flush()
            for _ in range(200):
                new = w.pump_server()
                w.sp.grant_credit()
                w.sp.flush()
                if not new:
                    break
            up = {}
            for u in w.server_seen:
                hd = dict(w.server_request(u)["headers"] or [])
                up[hd.get(b"x-id", b"?").decode()] = u
            got = {tag: (w.server_request(up[tag]) if tag in up else dict(headers=None, body=b"", trailers=None, ended=False, reset=None)) for tag in sids}
            err = w.sp.error
        return {tag: (dict(body=bodies[tag], trailers=trailers[tag]), got[tag]) for tag in sids}, err
    finally:
        w.close()


def check_flow_world(b, params):
    keys = ("direction", "wide_conn_window", "big_first", "big_trailers", "small_len", "small_trailers", "chunk")
    inp = dict(zip(keys, params))
    inp["kind"] = "flow-control"
    try:
        res, err = run_flow_world(*params)
    except Exception as e:
        import traceback
        b.fail("flow.no_crash", inp, f"{type(e).__name__}: {e} {traceback.format_exc()[-600:]}")
        return
    if err is not None:
        b.fail("flow.peer_accepts_the_frames", inp, repr(err))
    for tag, (want, got) in res.items():
        if got["headers"] is None:
            b.fail("flow.message_of_each_stream_arrives", inp, f"/{tag}: nothing arrived")
            continue
        hd = dict(got["headers"])
        if hd.get(b"x-for", hd.get(b"x-id")) != tag.encode():
            b.fail("flow.headers_of_own_stream", inp, f"/{tag}: {got['headers']}")
        if got["body"] != want["body"]:
            b.fail("flow.whole_body_of_own_stream_in_order", inp, f"/{tag}: {len(got['body'])} bytes (first difference at {next((i for i, (x, y) in enumerate(zip(got['body'], want['body'])) if x != y), min(len(got['body']), len(want['body'])))}), expected {len(want['body'])}")
        if (got["trailers"] or None) != want["trailers"]:
            b.fail("flow.trailers_of_own_stream_not_held_back_by_other_streams", inp, f"/{tag}: trailers {got['trailers']}, expected {want['trailers']}")
        if not got["ended"] or got["reset"] is not None:
            b.fail("flow.every_stream_ends", inp, f"/{tag}: ended={got['ended']} reset={got['reset']}")


def _crossed_cancel_specs():
    """client ids and upstream ids crossed, then the client cancels a request that was already forwarded: request 1 (client stream 3)
    is still uploading while request 2 (client stream 5) completes and is forwarded first (upstream 3); request 1 follows (upstream 5);
    with a third request in some variants. The cancelled stream's *upstream* id equals another live stream's *client* id."""
    out = []
    for seqs, order in (
        (["H.De", "HE.R"], [(0, ("H", False)), (1, ("H", True)), (0, ("D", True)), (1, ("R",))]),
        (["H.D.E", "HE.R"], [(0, ("H", False)), (1, ("H", True)), (0, ("D", False)), (0, ("E",)), (1, ("R",))]),
        (["H.De", "H.De.R"], [(0, ("H", False)), (1, ("H", False)), (1, ("D", True)), (0, ("D", True)), (1, ("R",))]),
        (["H.De", "HE.R", "HE"], [(0, ("H", False)), (1, ("H", True)), (2, ("H", True)), (0, ("D", True)), (1, ("R",))]),
        (["H.De", "HE", "HE.R"], [(0, ("H", False)), (1, ("H", True)), (2, ("H", True)), (0, ("D", True)), (2, ("R",))]),
        (["H.D.D.T", "HE.R"], [(0, ("H", False)), (0, ("D", False)), (1, ("H", True)), (0, ("D", False)), (0, ("T",)), (1, ("R",))]),
    ):
        for shapes in (["He"], ["H.De"], ["H.D.T"]):
            for ms in (None, 2):
                out.append(dict(max_streams=ms, seqs=seqs, order=order, settings_at=None, cuts=(), flush_each=True, resp_shapes=shapes * 4, resp_order=[0, 0, 0, 0]))
    return out


def check_body_limit_world(b, params):
    """body_size_limit=10: two (or three) concurrent requests over one HTTP/2 upstream connection, one response exceeds the limit
    (announced by content-length = 'early', or only noticed while the DATA arrives = 'late'), the others are ordinary. The
    oversized exchange is aborted on its own streams; every other stream gets its own complete response."""
    import h2.events
    from props.C06 import h2_message
    big_first, early, n_other, other_shape = params
    inp = dict(kind="body-size-limit", oversized_answered_first=big_first, announced_by_content_length=early, other_streams=n_other, other_shape=other_shape)
    w = H2World(None, body_size_limit="10")
    try:
        tags = ["big"] + [f"ok{i}" for i in range(n_other)]
        sids = {}
        for tag in tags:
            sids[tag] = w.next_sid
            w.next_sid += 2
            w.cp.h2.send_headers(sids[tag], [(b":method", b"GET"), (b":scheme", b"https"), (b":authority", b"a.test"), (b":path", b"/" + tag.encode()), (b"x-id", tag.encode())], end_stream=True)
        w.cp.flush()
        w.pump_server()
        w.pump_server()
        up = {dict(w.server_request(u)["headers"])[b"x-id"].decode(): u for u in w.server_seen}
        if set(up) != set(tags) or len({id(c) for c, d in w.drv.sent_chunks if c is not w.client}) != 1:
            b.fail("limit.setup_two_streams_on_one_upstream_connection", inp, f"{up}")
            return
        order = tags if big_first else tags[1:] + tags[:1]
        for tag in order:
            h = w.sp.h2
            try:
                if tag == "big":
                    h.send_headers(up[tag], [(b":status", b"200"), (b"x-for", b"big")] + ([(b"content-length", b"50")] if early else []), end_stream=False)
                    w.sp.flush()
                    w.pump_server()
                    h.send_data(up[tag], b"B" * 50, end_stream=False)   # the stream is still open when the limit is hit
                else:
                    h.send_headers(up[tag], [(b":status", b"200"), (b"x-for", tag.encode())], end_stream=other_shape == "He")
                    if other_shape != "He":
                        h.send_data(up[tag], b"[ok]", end_stream=True)
            except Exception as e:   # the stream was reset by mitmproxy in the meantime: fine for the oversized one
                if tag != "big":
                    b.fail("limit.other_upstream_streams_stay_usable", inp, f"server cannot answer /{tag}: {e!r}")
            w.sp.flush()
            w.pump_server()
        w.cp.pump()
        if w.sp.error is not None:
            b.fail("limit.server_peer_accepts_upstream_frames", inp, repr(w.sp.error))
        if any(isinstance(e, h2.events.ConnectionTerminated) for e in w.server_events) or any(c is not w.client and not half for c, half in w.drv.closed):
            b.fail("limit.shared_upstream_connection_stays_open", inp, "mitmproxy closed the upstream connection that carries the other streams")
        big_up = w.server_request(up["big"])
        if big_up["reset"] is None:
            b.fail("limit.oversized_upstream_stream_is_cancelled", inp, "no RST_STREAM on the upstream stream of the oversized response")
        for u_tag in tags[1:]:
            if w.server_request(up[u_tag])["reset"] is not None:
                b.fail("limit.only_the_oversized_upstream_stream_is_reset", inp, f"upstream stream of /{u_tag} was reset")
        for tag in tags:
            m = h2_message(w.cp.events, sids[tag], False)
            hd = dict(m["headers"] or [])
            if tag == "big":
                if hd.get(b"x-for") == b"big" and m["body"] == b"B" * 50:
                    b.fail("limit.oversized_response_not_delivered", inp, "the 50-byte body passed a 10-byte limit")
                if m["headers"] is None and m["reset"] is None:
                    b.fail("limit.oversized_exchange_is_answered_with_an_error", inp, "client stream saw nothing")
            else:
                want_body = b"" if other_shape == "He" else b"[ok]"
                if hd.get(b":status") != b"200" or hd.get(b"x-for") != tag.encode() or m["body"] != want_body or not m["ended"] or m["reset"] is not None:
                    b.fail("limit.other_streams_get_their_own_response", inp, f"/{tag}: {m}")
    except Exception as e:
        import traceback
        b.fail("limit.no_crash", inp, f"{type(e).__name__}: {e} {traceback.format_exc()[-600:]}")
    finally:
        w.close()


def check_upstream_death(b, how, n_waiting):
    """server limit 1: request 0 is open upstream, requests 1..n wait in Http2Client.stream_queue; then the upstream connection
    dies (TCP close | GOAWAY). Every request that depended on that connection must be answered (error) - none may be lost."""
    from props.C06 import h2_message
    inp = dict(kind="upstream-death", how=how, waiting=n_waiting)
    w = H2World(1)
    try:
        w.client_action(0, ("H", True))
        w.deliver_client()
        w.pump_server()
        w.pump_server()
        w.cp.pump()
        for k in range(1, n_waiting + 1):
            w.client_action(k, ("H", True))
        w.deliver_client()
        w.cp.pump()
        if len(w.server_seen) != 1:
            b.fail("death.setup_requests_wait_for_capacity", inp, str(w.server_seen))
            return
        if how == "tcp-close":
            w.drv.close(w.sp.mitm_conn)
        else:
            w.sp.h2.close_connection(0)
            w.sp.flush()
        w.cp.pump()
        for k, sid in w.sid_of.items():
            m = h2_message(w.cp.events, sid, False)
            answered = (m["headers"] is not None and m["ended"]) or m["reset"] is not None
            if not answered:
                b.fail("death.open_stream_is_told" if k == 0 else "death.waiting_streams_are_told_when_the_upstream_connection_dies", inp,
                       f"request {k} (client stream {sid}) got nothing: {m}; flow still live: {[f.live for f in w.flows if f.request.path == f'/s{k}']}")
    except Exception as e:
        import traceback
        b.fail("death.no_crash", inp, f"{type(e).__name__}: {e} {traceback.format_exc()[-500:]}")
    finally:
        w.close()


def check_invalid_response_world(b, other_first):
    """default options (validate_inbound_headers on): one upstream HTTP/2 stream answers with an invalid head (two different
    content-length fields); the other stream on the same connection is healthy and must still get its own response."""
    from props.C06 import h2_message
    inp = dict(kind="invalid-response-on-shared-upstream", healthy_answered_first=other_first)
    w = H2World(None)
    try:
        for k in (0, 1):
            w.client_action(k, ("H", True))
        w.deliver_client()
        w.pump_server()
        w.pump_server()
        up = {dict(w.server_request(u)["headers"])[b"x-id"]: u for u in w.server_seen}
        if set(up) != {b"0", b"1"}:
            b.fail("invalid.setup", inp, str(up))
            return

        def bad():
            w.sp.h2.send_headers(up[b"0"], [(b":status", b"200"), (b"x-for", b"0"), (b"content-length", b"1"), (b"content-length", b"2")], end_stream=False)

        def good():
            w.sp.h2.send_headers(up[b"1"], [(b":status", b"200"), (b"x-for", b"1")], end_stream=True)

        for step in ((good, bad) if other_first else (bad, good)):
            try:
                step()
            except Exception as e:
                if step is good:
                    b.fail("invalid.other_streams_get_their_own_response", inp, f"the shared upstream connection was closed by mitmproxy, the server cannot answer the healthy request: {e}")
                    return
            w.sp.flush()
            w.pump_server()
        w.cp.pump()
        bad_m = h2_message(w.cp.events, w.sid_of[0], False)
        if dict(bad_m["headers"] or []).get(b"x-for") == b"0":
            b.fail("invalid.bad_response_not_forwarded", inp, str(bad_m))
        m = h2_message(w.cp.events, w.sid_of[1], False)
        hd = dict(m["headers"] or [])
        if hd.get(b":status") != b"200" or hd.get(b"x-for") != b"1" or not m["ended"]:
            b.fail("invalid.other_streams_get_their_own_response", inp, f"healthy request got {hd.get(b':status')} {m['body'][:60]!r}")
    except Exception as e:
        import traceback
        b.fail("invalid.no_crash", inp, f"{type(e).__name__}: {e} {traceback.format_exc()[-400:]}")
    finally:
        w.close()


def check_error_page(b, n):
    """mitmproxy itself writes a body larger than one frame with END_STREAM in a single send_data call: the HTTP/2 error page for
    an upstream connect error whose message has n bytes. The client must get status, the whole page and the end of the stream."""
    import h2.events
    from mitmproxy.proxy import mode_specs
    from mitmproxy.proxy.layers import http as H
    from props import sansio
    from props.h2peer import DeferDriver, H2Peer
    from props.C06 import h2_message
    inp = {"kind": "error-page", "message_bytes": n}
    try:
        opts = sansio.make_options(connection_strategy="lazy")
        client = sansio.make_client()
        client.alpn, client.tls = b"h2", True
        client.proxy_mode = mode_specs.ProxyMode.parse("regular")
        top = H.HttpLayer(sansio.context_for(opts, client), H.HTTPMode.regular)
        drv = DeferDriver(top, open_policy=lambda cmd: "E" * n)
        drv.start()
        cp = H2Peer(drv, client, client_side=True)
        cp.start()
        cp.h2.send_headers(1, [(b":method", b"GET"), (b":scheme", b"http"), (b":authority", b"a.test"), (b":path", b"/")], end_stream=True)
        cp.flush()
        for _ in range(50):
            new = cp.pump()
            cp.flush()
            if not new:
                break
        m = h2_message(cp.events, 1, False)
    except Exception as e:
        import traceback
        b.fail("error_page.no_crash", inp, f"{type(e).__name__}: {e} {traceback.format_exc()[-500:]}")
        return
    if m["headers"] is None or dict(m["headers"]).get(b":status") != b"502":
        b.fail("error_page.status", inp, str(m["headers"]))
        return
    if not m["body"].endswith(b"</html>") or m["body"].count(b"E" * n) != 1:
        b.fail("error_page.whole_body", inp, f"{len(m['body'])} bytes, tail {m['body'][-40:]!r}")
    if not m["ended"] or m["reset"] is not None:
        b.fail("error_page.stream_ends", inp, f"ended={m['ended']} reset={m['reset']} after {len(m['body'])} body bytes")


def bounded(tier, seed):
    import itertools
    import random
    rnd = random.Random(seed)
    b = Bounded()
    b.rule = ("client peer: stream 0 (complete request, left unanswered so that it holds one upstream slot) then every interleaving of the frame "
              "sequences of n<=3 further streams drawn from {HEADERS+END, HEADERS DATA+END, HEADERS DATA DATA(empty,END), HEADERS DATA DATA TRAILERS, "
              "HEADERS RST, HEADERS DATA RST}, delivered whole / frame by frame / cut at arbitrary byte offsets; server peer: initial "
              "MAX_CONCURRENT_STREAMS in {default, 1, 2}, optional SETTINGS lowering it to 1 in the middle, answers (headers | headers+data | "
              "headers+data+trailers | RST) in a permuted order, each answer freeing capacity for queued streams; checked: content of every "
              "upstream stream, flow and client stream belongs to one request, no request lost or duplicated, queued streams open in arrival "
              "order, the limit announced by the server is never exceeded (hyper-h2 server peer + explicit count). distinct = the whole "
              "schedule; non-trivial = at least 2 concurrent streams")
    b.bound = "<= 3 concurrent streams + 1 blocker, <= 8 client frames per schedule, <= 3 cuts; one upstream connection; bodies <= 20 bytes in the interleaving schedules; flow-control schedules: 2 streams, one body of 70000 bytes"
    names = list(CLIENT_SEQS)
    specs = []
    combos = []
    for n in (1, 2, 3):
        for seqs in itertools.product(names, repeat=n):
            if sum(len(CLIENT_SEQS[s]) for s in seqs) <= 8:
                combos.append(seqs)
    rnd.shuffle(combos)
    budget = 2400 if tier == "quick" else 40000
    per_combo = 10 if tier == "quick" else 200
    for seqs in combos:
        ils = list(itertools.islice(interleavings([list(CLIENT_SEQS[s]) for s in seqs]), 400))
        rnd.shuffle(ils)
        for order in ils[:per_combo]:
            ms = rnd.choice([None, 1, 1, 2])
            settings_at = None
            if ms is None and rnd.random() < 0.5:
                settings_at = (rnd.randrange(len(order)), 1)
            cuts = tuple(rnd.randrange(1, 400) for _ in range(rnd.choice([0, 0, 1, 2, 3])))
            specs.append(dict(max_streams=ms, seqs=list(seqs), order=order, settings_at=settings_at, cuts=cuts, flush_each=rnd.random() < 0.4,
                              resp_shapes=[rnd.choice(SERVER_SHAPES) for _ in range(4)], resp_order=[rnd.randrange(4) for _ in range(4)]))
        if len(specs) >= budget:
            break
    specs = _crossed_cancel_specs() + specs[:budget]
    for spec in specs:
        b.case(repr(spec), nontrivial=len(spec["seqs"]) >= 2)
        try:
            obs = run_world(spec)
        except Exception as e:
            import traceback
            b.fail("h2.no_crash", {k: str(v) for k, v in spec.items()}, f"{type(e).__name__}: {e} {traceback.format_exc()[-700:]}")
            continue
        check_world(b, spec, obs)
    # flow control: a stream blocked on the peer's window must not hold back another stream's trailers / end of stream
    chunks = (10000, 16384) if tier == "quick" else (1000, 10000, 16384)
    for params in itertools.product(("response", "request"), (False, True), (True, False), (False, True), (0, 5), (False, True), chunks):
        b.case(("flow",) + params, nontrivial=True)
        check_flow_world(b, params)
    # body_size_limit: an oversized response on one stream of a shared HTTP/2 upstream connection
    for params in itertools.product((True, False), (True, False), (1, 2), ("He", "H.De")):
        b.case(("body-size-limit",) + params, nontrivial=True)
        check_body_limit_world(b, params)
    for other_first in (False, True):
        b.case(("invalid-response", other_first), nontrivial=True)
        check_invalid_response_world(b, other_first)
    # the upstream connection dies while requests wait for capacity
    for how in ("tcp-close", "goaway"):
        for nw in (0, 1, 2):
            b.case(("upstream-death", how, nw), nontrivial=nw > 0)
            check_upstream_death(b, how, nw)
    # a single write larger than one frame that also ends the stream (and, for the largest, exceeds the initial window)
    for n in (100, 16000, 16384, 20000, 40000, 70000, 140000):
        b.case(("error-page", n), nontrivial=n > 16384)
        check_error_page(b, n)
    return b
