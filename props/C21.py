"""C21 — SOCKS5 handshakes are parsed exactly and relay subsequent data.

Spec written from RFC 1928 (request: VER CMD RSV ATYP DST.ADDR DST.PORT; reply: VER REP RSV ATYP BND.ADDR BND.PORT).
"""
from pyvc.api import *
from props.prelude import *

CLAIM = "proof"
# (N) + (P) per state function => independence of every segmentation: generic induction, machine-checked in Lean
LEAN_LEMMAS = [("Seg.lean", "L-SEG segmentation independence from no-op-when-incomplete + prefix determinism (Parser.feedAll_join)")]
S = "mitmproxy.proxy.layers.modes:Socks5Proxy"
OK_REPLY = b"\x05\x00\x00\x01\x00\x00\x00\x00\x00\x00"
FAIL_REPLY = b"\x05\x04\x00\x01\x00\x00\x00\x00\x00\x00"
ASSUMPTIONS = [
    "socket.inet_ntop(AF_INET6, b) is an uninterpreted function of b (IPv6 text form is library behaviour); AF_INET is modelled exactly (dotted decimal)",
    "bytes.decode('ascii','replace') is an uninterpreted function that is the identity on pure-ASCII input",
    "child layer (NextLayer.handle_event) is abstracted to a ghost trace item recording (layer, event)",
]


def err_reply(code):
    return bytes([5, code]) + b"\x00\x01\x00\x00\x00\x00\x00\x00"


def child_event_summary(vc, self_, event):
    return vc.gen([vc.ghost("child_event", self_, event)])


def mk_socks(vc, buf, state, strategy="lazy", proxyauth=None):
    client = mk_client(vc)
    server = mk_server(vc, address=None)
    opts = mk_options(vc, connection_strategy=strategy, proxyauth=proxyauth)
    ctx = mk_context(vc, client, server, opts)
    layer = vc.new(S, context=ctx, buf=buf, debug=None, _paused=None, _paused_event_queue=None)
    layer.state = vc.bound(layer, S + "." + state)
    vc.summary("mitmproxy.proxy.layer:Layer.handle_event", child_event_summary)
    return layer, client, server


def fields_of(vc, o):
    return o.fields if vc.mode == "sym" else o.__dict__


def is_ghost(c, tag):
    if isinstance(c, STuple):
        return c.items[0].concrete() == tag
    return isinstance(c, tuple) and c and c[0] == tag


def need_len(buf):
    """length of a complete request given its first 5 bytes (RFC 1928 §4), for ATYP in {1,3,4}"""
    atyp = code_at(buf, 3)
    return If(atyp == 1, 10, If(atyp == 4, 22, 7 + code_at(buf, 4)))


def check_rejected(vc, out, layer, client, code, tag):
    tr = out.trace
    kinds = trace_kinds(tr)
    vc.ensure(tag + ".trace", kinds == (["SendData"] if code is not None else []) + ["CloseConnection", "Log"])
    if kinds[:1] == ["SendData"] and code is not None:
        vc.ensure(tag + ".reply", And(tr[0].data == err_reply(code), tr[0].connection is client))
    vc.ensure(tag + ".closes_client", all(c.connection is client for c in tr if is_cmd(c, "CloseConnection")))
    h = fields_of(vc, layer).get("_handle_event")
    vc.ensure(tag + ".state_done", h is not None and _is_method(vc, h, "done"))
    vc.ensure(tag + ".no_child", not any(is_ghost(c, "child_event") for c in tr))
    vc.ensure(tag + ".no_destination", isnone(layer.context.server.address))


def _is_method(vc, v, name):
    if vc.mode == "sym":
        return hasattr(v, "func") and v.func.qualname.endswith("." + name)
    return getattr(v, "__name__", "") == name or getattr(getattr(v, "__wrapped__", None), "__name__", "") == name


@scenario("state_connect", functions=[S + ".state_connect", S + ".socks_err", "mitmproxy.proxy.layers.modes:DestinationKnown.finish_start"],
          asserts_are_obligations=True)
def s_connect(vc):
    buf = vc.sym_bytes("buf")
    strategy = vc.case("strategy", ["lazy", "eager"])
    layer, client, server = mk_socks(vc, buf, "state_connect", strategy)
    fails = vc.sym_bool("connect_fails")
    errmsg = vc.sym_str("errmsg")
    vc.assume(len_(errmsg) > 0)

    def on_yield(cmd):
        if is_cmd(cmd, "OpenConnection"):
            return If(fails, errmsg, None) if vc.mode == "sym" else (errmsg if fails else None)

    out = vc.call(S + ".state_connect", layer, on_yield=on_yield)
    vc.ensure("total.no_exception", out.ok)
    if not out.ok:
        return
    tr = out.trace
    L = len_(buf)
    if vc.branch(L < 5):
        _check_noop(vc, out, layer, buf, "incomplete.short")
        return
    if vc.branch(Not(And(code_at(buf, 0) == 5, code_at(buf, 1) == 1, code_at(buf, 2) == 0))):
        check_rejected(vc, out, layer, client, 7, "reject.command")
        return
    atyp = code_at(buf, 3)
    if vc.branch(Not(Or(atyp == 1, atyp == 3, atyp == 4))):
        check_rejected(vc, out, layer, client, 8, "reject.atyp")
        return
    need = need_len(buf)
    if vc.branch(L < need):
        _check_noop(vc, out, layer, buf, "incomplete.body")
        return
    # complete request: destination, reply, leftover
    addr = server.address
    vc.ensure("connect.address_set", not isnone(addr) and isa(addr, tuple) and len(addr) == 2)
    if isnone(addr) or len(addr) != 2:
        return
    host, port = addr[0], addr[1]
    vc.ensure("connect.port", port == be16(buf, need - 2))
    if vc.branch(atyp == 1):
        dotted = _dotted(vc, buf)
        vc.ensure("connect.host.ipv4", host == dotted)
    elif vc.branch(atyp == 3):
        name = buf[5:need - 2]
        vc.ensure("connect.host.domain_len", len_(name) == code_at(buf, 4))
        vc.ensure("connect.host.domain_ascii", Implies(_is_ascii(vc, name), host == _as_str(vc, name)))
    else:
        vc.ensure("connect.host.ipv6", host == _ntop6(vc, buf[4:20]))
    rest = buf[need:]
    kinds = [("ghost:" + (c.items[0].concrete() if isinstance(c, STuple) else c[0])) if isinstance(c, (STuple, tuple)) else (c.cls.__name__ if isinstance(c, SObj) else type(c).__name__) for c in tr]
    eager = strategy == "eager"
    failed = eager and vc.branch(fails)
    if failed:
        vc.ensure("fail.trace", kinds == ["OpenConnection", "SendData", "CloseConnection"])
        if kinds == ["OpenConnection", "SendData", "CloseConnection"]:
            vc.ensure("fail.reply", And(tr[1].data == FAIL_REPLY, tr[1].connection is client))
            vc.ensure("fail.closes_client", tr[2].connection is client)
        vc.ensure("fail.no_child", not any(k.startswith("ghost:") for k in kinds))
        return
    has_rest = vc.branch(len_(rest) > 0)
    exp = (["OpenConnection"] if eager else []) + ["ghost:child_event", "SendData"] + (["ghost:child_event"] if has_rest else [])
    vc.ensure("ok.trace", kinds == exp)
    if kinds != exp:
        return
    i0 = 1 if eager else 0
    start_ev = tr[i0][2]
    vc.ensure("ok.child_started", isa(start_ev, _cls("mitmproxy.proxy.events:Start")))
    vc.ensure("ok.reply", And(tr[i0 + 1].data == OK_REPLY, tr[i0 + 1].connection is client))
    if has_rest:
        ev = tr[i0 + 2][2]
        vc.ensure("ok.rest_once_in_order", And(isa(ev, _cls("mitmproxy.proxy.events:DataReceived")), ev.connection is client, ev.data == rest))
        vc.ensure("ok.same_child", tr[i0 + 2][1] is tr[i0][1])
        vc.ensure("ok.buf_dropped", "buf" not in fields_of(vc, layer))
    else:
        vc.ensure("ok.buf_empty", "buf" not in fields_of(vc, layer) or len_(layer.buf) == 0)
    h = fields_of(vc, layer).get("_handle_event")
    vc.ensure("ok.later_events_go_to_child", h is not None)


def _cls(ref):
    from pyvc.vc import resolve_ref
    return resolve_ref(ref)[2]


def _check_noop(vc, out, layer, buf, tag):
    vc.ensure(tag + ".no_output", len(out.trace) == 0)
    vc.ensure(tag + ".buf_unchanged", layer.buf == buf)
    vc.ensure(tag + ".state_unchanged", _is_method(vc, fields_of(vc, layer).get("state"), "state_connect") and "_handle_event" not in fields_of(vc, layer))
    vc.ensure(tag + ".no_destination", isnone(layer.context.server.address))


def _dotted(vc, buf):
    if vc.mode == "native":
        return ".".join(str(b) for b in buf[4:8])
    import z3
    parts = []
    for k in range(4):
        parts.append(z3.IntToStr(code_at(buf, 4 + k).t))
        if k < 3:
            parts.append(z3.StringVal("."))
    return SStr(z3.Concat(*parts))


def _is_ascii(vc, b):
    if vc.mode == "native":
        return all(c < 128 for c in b)
    import z3
    return SBool(z3.InRe(b.t, z3.Star(z3.Range(chr(0), chr(127)))))


def _as_str(vc, b):
    if vc.mode == "native":
        return b.decode("ascii")
    return SStr(b.t)


def _ntop6(vc, b):
    if vc.mode == "native":
        import socket
        return socket.inet_ntop(socket.AF_INET6, b)
    from pyvc import lib
    import z3
    return SStr(lib.uf("inet_ntop6", z3.StringSort(), z3.StringSort())(b.t))


@scenario("state_greet", functions=[S + ".state_greet", S + ".socks_err"], asserts_are_obligations=True)
def s_greet(vc):
    buf = vc.sym_bytes("buf")
    auth = vc.case("proxyauth", [None, "user:pass"])
    layer, client, server = mk_socks(vc, buf, "state_greet", "lazy", auth)
    # next state is abstracted: we only check which one is entered (its own contract is a separate scenario)
    entered = []

    def next_state(tag):
        def f(v, self_):
            entered.append(tag)
            return v.gen([v.ghost("state", tag)])
        return f

    vc.summary(S + ".state_auth", next_state("auth"))
    vc.summary(S + ".state_connect", next_state("connect"))
    out = vc.call(S + ".state_greet", layer)
    vc.ensure("total.no_exception", out.ok)
    if not out.ok:
        return
    tr = out.trace
    L = len_(buf)
    if vc.branch(L < 2):
        vc.ensure("incomplete.noop", And(len(tr) == 0, layer.buf == buf))
        return
    if vc.branch(code_at(buf, 0) != 5):
        # wrong version: close without a SOCKS reply
        kinds = trace_kinds(tr)
        vc.ensure("badversion.trace", kinds == ["CloseConnection", "Log"])
        vc.ensure("badversion.no_next_state", entered == [])
        return
    n = code_at(buf, 1)
    if vc.branch(L < 2 + n):
        vc.ensure("incomplete.methods.noop", And(len(tr) == 0, layer.buf == buf))
        return
    want = 2 if auth else 0
    methods = buf[2:2 + n]
    if vc.branch(Not(contains(methods, want))):
        kinds = trace_kinds(tr)
        vc.ensure("nomethod.trace", kinds == ["SendData", "CloseConnection", "Log"])
        if kinds[:1] == ["SendData"]:
            vc.ensure("nomethod.reply_ff", tr[0].data == err_reply(0xFF))
        vc.ensure("nomethod.no_next_state", entered == [])
        return
    vc.ensure("ok.trace", len(tr) == 2 and is_cmd(tr[0], "SendData") and is_ghost(tr[1], "state"))
    if len(tr) == 2 and is_cmd(tr[0], "SendData"):
        vc.ensure("ok.reply", And(tr[0].data == bytes([5, want]), tr[0].connection is client))
    vc.ensure("ok.next_state", entered == (["auth"] if auth else ["connect"]))
    vc.ensure("ok.consumed_exactly", layer.buf == buf[2 + n:])


@scenario("state_auth", functions=[S + ".state_auth", S + ".socks_err"], asserts_are_obligations=True)
def s_auth(vc):
    buf = vc.sym_bytes("buf")
    layer, client, server = mk_socks(vc, buf, "state_auth", "lazy", "user:pass")
    entered = []

    def next_state(v, self_):
        entered.append("connect")
        return v.gen([v.ghost("state", "connect")])

    vc.summary(S + ".state_connect", next_state)
    valid = vc.sym_bool("validator_accepts")
    seen = []

    def on_yield(cmd):
        if is_cmd(cmd, "Socks5AuthHook"):
            seen.append(cmd)
            cmd.data.valid = valid

    out = vc.call(S + ".state_auth", layer, on_yield=on_yield)
    vc.ensure("total.no_exception", out.ok)
    if not out.ok:
        return
    tr = out.trace
    L = len_(buf)
    if vc.branch(L < 3):
        vc.ensure("incomplete.noop", And(len(tr) == 0, layer.buf == buf, len(seen) == 0))
        return
    ulen = code_at(buf, 1)
    if vc.branch(L < 3 + ulen):
        vc.ensure("incomplete.user.noop", And(len(tr) == 0, layer.buf == buf, len(seen) == 0))
        return
    plen = code_at(buf, 2 + ulen)
    if vc.branch(L < 3 + ulen + plen):
        vc.ensure("incomplete.pass.noop", And(len(tr) == 0, layer.buf == buf, len(seen) == 0))
        return
    vc.ensure("hook.once", len(seen) == 1)
    if len(seen) != 1:
        return
    user_b, pass_b = buf[2:2 + ulen], buf[3 + ulen:3 + ulen + plen]
    d = seen[0].data
    vc.ensure("hook.credentials_ascii", Implies(And(_is_ascii(vc, user_b), _is_ascii(vc, pass_b)), And(d.username == _as_str(vc, user_b), d.password == _as_str(vc, pass_b))))
    kinds = [("ghost" if isinstance(c, (STuple, tuple)) else (c.cls.__name__ if isinstance(c, SObj) else type(c).__name__)) for c in tr]
    if vc.branch(valid):
        vc.ensure("valid.trace", kinds == ["Socks5AuthHook", "SendData", "ghost"])
        if kinds[:2] == ["Socks5AuthHook", "SendData"]:
            vc.ensure("valid.reply", tr[1].data == b"\x01\x00")
        vc.ensure("valid.consumed_exactly", layer.buf == buf[3 + ulen + plen:])
        vc.ensure("valid.next_state", entered == ["connect"])
    else:
        vc.ensure("invalid.trace", kinds == ["Socks5AuthHook", "SendData", "CloseConnection", "Log"])
        if kinds[:2] == ["Socks5AuthHook", "SendData"]:
            vc.ensure("invalid.reply", tr[1].data == b"\x01\x01")
        vc.ensure("invalid.no_next_state", entered == [])
        h = fields_of(vc, layer).get("_handle_event")
        vc.ensure("invalid.state_done", h is not None and _is_method(vc, h, "done"))


@scenario("state_connect.prefix_determinism", functions=[S + ".state_connect"])
def s_prefix(vc):
    """L-SEG obligation (P): if state_connect makes progress on buf, it makes the same progress on buf ++ s and the
    leftover handed on is extended by exactly s.  With (N) (no-op when incomplete, scenario state_connect) this gives
    segmentation independence by induction on the number of segments."""
    buf = vc.sym_bytes("buf")
    s = vc.sym_bytes("s")
    l1, c1, sv1 = mk_socks(vc, buf, "state_connect", "lazy")
    l2, c2, sv2 = mk_socks(vc, buf + s, "state_connect", "lazy")
    o1 = vc.call(S + ".state_connect", l1)
    vc.assume(o1.ok)
    if len(o1.trace) == 0:
        return  # run 1 made no progress: nothing to compare (covered by (N))
    o2 = vc.call(S + ".state_connect", l2)
    vc.ensure("P.no_exception", o2.ok)
    if not o2.ok:
        return
    k1, k2 = _kinds(o1.trace), _kinds(o2.trace)
    rest1 = _rest(vc, o1.trace)
    rest2 = _rest(vc, o2.trace)
    # same commands up to the optional trailing child DataReceived
    core1 = k1[:-1] if rest1 is not None else k1
    core2 = k2[:-1] if rest2 is not None else k2
    vc.ensure("P.same_commands", core1 == core2)
    vc.ensure("P.same_destination", vc.eq(sv1.address, sv2.address))
    for a, b in zip(o1.trace, o2.trace):
        if is_cmd(a, "SendData") and is_cmd(b, "SendData"):
            vc.ensure("P.same_reply", a.data == b.data)
    if "ghost:child_event" in k1:
        r1 = rest1 if rest1 is not None else b""
        r2 = rest2 if rest2 is not None else b""
        vc.ensure("P.leftover_extended", r2 == r1 + s)


def _kinds(tr):
    return [("ghost:" + (c.items[0].concrete() if isinstance(c, STuple) else c[0])) if isinstance(c, (STuple, tuple)) else (c.cls.__name__ if isinstance(c, SObj) else type(c).__name__) for c in tr]


def _rest(vc, tr):
    """data of the trailing child DataReceived, if any"""
    if not tr:
        return None
    c = tr[-1]
    if isinstance(c, (STuple, tuple)):
        ev = c[2]
        if isa(ev, _cls("mitmproxy.proxy.events:DataReceived")):
            return ev.data
    return None


# =============================================================================================
# T2 (bounded): real Socks5Proxy layer driven sans-io, every segmentation, against an executable RFC 1928/1929 spec

def spec_socks5(stream: bytes, auth: bool):
    """Reference reader. Returns ('incomplete',) | ('reject', reply_bytes_or_None) | ('connect', host, port, rest, replies)."""
    import socket
    replies = b""
    if len(stream) < 2:
        return ("incomplete",)
    if stream[0] != 5:
        return ("reject", replies)
    n = stream[1]
    if len(stream) < 2 + n:
        return ("incomplete",)
    want = 2 if auth else 0
    if want not in stream[2:2 + n]:
        return ("reject", replies + b"\x05\xff" + b"\x00\x01\x00\x00\x00\x00\x00\x00")
    replies += bytes([5, want])
    s = stream[2 + n:]
    if auth:
        if len(s) < 3:
            return ("incomplete",)
        ul = s[1]
        if len(s) < 3 + ul:
            return ("incomplete",)
        pl = s[2 + ul]
        if len(s) < 3 + ul + pl:
            return ("incomplete",)
        user, pw = s[2:2 + ul], s[3 + ul:3 + ul + pl]
        if (user, pw) != (b"user", b"pass"):
            return ("reject", replies + b"\x01\x01")
        replies += b"\x01\x00"
        s = s[3 + ul + pl:]
    if len(s) < 5:
        return ("incomplete",)
    if s[:3] != b"\x05\x01\x00":
        return ("reject", replies + b"\x05\x07\x00\x01\x00\x00\x00\x00\x00\x00")
    at = s[3]
    if at == 1:
        need = 10
    elif at == 4:
        need = 22
    elif at == 3:
        need = 7 + s[4]
    else:
        return ("reject", replies + b"\x05\x08\x00\x01\x00\x00\x00\x00\x00\x00")
    if len(s) < need:
        return ("incomplete",)
    if at == 1:
        host = socket.inet_ntop(socket.AF_INET, s[4:8])
    elif at == 4:
        host = socket.inet_ntop(socket.AF_INET6, s[4:20])
    else:
        host = s[5:need - 2].decode("ascii", "replace")
    port = s[need - 2] * 256 + s[need - 1]
    return ("connect", host, port, s[need:], replies + OK_REPLY)


def _run_real(segments, auth):
    from mitmproxy.proxy import layer as L, events, commands
    from mitmproxy.proxy.layers import modes
    from props import sansio

    class Sink(L.Layer):
        """child layer standing in for NextLayer: records what it is given"""
        got = b""
        started = 0

        def _handle_event(self, event):
            if isinstance(event, events.Start):
                type(self).started += 1
            elif isinstance(event, events.DataReceived):
                type(self).got += event.data
            yield from ()

    Sink.got, Sink.started = b"", 0
    orig = L.NextLayer
    L.NextLayer = lambda ctx, *a, **k: Sink(ctx)
    try:
        opts = sansio.make_options(connection_strategy="lazy")
        if auth:
            opts.update(proxyauth="user:pass")
        ctx = sansio.context_for(opts)
        top = modes.Socks5Proxy(ctx)

        def policy(hook):
            if hook.name == "socks5_auth":
                hook.data.valid = (hook.data.username, hook.data.password) == ("user", "pass")

        d = sansio.Driver(top, hook_policy=policy)
        d.start()
        for seg in segments:
            if ctx.client.state is connection_closed():
                break
            d.data(ctx.client, seg)
        closed = any(c is ctx.client for c, half in d.closed)
        return dict(replies=d.bytes_to(ctx.client), address=ctx.server.address, rest=Sink.got, started=Sink.started, closed=closed)
    finally:
        L.NextLayer = orig


def connection_closed():
    from mitmproxy.connection import ConnectionState
    return ConnectionState.CLOSED


def _expected(stream, auth):
    r = spec_socks5(stream, auth)
    if r[0] == "incomplete":
        # what has been acknowledged so far is determined by the longest decidable prefix; we only compare final outcome kind
        return dict(kind="incomplete")
    if r[0] == "reject":
        return dict(kind="reject", replies=r[1])
    return dict(kind="connect", address=(r[1], r[2]), rest=r[3], replies=r[4])


def bounded(tier, seed):
    import itertools, random
    from props import sansio
    b = Bounded()
    b.rule = "structured SOCKS5 streams (greeting x optional auth x request over atyp/domain/ports, plus malformed variants and trailing data) x every segmentation with <=2 cuts and the 1-byte segmentation; distinct = distinct (stream, auth, segmentation); non-trivial = stream reaches a decision (connect/reject)"
    b.bound = "streams <= 40 bytes; all byte strings <= 3 over {00,01,02,03,04,05,ff} after a valid greeting; cuts <= 2"
    streams = []
    greet = [b"\x05\x01\x00", b"\x05\x02\x00\x02", b"\x05\x01\x02", b"\x04\x01\x00", b"\x05\x00", b"\x05\x03\x01\x02\x03"]
    authmsgs = [b"\x01\x04user\x04pass", b"\x01\x04user\x03bad", b"\x01\x00\x00"]
    reqs = [b"\x05\x01\x00\x01\x7f\x00\x00\x01\x1f\x90", b"\x05\x01\x00\x03\x0bexample.com\xc3\x50", b"\x05\x01\x00\x01\x0a\x00\x00\x01\xff\xff", b"\x05\x01\x00\x04" + bytes(range(16)) + b"\x00\x50",
            b"\x05\x02\x00\x01\x7f\x00\x00\x01\x1f\x90", b"\x05\x01\x00\x05aaaaaa", b"\x05\x01\x00\x03\x00\x00\x50", b"\x05\x01\x00\x03\x02\xc3\xa9\x00\x50"]
    tails = [b"", b"G", b"GET / HTTP/1.1\r\n\r\n"]
    for g in greet:
        for a in [False, True]:
            for am in (authmsgs if a else [b""]):
                for r in reqs:
                    for t in tails:
                        streams.append((g + am + r + t, a))
    alpha = [0, 1, 2, 3, 4, 5, 255]
    maxlen = 3 if tier == "quick" else 4
    for n in range(0, maxlen + 1):
        for tup in itertools.product(alpha, repeat=n):
            streams.append((b"\x05\x01\x00" + bytes(tup), False))
    rnd = random.Random(seed)
    if tier == "quick":
        structured = streams[:len(greet) * 0 + 9999]
        rnd.shuffle(streams)
        streams = streams[:700]
    for stream, auth in streams:
        exp = _expected(stream, auth)
        cuts = 2 if (tier == "thorough" or len(stream) <= 14) else 1
        results = []
        for segs in sansio.all_splits(stream, cuts):
            b.case((stream, auth, tuple(len(s) for s in segs)), nontrivial=exp["kind"] != "incomplete")
            try:
                got = _run_real(segs, auth)
            except Exception as e:  # totality
                b.fail("socks5.total", {"stream": stream.hex(), "auth": auth, "segments": [s.hex() for s in segs]}, f"raised {type(e).__name__}: {e}")
                continue
            results.append(got)
            inp = {"stream": stream.hex(), "auth": auth, "segments": [s.hex() for s in segs]}
            if exp["kind"] == "connect":
                if got["address"] != exp["address"] or got["rest"] != exp["rest"] or got["replies"] != exp["replies"] or got["started"] != 1 or got["closed"]:
                    b.fail("socks5.connect_matches_spec", inp, f"expected {exp}, got {got}")
            elif exp["kind"] == "reject":
                if got["address"] is not None or got["rest"] or got["replies"] != exp["replies"] or not got["closed"]:
                    b.fail("socks5.reject_matches_spec", inp, f"expected {exp}, got {got}")
            else:
                if got["address"] is not None or got["rest"] or got["closed"]:
                    b.fail("socks5.incomplete_is_silent", inp, f"got {got}")
        if results and any(r != results[0] for r in results):
            b.fail("socks5.segmentation_independent", {"stream": stream.hex(), "auth": auth}, "outcomes differ between segmentations")
    return b
