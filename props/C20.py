"""C20 — proxy authentication is enforced on every entry path.

Contracts (from the statement; credentials syntax from RFC 7617 §2: `Basic` SP base64(user-id ":" password), the scheme is
case-insensitive, user-id contains no ":", the password may):

 * parse_http_basic_auth(scheme SP b64(utf8(user ":" pass))) == (scheme, user, pass)          [password may contain ':']
 * ProxyAuth.authenticate_http: True  => the validator accepted the parsed pair, every credential header
   (Proxy-Authorization for regular/upstream mode, Authorization otherwise) is deleted, metadata["proxyauth"] = pair,
   no response is set, all other headers are untouched;
   False => f.response is the 407 (proxy) / 401 (server) answer with the matching challenge header, request untouched.
 * requestheaders / http_connect / socks5_auth: authentication runs unless the connection was authenticated by an
   earlier CONNECT/SOCKS5 handshake (or the flow is a replay); `authenticated` and `data.valid` change only on acceptance.
 * Socks5Proxy.state_greet / state_auth with proxyauth configured: the contracts of props/C21.py are re-used.
"""
from pyvc.api import *
from props.prelude import *

CLAIM = "other"
EXPLANATION = ("T1 proves the addon's decision logic for all header values / credentials / validators (validator and base64/UTF-8 codecs uninterpreted), "
               "the credential parser on well-formed RFC 7617 credentials (one recorded finding: ':' in passwords), and re-uses C21's SOCKS5 contracts; "
               "that a response set in the requestheaders/http_connect hook suppresses forwarding is HttpStream's contract (C03) and is checked here, together with the "
               "whole composition per entry path (absolute-form, CONNECT, reverse, SOCKS5), by bounded sans-io runs of the real layers with the real addon (T2)")
PA = "mitmproxy.addons.proxyauth:"
MS = "mitmproxy.proxy.mode_specs:"
MODE_SPECS = {"RegularMode": "regular", "UpstreamMode": "upstream:http://up:3128", "TransparentMode": "transparent",
              "ReverseMode": "reverse:http://target:80", "Socks5Mode": "socks5", "LocalMode": "local", "WireGuardMode": "wireguard"}
PROXY_MODES = ("RegularMode", "UpstreamMode")
ASSUMPTIONS = [
    "base64 (b64encode / b2a_base64 / a2b_base64) is uninterpreted with a2b_base64(b64encode(x)) == x and b64encode(x) over the base64 alphabet; UTF-8 encode/decode are uninterpreted with decode(encode(u)) == u",
    "str.lower() is uninterpreted (T1); str.split() / split(':') are exact on the structured inputs of the parser contract (scheme, user, password pieces free of the separator)",
    "the validator is an uninterpreted predicate valid(user, password) that may also raise; http.Response.make is summarised by a record of its arguments",
    "in the authenticate_http contract parse_http_basic_auth is an uninterpreted partial function of the header text (its own contract is the scenario parse_http_basic_auth.*)",
    "malformed credentials (arbitrary header text, broken base64, non-UTF-8 bytes, several ':') are covered by T2 only",
]


from mitmproxy.addons import proxyauth as _proxyauth  # noqa: E402

_ORIG = [_proxyauth.parse_http_basic_auth]      # the real function, boxed: native summaries also patch module-level aliases


class Validator20:
    """validator stand-in: its call is summarised by an uninterpreted predicate (or raises)"""

    def __call__(self, username, password):
        raise NotImplementedError


class Resp20:
    """record of the arguments of http.Response.make"""


def mk_mode(vc, name):
    return vc.new(MS + name, full_spec=MODE_SPECS[name], data=MODE_SPECS[name].partition(":")[2], custom_listen_host=None, custom_listen_port=None)


def _uf(name, *sorts):
    from pyvc import lib
    return lib.uf(name, *sorts)


def _S():
    import z3
    return z3.StringSort()


def _Bo():
    import z3
    return z3.BoolSort()


# ---- the validator ---------------------------------------------------------------------------------------------------

NATIVE_ACCEPTS = ("user", "pass")


def valid_pred(vc, u, p):
    if vc.mode == "native":
        return (u, p) == NATIVE_ACCEPTS
    return SBool(_uf("valid20", _S(), _S(), _Bo())(u.t, p.t))


def install_validator(vc, raises):
    def summ(v, self_, u, p):
        if raises:
            if v.mode == "native":
                raise RuntimeError("validator backend unavailable")
            v.it.raise_(RuntimeError, "validator backend unavailable")
        return valid_pred(v, u, p) if v.mode == "native" else valid_pred(v, v.resolve(u), v.resolve(p))

    vc.summary("props.C20:Validator20.__call__", summ)
    return vc.new("props.C20:Validator20")


def _register_oracles():
    from pyvc import lib
    lib.UF_ORACLES["valid20"] = lambda u, p: (u, p) == NATIVE_ACCEPTS
    lib.UF_ORACLES["parse20_ok"] = lambda s: _real_parse(s) is not None
    lib.UF_ORACLES["parse20_scheme"] = lambda s: (_real_parse(s) or ("", "", ""))[0]
    lib.UF_ORACLES["parse20_user"] = lambda s: (_real_parse(s) or ("", "", ""))[1]
    lib.UF_ORACLES["parse20_pass"] = lambda s: (_real_parse(s) or ("", "", ""))[2]


def _orig_parse():
    return _ORIG[0]


def _real_parse(s):
    try:
        return _orig_parse()(s)
    except Exception:
        return None


_register_oracles()


# ---- codecs (same uninterpreted symbols as pyvc/libx_addons.py, real library natively) -------------------------------

def utf8(vc, u):
    """UTF-8 encoding of the str u (requires u encodable)"""
    if vc.mode == "native":
        try:
            return u.encode("utf-8")
        except UnicodeEncodeError:
            vc.assume(False)
    import z3
    e = _uf("encode_utf-8_strict", _S(), _S())(u.t)
    vc.assume(SBool(_uf("encodable_utf-8", _S(), _Bo())(u.t)))        # requires: no lone surrogates
    vc.assume(SBool(z3.InRe(e, z3.Star(z3.Range(chr(0), chr(255))))))
    vc.assume(SBool(z3.Length(e) >= z3.Length(u.t)))
    return SBytes(e)


def b64(vc, x):
    if vc.mode == "native":
        import base64
        return base64.b64encode(x)
    from pyvc import libx_addons as X
    for ax in X.b64_axioms(x.t):
        vc.assume(SBool(ax))
    return SBytes(X.b64encode_t(x.t))


def ascii_str(vc, b):
    return b.decode("ascii") if vc.mode == "native" else SStr(b.t)


def lower(vc, s):
    if vc.mode == "native":
        return s.lower()
    return SStr(_uf("lower", _S(), _S())(s.t))


def native_text(vc, raw):
    """header bytes -> str as mitmproxy.http.Headers presents them (UTF-8, surrogateescape)"""
    if vc.mode == "native":
        return raw.decode("utf-8", "surrogateescape")
    import z3
    r = _uf("decode_utf-8_surrogateescape", _S(), _S())(raw.t)
    vc.assume(SBool(z3.Implies(z3.InRe(raw.t, z3.Star(z3.Range(chr(0), chr(127)))), r == raw.t)))
    return SStr(r)


def no_char(s, chars):
    """s contains none of the characters (regex form in proof mode: that is what the structured split() model can decide)"""
    if not is_sym(s):
        return not any(c in s for c in chars)
    import z3
    rs = z3.ReSort(z3.StringSort())
    cls = z3.Union(*[z3.Re(z3.StringVal(c)) for c in chars]) if len(chars) > 1 else z3.Re(z3.StringVal(chars))
    return SBool(z3.InRe(s.t, z3.Star(z3.Diff(z3.AllChar(rs), cls))))


# =============================================================================================
# parse_http_basic_auth / mkauth

PARSE_CANDS = [dict(scheme=s, user=u, password=p, p1=p1, p2=p2) for s in ("Basic", "basic", "BASIC") for u, p in (("user", "pass"), ("ü", "p w"), ("", ""))
               for p1, p2 in (("pa", "ss"), ("", ""))]


def _token_scheme(vc, scheme):
    """scheme is a non-empty token without whitespace (RFC 7235 auth-scheme = token)"""
    if vc.mode == "native":
        return len(scheme) > 0 and all(33 <= ord(c) <= 126 for c in scheme)
    import z3
    return SBool(z3.InRe(scheme.t, z3.Plus(z3.Range("!", "~"))))


@scenario("parse_http_basic_auth.wellformed", functions=[PA + "parse_http_basic_auth"], candidates=PARSE_CANDS)
def s_parse(vc):
    scheme = vc.sym_str("scheme")
    user = vc.sym_str("user")
    colon_in_password = vc.case("colon_in_password", [False, True])
    if colon_in_password:
        p1, p2 = vc.sym_str("p1"), vc.sym_str("p2")
        vc.assume(And(no_char(p1, ":"), no_char(p2, ":")))
        password = p1 + ":" + p2
    else:
        password = vc.sym_str("password")
        vc.assume(no_char(password, ":"))
    vc.assume(_token_scheme(vc, scheme))
    vc.assume(lower(vc, scheme) == "basic")
    vc.assume(no_char(user, ":"))
    cred = b64(vc, utf8(vc, user + ":" + password))
    n_sp = vc.case("spaces", [1, 2])                      # RFC 7617: 1*SP between scheme and token68
    s = scheme + (" " * n_sp) + ascii_str(vc, cred)
    out = vc.call(PA + "parse_http_basic_auth", s)
    # the statement: every pair is accepted "including passwords containing ':'"  (KF-C20-1: split(":") into exactly two parts)
    vc.ensure("accepts_wellformed", out.ok)  # was recorded finding KF-C20-1, repaired in /repo
    if not out.ok:
        vc.ensure("rejects_only_with_ValueError", out.raised_type() is ValueError)
        return
    r = out.result
    vc.ensure("result.is_triple", isa(r, tuple) and len(r) == 3)
    if not (isa(r, tuple) and len(r) == 3):
        return
    vc.ensure("result.scheme", r[0] == scheme)
    vc.ensure("result.user", r[1] == user)
    vc.ensure("result.password", r[2] == password)


@scenario("parse_http_basic_auth.wrong_scheme", functions=[PA + "parse_http_basic_auth"],
          candidates=[dict(scheme=s, rest="dXNlcjpwYXNz") for s in ("Digest", "Bearer", "basicx")])
def s_parse_scheme(vc):
    scheme = vc.sym_str("scheme")
    rest = vc.sym_str("rest")
    vc.assume(_token_scheme(vc, scheme))
    vc.assume(_token_scheme(vc, rest))
    vc.assume(lower(vc, scheme) != "basic")
    out = vc.call(PA + "parse_http_basic_auth", scheme + " " + rest)
    vc.ensure("rejected", not out.ok)
    if not out.ok:
        vc.ensure("rejected.ValueError", out.raised_type() is ValueError)


@scenario("mkauth.roundtrip", functions=[PA + "mkauth", PA + "parse_http_basic_auth"],
          candidates=[dict(user=u, password=p) for u, p in (("user", "pass"), ("ü", "p w"), ("", ""))])
def s_mkauth(vc):
    user, password = vc.sym_str("user"), vc.sym_str("password")
    vc.assume(And(no_char(user, ":"), no_char(password, ":")))
    cred = b64(vc, utf8(vc, user + ":" + password))      # instantiates the codec axioms on the term mkauth builds
    vc.assume(lower(vc, vc.lift("basic") if vc.mode == "sym" else "basic") == "basic")
    o1 = vc.call(PA + "mkauth", user, password)
    vc.ensure("mkauth.total", o1.ok)
    if not o1.ok:
        return
    vc.ensure("mkauth.value", o1.result == "basic " + ascii_str(vc, cred) + "\n")
    o2 = vc.call(PA + "parse_http_basic_auth", o1.result)
    vc.ensure("roundtrip.accepted", o2.ok)
    if o2.ok:
        vc.ensure("roundtrip.pair", And(o2.result[1] == user, o2.result[2] == password))


# =============================================================================================
# validators

@scenario("SingleUser", functions=[PA + "SingleUser.__init__", PA + "SingleUser.__call__"])
def s_single_user(vc):
    cu, cp = vc.sym_str("conf_user"), vc.sym_str("conf_pass")
    vc.assume(And(no_char(cu, ":"), no_char(cp, ":")))
    o = vc.call(PA + "SingleUser.__init__", v := vc.new(PA + "SingleUser"), cu + ":" + cp)
    vc.ensure("init.total", o.ok)
    if not o.ok:
        return
    vc.ensure("init.fields", And(v.username == cu, v.password == cp))
    u, p = vc.sym_str("u"), vc.sym_str("p")
    r = vc.call(PA + "SingleUser.__call__", v, u, p)
    vc.ensure("call.total", r.ok)
    if r.ok:
        vc.ensure("call.accepts_exactly_the_configured_pair", Iff(vc.truthy(r.result) if vc.mode == "native" else r.result, And(u == cu, p == cp)))


@scenario("AcceptAll", functions=[PA + "AcceptAll.__call__"])
def s_accept_all(vc):
    r = vc.call(PA + "AcceptAll.__call__", vc.new(PA + "AcceptAll"), vc.sym_str("u"), vc.sym_str("p"))
    vc.ensure("accepts", r.ok and vc.eq(r.result, True))


# =============================================================================================
# ProxyAuth.authenticate_http

def install_parse(vc):
    """parse_http_basic_auth as an uninterpreted partial function of the header text (real function natively)"""
    def summ(v, s):
        if v.mode == "native":
            return _ORIG[0](s)
        s = v.resolve(s)
        if not v.branch(SBool(_uf("parse20_ok", _S(), _Bo())(s.t))):
            v.it.raise_(ValueError, "invalid")
        return STuple([SStr(_uf("parse20_" + k, _S(), _S())(s.t)) for k in ("scheme", "user", "pass")])

    vc.summary(PA + "parse_http_basic_auth", summ)


def parsed(vc, text):
    """(ok, user, password) of the uninterpreted / real parser on a header text"""
    if vc.mode == "native":
        r = _real_parse(text)
        return (r is not None), (r[1] if r else ""), (r[2] if r else "")
    return (SBool(_uf("parse20_ok", _S(), _Bo())(text.t)), SStr(_uf("parse20_user", _S(), _S())(text.t)), SStr(_uf("parse20_pass", _S(), _S())(text.t)))


def install_response_make(vc):
    def summ(v, *a):
        if v.mode == "sym":
            a = a[1:]                                       # classmethod: cls
        status_code, content, headers = a
        return v.new("props.C20:Resp20", status_code=status_code, content=content, headers=headers)

    vc.summary("mitmproxy.http:Response.make", summ)


def mk_flow20(vc, mode, fields, is_replay=None, metadata=None, response=None):
    from props.httpstream import mk_request, mk_headers, mk_flow
    client = mk_client(vc, proxy_mode=mk_mode(vc, mode))
    server = mk_server(vc)
    req = mk_request(vc, headers=mk_headers(vc, fields))
    flow = mk_flow(vc, client, server, req, response=response)
    flow.is_replay = is_replay
    if metadata is not None:
        flow.metadata = metadata
    return flow, client, req


def raw_fields(vc, msg):
    """the raw header field tuple of a request (SObj.fields is the engine's attribute dict, hence the indirection)"""
    h = vc.getattr(msg, "headers")
    return h.fields["fields"] if vc.mode == "sym" else h.fields


def header_fields(vc, msg):
    f = raw_fields(vc, msg)
    return list(f.items) if vc.mode == "sym" else list(f)


def lower_name(vc, f):
    n = f[0] if vc.mode == "native" else f.items[0].concrete()
    return n.lower()


AUTH_CANDS = [{"cred_value": v, "cred_value2": w, "other_value": o} for v in (b"Basic dXNlcjpwYXNz", b"Basic dXNlcjp4", b"Basic !!!", b"", b"Digest x")
              for w in (b"Basic dXNlcjpwYXNz", b"x") for o in (b"", b"Basic dXNlcjpwYXNz", b"Basic dXNlcjp4")]


@scenario("authenticate_http", functions=[PA + "ProxyAuth.authenticate_http", PA + "is_http_proxy", PA + "http_auth_header", PA + "make_auth_required_response"],
          candidates=AUTH_CANDS)
def s_authenticate(vc):
    mode = vc.case("mode", ["RegularMode", "UpstreamMode", "ReverseMode", "TransparentMode", "Socks5Mode"])
    is_proxy = mode in PROXY_MODES
    cred_name = b"Proxy-Authorization" if is_proxy else b"Authorization"
    other_name = b"Authorization" if is_proxy else b"Proxy-Authorization"
    layout = vc.case("headers", ["none", "one", "two_cases", "other_only"])
    raises = vc.case("validator_raises", [False, True])
    v1, v2 = vc.sym_bytes("cred_value"), vc.sym_bytes("cred_value2")
    other_v = vc.sym_bytes("other_value")
    fields = [(b"Host", b"example.com")]
    if layout in ("one", "two_cases"):
        fields.append((cred_name, v1))
    fields.append((other_name, other_v))
    if layout == "two_cases":
        fields.append((cred_name.lower(), v2))
    fields.append((b"Accept", b"*/*"))
    flow, client, req = mk_flow20(vc, mode, fields, metadata=vc.dict([]))
    install_parse(vc)
    install_response_make(vc)
    self_ = vc.new(PA + "ProxyAuth", validator=install_validator(vc, raises), authenticated=vc.dict([]))
    # the text the addon sees: missing -> "", several fields of that name -> folded with ", " (RFC 9110 §5.3)
    if layout in ("none", "other_only"):
        text = vc.lift("") if vc.mode == "sym" else ""
    elif layout == "one":
        text = native_text(vc, v1)
    else:
        text = native_text(vc, v1) + ", " + native_text(vc, v2)
    ok, user, password = parsed(vc, text)
    if layout in ("none", "other_only"):
        vc.assume(Not(ok))                                   # ground fact: the empty text is not a credential (checked natively)
    out = vc.call(PA + "ProxyAuth.authenticate_http", self_, flow)
    vc.ensure("total", out.ok)
    if not out.ok:
        return
    accepted = (not raises) and vc.branch(And(ok, valid_pred(vc, user, password)))
    res = out.result
    vc.ensure("result.iff_parsed_pair_is_valid", vc.eq(res, bool(accepted)))
    after = header_fields(vc, req)
    names_after = [lower_name(vc, f) for f in after]
    if accepted:
        vc.ensure("accepted.credential_header_removed", cred_name.lower() not in names_after)
        exp = [f for f in fields if f[0].lower() != cred_name.lower()]
        vc.ensure("accepted.other_headers_untouched", vc.eq(raw_fields(vc, req), tuple(exp)))
        md = flow.metadata
        vc.ensure("accepted.metadata_pair", vc.eq(_dict_get(vc, md, "proxyauth"), (user, password)))
        vc.ensure("accepted.no_response_set", isnone(flow.response))
    else:
        resp = flow.response
        vc.ensure("rejected.response_set", not isnone(resp) and isa(resp, Resp20))
        if not isnone(resp) and isa(resp, Resp20):
            vc.ensure("rejected.status", vc.eq(resp.status_code, 407 if is_proxy else 401))
            ch = resp.headers
            want = "Proxy-Authenticate" if is_proxy else "WWW-Authenticate"
            vc.ensure("rejected.challenge_header", vc.eq(_only_key(vc, ch), want))
            vc.ensure("rejected.challenge_is_basic", startswith(_only_value(vc, ch), "Basic realm="))
        vc.ensure("rejected.request_untouched", vc.eq(raw_fields(vc, req), tuple(fields)))
        vc.ensure("rejected.no_metadata", "proxyauth" not in _keys(vc, flow.metadata))
    vc.ensure("frame.authenticated_untouched", len_(self_.authenticated) == 0)


def _dict_get(vc, d, k):
    if vc.mode == "native":
        return d.get(k)
    for kk, v in d.items:
        if kk.concrete() == k:
            return v
    return None


def _keys(vc, d):
    return list(d.keys()) if vc.mode == "native" else [k.concrete() for k, _ in d.items]


def _only_key(vc, d):
    ks = _keys(vc, d)
    return ks[0] if len(ks) == 1 else None


def _only_value(vc, d):
    if vc.mode == "native":
        return list(d.values())[0] if len(d) == 1 else ""
    return d.items[0][1] if len(d.items) == 1 else SStr("")


# =============================================================================================
# ProxyAuth.requestheaders / http_connect / socks5_auth

def install_authenticate(vc, log, outcome, pair):
    """authenticate_http is contracted above; here it is a ghost call with a symbolic outcome and its metadata effect"""
    def summ(v, self_, f):
        log.append(f)
        ok = v.branch(outcome)
        if ok:
            if v.mode == "native":
                f.metadata["proxyauth"] = pair
            else:
                from pyvc import lib
                lib.dict_set(v.it, f.metadata, SStr("proxyauth"), lift(pair))
        return v.lift(ok)

    vc.summary(PA + "ProxyAuth.authenticate_http", summ)


def _mk_pa(vc, with_validator, auth_entries):
    validator = install_validator(vc, False) if with_validator else None
    return vc.new(PA + "ProxyAuth", validator=validator, authenticated=vc.dict(auth_entries))


@scenario("requestheaders", functions=[PA + "ProxyAuth.requestheaders"])
def s_requestheaders(vc):
    with_validator = vc.case("validator", [True, False])
    known = vc.case("connection", ["fresh", "authenticated", "other_connection_authenticated"])
    replay = vc.case("is_replay", [None, "request"])
    has_cred = vc.case("request_has_credential_header", [False, True])
    mode = vc.case("proxy_mode", ["RegularMode", "UpstreamMode", "Socks5Mode", "TransparentMode", "ReverseMode"])
    # Authorization belongs to the origin server in the proxy modes (and after a SOCKS5 handshake): it must never be touched here
    fields0 = [(b"Host", b"example.com"), (b"Authorization", vc.sym_bytes("origin_cred"))] + ([(b"Proxy-Authorization", vc.sym_bytes("cred_value"))] if has_cred else [])
    flow, client, req = mk_flow20(vc, mode, fields0, is_replay=replay, metadata=vc.dict([]))
    other = mk_client(vc, name="other")
    stored = (vc.sym_str("stored_user"), vc.sym_str("stored_pass"))
    entries = {"fresh": [], "authenticated": [(client, stored)], "other_connection_authenticated": [(other, stored)]}[known]
    self_ = _mk_pa(vc, with_validator, entries)
    calls = []
    install_authenticate(vc, calls, vc.sym_bool("auth_outcome"), (vc.sym_str("au"), vc.sym_str("ap")))
    out = vc.call(PA + "ProxyAuth.requestheaders", self_, flow)
    vc.ensure("total", out.ok)
    if not out.ok:
        return
    must_auth = with_validator and known != "authenticated" and replay is None
    vc.ensure("authenticates_iff_required", len(calls) == (1 if must_auth else 0))
    if calls:
        vc.ensure("authenticates_this_flow", calls[0] is flow)
    if with_validator and known == "authenticated":
        vc.ensure("authenticated_connection.metadata_from_handshake", vc.eq(_dict_get(vc, flow.metadata, "proxyauth"), stored))
    vc.ensure("authenticated_map_untouched", len_(self_.authenticated) == len(entries))
    if with_validator and known == "authenticated" and has_cred and mode in PROXY_MODES:
        # statement: "the credential header is removed before the request is forwarded" — also on a connection that was
        # authenticated by CONNECT (KF-C20-2: the header of a later request in the tunnel is left in place)
        names = [lower_name(vc, f) for f in header_fields(vc, req)]
        vc.ensure("authenticated_connection.credential_header_removed", b"proxy-authorization" not in names)  # was recorded finding KF-C20-2, repaired in /repo
        vc.ensure("authenticated_connection.other_headers_untouched",
                  vc.eq(tuple(f for f in header_fields(vc, req) if lower_name(vc, f) != b"proxy-authorization"), tuple(fields0[:2])))
    else:
        vc.ensure("request_untouched_here", vc.eq(raw_fields(vc, req), tuple(fields0)))
    if not must_auth:
        vc.ensure("no_response_set_here", isnone(flow.response))


@scenario("http_connect", functions=[PA + "ProxyAuth.http_connect"])
def s_http_connect(vc):
    with_validator = vc.case("validator", [True, False])
    flow, client, req = mk_flow20(vc, "RegularMode", [(b"Host", b"example.com:443")], metadata=vc.dict([]))
    self_ = _mk_pa(vc, with_validator, [])
    calls = []
    outcome = vc.sym_bool("auth_outcome")
    pair = (vc.sym_str("au"), vc.sym_str("ap"))
    install_authenticate(vc, calls, outcome, pair)
    out = vc.call(PA + "ProxyAuth.http_connect", self_, flow)
    vc.ensure("total", out.ok)
    if not out.ok:
        return
    vc.ensure("authenticates_iff_validator", len(calls) == (1 if with_validator else 0))
    accepted = with_validator and vc.branch(outcome)
    auth = self_.authenticated
    if accepted:
        vc.ensure("accepted.connection_remembered", len_(auth) == 1 and _dict_has(vc, auth, client))
        vc.ensure("accepted.remembered_pair", vc.eq(_dict_val(vc, auth, client), pair))
    else:
        vc.ensure("not_accepted.connection_not_remembered", len_(auth) == 0)


def _dict_has(vc, d, key):
    if vc.mode == "native":
        return key in d
    return any(k is key for k, _ in d.items)


def _dict_val(vc, d, key):
    if vc.mode == "native":
        return d.get(key)
    for k, v in d.items:
        if k is key:
            return v
    return None


@scenario("socks5_auth", functions=[PA + "ProxyAuth.socks5_auth"], candidates=[dict(username=u, password=p) for u, p in (("user", "pass"), ("user", "x"))])
def s_socks5_auth(vc):
    with_validator = vc.case("validator", [True, False])
    raises = False
    client = mk_client(vc, proxy_mode=mk_mode(vc, "Socks5Mode"))
    u, p = vc.sym_str("username"), vc.sym_str("password")
    data = vc.new("mitmproxy.proxy.layers.modes:Socks5AuthData", client_conn=client, username=u, password=p, valid=False)
    self_ = _mk_pa(vc, with_validator, [])
    out = vc.call(PA + "ProxyAuth.socks5_auth", self_, data)
    vc.ensure("total", out.ok)
    if not out.ok:
        return
    accepted = with_validator and vc.branch(valid_pred(vc, u, p))
    vc.ensure("valid_only_if_validator_accepts", vc.eq(data.valid, bool(accepted)))
    if accepted:
        vc.ensure("accepted.connection_remembered", len_(self_.authenticated) == 1 and _dict_has(vc, self_.authenticated, client))
    else:
        vc.ensure("rejected.connection_not_remembered", len_(self_.authenticated) == 0)
    vc.ensure("credentials_untouched", And(data.username == u, data.password == p))


# SOCKS5 entry path: the layer's side (method 0x02 only when proxyauth is set; invalid credentials => 01 01, close, no
# connection) is contracted in props/C21.py — the same scenarios are part of this property.
def _reuse_c21():
    from props import C21
    for s in C21.SCENARIOS:
        if s.name in ("state_greet", "state_auth"):
            SCENARIOS.append(s)


_reuse_c21()


# =============================================================================================
# T2 (bounded): every entry path with the real layers and the real ProxyAuth addon, sans-io

CRED_ENCODINGS = [
    ("valid", lambda b: b"Basic " + b(b"user:pass")),
    ("valid.lowercase_scheme", lambda b: b"basic " + b(b"user:pass")),
    ("valid.uppercase_scheme", lambda b: b"BASIC " + b(b"user:pass")),
    ("valid.two_spaces", lambda b: b"Basic  " + b(b"user:pass")),
    ("wrong_password", lambda b: b"Basic " + b(b"user:wrong")),
    ("wrong_user", lambda b: b"Basic " + b(b"admin:pass")),
    ("colon_in_password", lambda b: b"Basic " + b(b"user:pa:ss")),
    ("colon_only_password", lambda b: b"Basic " + b(b"user::")),
    ("empty_password", lambda b: b"Basic " + b(b"user:")),
    ("no_colon", lambda b: b"Basic " + b(b"userpass")),
    ("non_ascii_utf8", lambda b: b"Basic " + b("üser:päss".encode())),
    ("non_utf8_bytes", lambda b: b"Basic " + b(b"\xfcser:p\xe4ss")),
    ("malformed_base64", lambda b: b"Basic !!!notbase64"),
    ("truncated_base64", lambda b: b"Basic " + b(b"user:pass")[:-2]),
    ("missing", lambda b: None),
    ("empty_value", lambda b: b""),
    ("scheme_only", lambda b: b"Basic"),
    ("digest_scheme", lambda b: b"Digest " + b(b"user:pass")),
    ("three_tokens", lambda b: b"Basic " + b(b"user:pass") + b" x"),
]


def _ref_pairs(value):
    """(strict pair or None, set of pairs any lenient reader could see) for a credential header value (RFC 7617)"""
    import base64, binascii, re
    if value is None:
        return None, set()
    m = re.fullmatch(rb"([!#$%&'*+\-.^_`|~0-9A-Za-z]+) +([A-Za-z0-9+/\-._~]+=*)", value)
    strict, lenient = None, set()
    if m and m.group(1).lower() == b"basic":
        tok = m.group(2)
        try:
            raw = base64.b64decode(tok, validate=True)
            try:
                txt = raw.decode("utf-8")
                if ":" in txt:
                    u, _, p = txt.partition(":")
                    strict = (u, p)
            except UnicodeDecodeError:
                pass
        except (binascii.Error, ValueError):
            pass
    parts = value.split()
    if len(parts) >= 2 and parts[0].lower() == b"basic":
        for tok in parts[1:2]:
            for dec in (lambda t: binascii.a2b_base64(t), lambda t: base64.b64decode(t + b"=" * (-len(t) % 4))):
                try:
                    raw = dec(tok)
                except Exception:
                    continue
                for enc in ("utf-8", "latin-1"):
                    txt = raw.decode(enc, "replace")
                    if ":" in txt:
                        u, _, p = txt.partition(":")
                        lenient.add((u, p))
                        u2, _, p2 = txt.rpartition(":")
                        lenient.add((u2, p2))
    if strict:
        lenient.add(strict)
    return strict, lenient


VALIDATORS = {
    "single": ("user:pass", lambda u, p: (u, p) == ("user", "pass")),
    "any": ("any", lambda u, p: True),
    "htpasswd": (None, lambda u, p: (u, p) in (("user", "pass"), ("üser", "päss"), ("user", "pa:ss"))),
}


def _htpasswd_file():
    import base64, hashlib, tempfile, os
    path = os.path.join(tempfile.gettempdir(), "pyvc_c20_htpasswd")
    lines = []
    for u, p in (("user", "pass"), ("üser", "päss"), ("user2", "pa:ss")):
        lines.append(u + ":{SHA}" + base64.b64encode(hashlib.sha1(p.encode()).digest()).decode())
    # htpasswd user names cannot contain ':', passwords can
    lines.append("user:{SHA}" + base64.b64encode(hashlib.sha1(b"pass").digest()).decode())
    open(path, "w", encoding="utf-8").write("\n".join(lines) + "\n")
    return path


VALIDATORS["htpasswd"] = (None, lambda u, p: (u, p) in (("user", "pass"), ("üser", "päss"), ("user2", "pa:ss")))

ENTRY_PATHS = ["regular.absolute", "regular.connect", "upstream.absolute", "reverse", "transparent", "socks5"]


def _mk_proxy(path, proxyauth_opt):
    from mitmproxy.addons import proxyauth, next_layer
    from props.addons_sansio import Proxy
    spec = {"regular.absolute": "regular", "regular.connect": "regular", "upstream.absolute": "upstream:http://upstream:3128", "reverse": "reverse:http://target:8000",
            "transparent": "transparent", "socks5": "socks5"}[path]
    pa = proxyauth.ProxyAuth()
    return Proxy(spec, [next_layer.NextLayer(), pa], proxyauth=proxyauth_opt, connection_strategy="lazy"), pa


def _request_bytes(path, cred, n):
    is_proxy = path.startswith(("regular", "upstream"))
    name = b"Proxy-Authorization" if is_proxy else b"Authorization"
    target = b"http://example.com/r%d" % n if path in ("regular.absolute", "upstream.absolute") else b"/r%d" % n
    head = b"GET " + target + b" HTTP/1.1\r\nHost: example.com\r\nX-Probe: keep\r\n"
    if cred is not None:
        head += name + b": " + cred + b"\r\n"
    return head + b"\r\n", name


def _forwarded_requests(p):
    """request heads written to any upstream connection"""
    return [(conn, data) for conn, data in p.all_server_bytes() if data]


def bounded(tier, seed):
    import base64, itertools
    b = Bounded()
    b.rule = ("entry path {absolute-form via regular / upstream proxy, CONNECT tunnel + inner request, reverse, transparent, SOCKS5} x validator {single user, any, htpasswd file} x "
              "credential encoding (valid in 4 spellings, wrong, ':' in password, empty, no colon, non-ASCII UTF-8, non-UTF-8, broken base64, missing, other scheme, extra tokens) x "
              "2 requests per connection (second request with the same / without credentials); distinct = the tuple; non-trivial = credentials present")
    b.bound = f"{len(ENTRY_PATHS)} entry paths x 3 validators x {len(CRED_ENCODINGS)} encodings x 2 second-request variants"
    b.exhaustive = False
    b64 = base64.b64encode
    ht = _htpasswd_file()
    for path, vkind, (cname, mk), second_same in itertools.product(ENTRY_PATHS, ["single", "any", "htpasswd"], CRED_ENCODINGS, [True, False]):
        opt, accepts = VALIDATORS[vkind]
        opt = opt or ("@" + ht)
        cred = mk(b64)
        strict, lenient = _ref_pairs(cred)
        must_accept = strict is not None and accepts(*strict)
        may_accept = any(accepts(u, p) for u, p in lenient)
        key = (path, vkind, cname, second_same)
        b.case(key, nontrivial=cred is not None)
        inp = {"path": path, "validator": vkind, "credential": cname, "header": None if cred is None else cred.decode("latin-1"), "second_same": second_same}
        if path == "socks5":
            # RFC 1929 carries user and password as two length-prefixed fields: no base64, no ':' ambiguity
            if not second_same or (cred is not None and strict is None):
                continue
            try:
                r = _run_socks5(opt, strict)
            except Exception as e:
                b.fail("auth.total", inp, f"raised {type(e).__name__}: {e}")
                continue
            want = strict is not None and accepts(*strict)
            if r["handshake_ok"] != want:
                b.fail("socks5.accepted_iff_validator_accepts", inp, f"pair {strict!r}: validator says {want}, handshake {'succeeded' if r['handshake_ok'] else 'failed'}")
            if not r["handshake_ok"]:
                if r["forwarded"] or r["opened"]:
                    b.fail("socks5.rejected_nothing_forwarded", inp, f"{r['forwarded']!r} opened={r['opened']}")
                if not (r["client_bytes"].endswith(b"\x01\x01") or r["client_bytes"].startswith(b"\x05\xff")) or not r["closed"]:
                    b.fail("socks5.rejected_gets_failure_reply_and_close", inp, f"{r['client_bytes']!r} closed={r['closed']}")
            elif b"x-probe: keep" not in r["forwarded"].lower():
                b.fail("socks5.accepted_request_forwarded", inp, f"{r['forwarded']!r}")
            continue
        try:
            res = _run_path(path, opt, cred, second_same)
        except Exception as e:
            import traceback
            b.fail("auth.total", inp, f"raised {type(e).__name__}: {e} {traceback.format_exc()[-600:]}")
            continue
        for i, r in enumerate(res):
            tag = f"request{i + 1}"
            expect_open = r["expect_open"]          # this request is covered by an earlier successful CONNECT / SOCKS5 handshake
            if r["forwarded"] and not (may_accept or expect_open) and r["has_cred_or_handshake"]:
                b.fail("auth.unauthenticated_request_not_forwarded", dict(inp, request=tag), f"forwarded {r['forwarded']!r} although no reading of the header yields an accepted pair")
            if r["forwarded"] and not r["has_cred_or_handshake"]:
                b.fail("auth.unauthenticated_request_not_forwarded", dict(inp, request=tag), f"forwarded {r['forwarded']!r} without credentials")
            if r["presented"] and must_accept and not r["forwarded"]:
                kf = "[colon-in-password]" if strict and ":" in strict[1] else ""
                b.fail("auth.accepted_pair_is_accepted" + kf, dict(inp, request=tag), f"validator accepts {strict!r} but the request was answered with {r['client_status']!r}")
            if not r["forwarded"] and not r["challenged"]:
                b.fail("auth.rejected_client_gets_auth_required", dict(inp, request=tag), f"client got {r['client_bytes'][:80]!r}")
            if r["forwarded"] and r["cred_header_forwarded"]:
                b.fail("auth.credential_header_removed" + ("[authenticated-tunnel]" if r["expect_open"] else ""), dict(inp, request=tag), f"forwarded head still carries the credential header: {r['forwarded']!r}")
            if r["forwarded"] and b"x-probe: keep" not in r["forwarded"].lower():
                b.fail("auth.other_headers_kept", dict(inp, request=tag), f"{r['forwarded']!r}")
    return b


def _run_socks5(opt, pair):
    """SOCKS5 entry path: greeting (methods 0 and 2 offered when a pair is presented, else only 0), RFC 1929 sub-negotiation,
    CONNECT request, then an HTTP request."""
    p, pa = _mk_proxy("socks5", opt)
    p.feed(b"\x05\x02\x00\x02" if pair is not None else b"\x05\x01\x00")
    ok = False
    if pair is not None and p.to_client() == b"\x05\x02":
        u, pw = pair[0].encode(), pair[1].encode()
        p.feed(b"\x01" + bytes([len(u)]) + u + bytes([len(pw)]) + pw)
        ok = p.to_client().endswith(b"\x01\x00")
    p.feed(b"\x05\x01\x00\x03\x0bexample.com\x00\x50")
    p.feed(_request_bytes("socks5", None, 1)[0])
    fw = b"".join(d for _, d in _forwarded_requests(p))
    return dict(handshake_ok=ok, forwarded=fw, opened=len(p.servers), client_bytes=p.to_client(), closed=not p.client_alive())


def _run_path(path, opt, cred, second_same):
    """Drive one client connection with two requests. Returns per-request observations."""
    p, pa = _mk_proxy(path, opt)
    res = []
    is_proxy = path.startswith(("regular", "upstream"))
    status_needed = b"407" if is_proxy else b"401"
    handshake_ok = False
    if path == "regular.connect":
        head = b"CONNECT example.com:80 HTTP/1.1\r\nHost: example.com:80\r\n" + ((b"Proxy-Authorization: " + cred + b"\r\n") if cred is not None else b"") + b"\r\n"
        p.feed(head)
        out = p.to_client()
        handshake_ok = out.startswith(b"HTTP/1.1 200")
        fw = b"".join(d for _, d in _forwarded_requests(p))
        res.append(dict(forwarded=fw if (fw or handshake_ok) else b"", has_cred_or_handshake=cred is not None, presented=cred is not None, client_status=out[:12],
                        challenged=(not handshake_ok) and out.startswith(b"HTTP/1.1 " + status_needed) and b"proxy-authenticate: basic" in out.lower(),
                        cred_header_forwarded=b"proxy-authorization" in fw.lower(), client_bytes=out, expect_open=False))
        if handshake_ok:
            res[-1]["forwarded"] = b"(tunnel established) x-probe: keep"
        creds = [None, cred if second_same else None]     # inner requests: first without, second with/without credentials
    else:
        creds = [cred, cred if second_same else None]
    for n, c in enumerate(creds, 1):
        if not p.client_alive():
            break
        before_client = len(p.to_client())
        before_srv = {id(conn): len(d) for conn, d in p.all_server_bytes()}
        data, name = _request_bytes(path, c, n)
        p.feed(data)
        fw = b"".join(d[before_srv.get(id(conn), 0):] for conn, d in p.all_server_bytes())
        out = p.to_client()[before_client:]
        covered = handshake_ok and path in ("regular.connect", "socks5")
        res.append(dict(forwarded=fw, has_cred_or_handshake=(c is not None) or covered, presented=c is not None, client_status=out[:12],
                        challenged=out.startswith(b"HTTP/1.1 " + status_needed) and ((b"proxy-authenticate: basic" if is_proxy else b"www-authenticate: basic") in out.lower()),
                        cred_header_forwarded=(name.lower() + b":") in fw.lower(), client_bytes=out, expect_open=covered))
        if fw:
            # the origin answers so that the next request can be sent on the same connection
            p.reply(b"HTTP/1.1 200 OK\r\nContent-Length: 0\r\n\r\n")
    return res
