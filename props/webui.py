"""In-process harness for the real mitmweb tornado Application (T2 of C46/C47): a WebMaster, the real `app.Application`,
a real HTTP server on a loopback socket driven by tornado.testing's AsyncHTTPTestCase machinery (no browser, no network
beyond 127.0.0.1).  Nothing of tornado or mitmproxy is stubbed."""
from __future__ import annotations

import json
import logging

import tornado.testing
from tornado.web import create_signed_value


class WebApp(tornado.testing.AsyncHTTPTestCase):
    """use: w = WebApp.start(xsrf=False); r = w.request("PUT", "/flows/42", json_body={...}); w.stop()"""

    xsrf = True
    web_password = None

    def runTest(self):  # AsyncHTTPTestCase wants a test method name
        pass

    def get_app(self):
        from mitmproxy import options
        from mitmproxy.tools.web import app, master as webmaster

        async def make_master():
            o = options.Options(http2=False)
            return webmaster.WebMaster(o, with_termlog=False)

        m = self.io_loop.asyncio_loop.run_until_complete(make_master())
        if self.web_password is not None:
            m.options.update(web_password=self.web_password)
        self.master = m
        self.view = m.view
        webapp = app.Application(m, None)
        webapp.settings["xsrf_cookies"] = self.xsrf
        self.webapp = webapp
        return webapp

    @classmethod
    def start(cls, xsrf=True, web_password=None):
        for n in ("tornado.access", "tornado.application", "tornado.general"):
            logging.getLogger(n).disabled = True
        t = cls()
        t.xsrf = xsrf
        t.web_password = web_password
        t.setUp()
        return t

    def stop(self):
        try:
            self.tearDown()
        except Exception:
            pass

    def auth_cookie(self) -> str:
        from mitmproxy.tools.web import app
        name = self.webapp.settings["auth_cookie_name"]()
        c = create_signed_value(secret=self.webapp.settings["cookie_secret"], name=name, value=app.AuthRequestHandler.AUTH_COOKIE_VALUE).decode()
        return f"{name}={c}"

    def request(self, method, path, headers=None, body=None, json_body=None, auth=True, follow_redirects=False):
        h = dict(headers or {})
        if auth:
            h["Cookie"] = (h.get("Cookie", "") + "; " if h.get("Cookie") else "") + self.auth_cookie()
        if json_body is not None:
            body = json.dumps(json_body)
            h.setdefault("Content-Type", "application/json")
        if body is None and method in ("POST", "PUT", "PATCH"):
            body = ""
        return self.fetch(path, method=method, headers=h, body=body, allow_nonstandard_methods=True, follow_redirects=follow_redirects, raise_error=False)
