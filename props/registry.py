"""Which properties are claimed, at what level. MANIFEST.json is generated from this."""
ALL = [f"C{i:02d}" for i in range(1, 55)]
CLAIMED: dict[str, dict] = {}
NOT_CLAIMED: dict[str, str] = {}
