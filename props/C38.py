"""C38 — flows from older mitmproxy versions load correctly.

Statement: every flow file written by a supported older version (shipped dumps + synthetic states for each historical format
version) loads into valid current flows; current-format states pass through migration unchanged; re-saving migrated flows
and loading them again reproduces the same state; newer, unknown format versions are rejected with an explanatory error.

T1 (machine-checked on the real source):
  * the chain driver `migrate_flow`: current-version state returned unchanged (same object, frame), any newer integer version
    => ValueError whose text names this mitmproxy, the file's version and says "please update mitmproxy", unknown older
    versions (ints < 4, release tuples outside 0.11..3.0) => ValueError;
  * the converter table: exactly the supported history, each version once;
  * one contract per converter `convert_v` (29): on a flow state in the shape of format version v (concrete key structure,
    symbolic payload leaves) the real converter yields the state in the shape of succ(v) — i.e. convert_v is a left inverse
    of the committed inverse shape edit BACK[v] (props/compat_back.py) — and the version entry becomes succ(v)
    (=> the version strictly increases along the chain and no step is skipped);
  * the composition: `migrate_flow` itself run from every historical version on such a state reaches the current version
    with exactly the state the format history prescribes (props/compat_back.expected_after).
  The key structure of the states is concrete (one state per flow kind), so T1 is a proof for those shapes with arbitrary
  payload leaves, not for all dict states: CLAIM stays "other".
T2 (bounded): every shipped dump, synthetic old-shape states per version x flow kind x variant through the real FlowReader,
  schema validity of the loaded flows, save/load fixpoint, future versions.
"""
from pyvc.api import *
from pyvc.core import SV
from props import compat_back as B

CLAIM = "other"
EXPLANATION = ("T1 proves the chain driver (identity on current states, rejection of newer/unknown versions with the explanatory text), "
               "the completeness of the converter table, one left-inverse contract per converter and the composed chain from every "
               "historical version, all on states whose key structure is concrete (one per flow kind; payload leaves symbolic). "
               "That every *file* of a supported version loads (arbitrary state shapes, tnetstring reader, Flow.from_state, "
               "save/load fixpoint) is bounded: T2 over all shipped dumps and synthetic states per version x kind x variant.")
ASSUMPTIONS = [
    "uuid.uuid4(): str() of the result is an arbitrary fresh string (pyvc/libx_compat.py)",
    "str.format is modelled exactly for literal templates with plain {} fields; arguments other than str/int/bool/None/tuples of those render as opaque strings",
    "the old state shapes are those of props/compat_back.py (inverse shape edits written from the format history, cross-checked against the shipped dumps of versions 0.11, 0.18, 7, 10, 11, 18, 20); historical files with other shapes are covered only as far as the shipped dumps go",
    "flow kinds per version: HTTP flows for every version; TCP flows from format 7 (the first version whose converters test for non-HTTP flows); UDP/DNS flows from format 18",
    "bytes.decode / always_str on symbolic payloads are not exercised in T1 (host names, SNI and ids stay concrete); T2 covers them",
    "tnetstring parsing, Flow.from_state and FlowReader/FlowWriter are exercised in T2 only",
]
M = "mitmproxy.io.compat:migrate_flow"
CM = "mitmproxy.io.compat"


def _current():
    from mitmproxy import version
    return version.FLOW_FORMAT_VERSION


def _exc_text(vc, out):
    return out.raised.args[0]


def _istr(vc, v):
    if vc.mode == "native":
        return str(v)
    from pyvc import lib
    return SStr(lib.int_to_str(v.t))


# ---------------------------------------------------------------------------------------------
# the chain driver


@scenario("migrate_flow.current_is_identity", functions=[M])
def s_current(vc):
    key = vc.case("key", ["version", b"version"])
    payload = vc.sym_bytes("payload")
    typ = vc.sym_str("type")
    inner = vc.dict([("content", payload)])
    d = vc.dict([("type", typ), (key, _current()), ("request", inner)])
    out = vc.call(M, d)
    vc.ensure("no_exception", out.ok)
    if not out.ok:
        return
    vc.ensure("same_object", out.result is d)
    items = d.items if vc.mode == "sym" else list(d.items())
    vc.ensure("frame.keys", len(items) == 3)
    vc.ensure("frame.values", items[0][1] is typ or vc.eq(items[0][1], typ))
    vc.ensure("frame.version", vc.eq(items[1][1], _current()))
    vc.ensure("frame.nested", items[2][1] is inner)
    it2 = inner.items if vc.mode == "sym" else list(inner.items())
    vc.ensure("frame.nested_content", len(it2) == 1 and vc.eq(it2[0][1], payload))


@scenario("migrate_flow.newer_rejected", functions=[M])
def s_newer(vc):
    from mitmproxy import version
    key = vc.case("key", ["version", b"version"])
    v = vc.sym_int("v", lo=_current() + 1)
    d = vc.dict([(key, v), ("type", "http")])
    out = vc.call(M, d)
    vc.ensure("raises", not out.ok)
    if out.ok:
        return
    vc.ensure("value_error", out.raised_type() is ValueError)
    msg = _exc_text(vc, out)
    vc.ensure("msg.names_this_mitmproxy", startswith(msg, version.MITMPROXY))
    vc.ensure("msg.names_file_version", contains(msg, "flow format version " + _istr(vc, v)))
    vc.ensure("msg.says_update", contains(msg, "please update mitmproxy"))


@scenario("migrate_flow.next_version_rejected", functions=[M])
def s_next(vc):
    """concrete twin of newer_rejected (the very next format version), so that a broken message replays on the real code"""
    from mitmproxy import version
    v = _current() + vc.case("ahead", [1, 2, 79])
    out = vc.call(M, vc.dict([("version", v), ("type", "http")]))
    vc.ensure("raises_value_error", (not out.ok) and out.raised_type() is ValueError)
    if out.ok:
        return
    msg = _exc_text(vc, out)
    vc.ensure("msg.exact", vc.eq(msg, f"{version.MITMPROXY} cannot read files with flow format version {v}, please update mitmproxy."))


@scenario("migrate_flow.unknown_int_rejected", functions=[M])
def s_unknown_int(vc):
    """an integer version that is neither current nor has a converter (anything below 4): rejected, no upgrade hint"""
    v = vc.sym_int("v", hi=3)
    d = vc.dict([("version", v), ("type", "http")])
    out = vc.call(M, d)
    vc.ensure("raises", not out.ok)
    if out.ok:
        return
    vc.ensure("value_error", out.raised_type() is ValueError)
    msg = _exc_text(vc, out)
    vc.ensure("msg.names_file_version", contains(msg, "flow format version " + _istr(vc, v)))
    vc.ensure("msg.no_update_hint", Not(contains(msg, "please update")))


@scenario("migrate_flow.unknown_tuple_rejected", functions=[M])
def s_unknown_tuple(vc):
    """a release-number version (major, minor, patch) outside the supported history 0.11-0.19, 1.0, 2.0, 3.0"""
    a, b_, c = vc.sym_int("major", lo=0), vc.sym_int("minor", lo=0), vc.sym_int("patch", lo=0)
    known = Or(*[And(a == k[0], b_ == k[1]) for k in B.ORDER if isinstance(k, tuple)])
    vc.assume(Not(known))
    d = vc.dict([(b"version", vc.list([a, b_, c])), (b"type", b"http")])
    out = vc.call(M, d)
    vc.ensure("raises", not out.ok)
    if out.ok:
        return
    vc.ensure("value_error", out.raised_type() is ValueError)


@scenario("converters.table", functions=[M])
def s_table(vc):
    """the converter table covers exactly the supported history, which ends at the current format version"""
    from mitmproxy.io import compat
    vc.ensure("history_ends_at_current", B.ORDER[-1] == _current())
    vc.ensure("one_converter_per_old_version", sorted(compat.converters, key=repr) == sorted(B.ORDER[:-1], key=repr))
    vc.ensure("no_converter_for_current", _current() not in compat.converters)
    # driver on the oldest unsupported release (0.10, as in the shipped dumpfile-010.mitm)
    out = vc.call(M, vc.dict([(b"version", vc.list([0, 10, 1]))]))
    vc.ensure("0.10_rejected", (not out.ok) and out.raised_type() is ValueError)


# ---------------------------------------------------------------------------------------------
# one contract per converter: convert_v is a left inverse of the committed inverse shape edit BACK[v] (props/compat_back.py)

FIXED_IDS = {"id": "flow-0001", "client": "client-0001", "server": "server-0001"}
KINDS = {
    "http": lambda t: t.tflow(resp=True), "http_noresp": lambda t: t.tflow(), "http_err": lambda t: t.tflow(err=True),
    "http_ws": lambda t: t.tflow(resp=True, ws=True), "tcp": lambda t: t.ttcpflow(), "tcp_err": lambda t: t.ttcpflow(err=True),
    "udp": lambda t: t.tudpflow(), "dns": lambda t: t.tdnsflow(resp=True), "dns_err": lambda t: t.tdnsflow(err=True),
}
# first format version a flow kind is generated for (see ASSUMPTIONS)
FIRST = {"http": (0, 11), "http_noresp": (0, 11), "http_err": (0, 11), "http_ws": 4, "tcp": 7, "tcp_err": 7, "udp": 18, "dns": 18, "dns_err": 18}


def base_state(kind):
    """deterministic current-format state (lists, not tuples) of a test flow of the given kind"""
    from mitmproxy.test import tflow
    f = KINDS[kind](tflow)
    f.id = FIXED_IDS["id"]
    f.client_conn.id = FIXED_IDS["client"]
    f.server_conn.id = FIXED_IDS["server"]
    return norm(f.get_state())


def norm(o):
    if isinstance(o, dict):
        return {k: norm(v) for k, v in o.items()}
    if isinstance(o, (list, tuple)):
        return [norm(x) for x in o]
    return o


def clone(o):
    """structure copy that shares the (possibly symbolic) leaves"""
    if isinstance(o, dict):
        return {k: clone(v) for k, v in o.items()}
    if isinstance(o, list):
        return [clone(x) for x in o]
    return o


# leaves that become symbolic in the contracts: (parent key, key) -> kind.  Only leaves that no inverse edit inspects
# (they are only carried along / renamed) are listed.
SYM_LEAVES = {
    ("request", "content"): "bytes", ("request", "body"): "bytes", ("request", "path"): "bytes", ("request", "method"): "bytes",
    ("request", "port"): "int",
    ("response", "content"): "bytes", ("response", "body"): "bytes", ("response", "reason"): "bytes", ("response", "msg"): "bytes",
    ("response", "status_code"): "int", ("response", "code"): "int",
    (None, "intercepted"): "bool",
}


def _k2s(k):
    return k.decode() if isinstance(k, bytes) else k


def symbolize(vc, state, leaves=SYM_LEAVES):
    out = clone(state)
    for pk in list(out):
        v = out[pk]
        if isinstance(v, dict):
            for k in list(v):
                kind = leaves.get((_k2s(pk), _k2s(k)))
                if kind and v[k] is not None:
                    v[k] = _sym(vc, kind, f"{_k2s(pk)}.{_k2s(k)}")
        else:
            kind = leaves.get((None, _k2s(pk)))
            if kind and v is not None:
                out[pk] = _sym(vc, kind, _k2s(pk))
    return out


def _sym(vc, kind, name):
    return {"bytes": vc.sym_bytes, "str": vc.sym_str, "bool": vc.sym_bool, "int": lambda n: vc.sym_int(n, lo=0)}[kind](name)


def _conc(k):
    c = k.concrete() if hasattr(k, "concrete") else None
    return c if c is not None else k


def dget(vc, d, key):
    if vc.mode == "native":
        return d[key]
    for k, v in d.items:
        if _conc(k) == key and type(_conc(k)) is type(key):
            return vc.resolve(v)
    raise KeyError(key)


def tree_eq(vc, got, exp, path, out):
    """appends (path, condition) pairs stating got == exp (exp: native dict/list tree with possibly symbolic leaves)"""
    if isinstance(got, SV) and vc.mode == "sym":
        got = vc.resolve(got)
    if isinstance(exp, dict):
        items = None
        if isinstance(got, SDict):
            items = [(_conc(k), v) for k, v in got.items]
        elif isinstance(got, dict):
            items = list(got.items())
        if items is None:
            out.append((path, False))
            return
        gk = [k for k, _ in items]
        if sorted(map(repr, gk)) != sorted(map(repr, exp)):
            out.append(("/<keys>" + path, False))
            return
        for k, v in items:
            tree_eq(vc, v, exp[k], f"{path}/{_k2s(k)}", out)
        return
    if isinstance(exp, list):
        gi = got.items if isinstance(got, (SList, STuple)) else (list(got) if isinstance(got, (list, tuple)) else None)
        if gi is None or len(gi) != len(exp):
            out.append((path + "/<len>", False))
            return
        for i, (g, e) in enumerate(zip(gi, exp)):
            tree_eq(vc, g, e, f"{path}[{i}]", out)
        return
    if exp is None:
        out.append((path, isnone(got)))
    elif isinstance(exp, str) and exp == B.ANY_ID:
        out.append((path, isinstance(got, (SStr, str))))
    else:
        out.append((path, _same_type(vc, got, exp) and vc.eq(got, exp)))


def _same_type(vc, got, exp):
    if vc.mode == "native":
        return type(got) is type(exp) or (isinstance(got, (int, float)) and isinstance(exp, (int, float)) and not isinstance(got, bool) and not isinstance(exp, bool))
    e = lift(exp)
    return got.kind == e.kind or {got.kind, e.kind} <= {"int", "float"}


def _and_mixed(conds):
    if any(x is False for x in conds):
        return False
    rest = [x for x in conds if x is not True]
    return And(*rest) if rest else True


def _version_is(vc, got, v):
    """the version entry, read the way the format defines it (release tuples count by major.minor), equals v"""
    if isinstance(v, tuple):
        items = got.items if isinstance(got, (SList, STuple)) else (list(got) if isinstance(got, (list, tuple)) else None)
        if items is None or len(items) < 2:
            return False
        return _and_mixed([vc.eq(items[0], v[0]), vc.eq(items[1], v[1])])
    return (isinstance(got, SInt) or (isinstance(got, int) and not isinstance(got, bool))) and vc.eq(got, v)


def ensure_tree(vc, name, got, exp, skip=(), kf=None):
    """one obligation per top-level key of the state (plus `<keys>` for the key sets).  kf = (finding id, group, K)."""
    out = []
    if skip:
        exp = {k: v for k, v in exp.items() if k not in skip}
        if vc.mode == "sym":
            got = SDict([(k, v) for k, v in got.items if _conc(k) not in skip])
        else:
            got = {k: v for k, v in got.items() if k not in skip}
    tree_eq(vc, got, exp, "", out)
    groups = {}
    for path, cond in out:
        top = path.split("/")[1].split("[")[0] if "/" in path else ""
        groups.setdefault(top, []).append(cond)
    if "<keys>" not in groups:
        groups["<keys>"] = [True]
    for top, conds in groups.items():
        c = _and_mixed(conds)
        if kf is not None and kf[1] == top:
            vc.ensure_kf(f"{name}/{top}", c, kf[0], kf[2])
        else:
            vc.ensure(f"{name}/{top}", c)


def _conv_name(v):
    from mitmproxy.io import compat
    return CM + ":" + compat.converters[v].__name__


# --- symbolic inputs for the converters that branch on a value: EXTRA[v](vc, kind, old, target) edits both states --------

def _x_20(vc, kind, old, target):  # "QUIC" -> "QUICv1", anything else unchanged
    for c in ("client_conn", "server_conn"):
        t = vc.sym_str(c + ".tls_version")
        old[c]["tls_version"] = t
        target[c]["tls_version"] = If(t == "QUIC", "QUICv1", t) if vc.mode == "sym" else ("QUICv1" if t == "QUIC" else t)


def _x_12(vc, kind, old, target):  # marked: bool -> marker string
    m = vc.sym_bool("marked")
    old["marked"] = m
    target["marked"] = ":default:" if vc.branch(m) else ""


def _x_8(vc, kind, old, target):  # per-message replay flags -> flow-level is_replay
    if "request" not in old:
        return
    rq, rs = vc.sym_bool("request.is_replay"), vc.sym_bool("response.is_replay")
    old["request"]["is_replay"] = rq
    has_resp = old.get("response") is not None
    if has_resp:
        old["response"]["is_replay"] = rs
    if vc.branch(rq):
        target["is_replay"] = "request"
    elif has_resp and vc.branch(rs):
        target["is_replay"] = "response"
    else:
        target["is_replay"] = None


def _x_13(vc, kind, old, target):
    """issue 4576: a response saved without its start timestamp gets request.timestamp_end (and an end one second later);
    a response that has its start timestamp — finished or not (timestamp_end None) — is carried over unchanged"""
    if old.get("response") is None:
        return
    shape = vc.case("response_timestamps", ["both", "none", "start_missing", "end_missing"])
    if shape == "both":
        return
    te = vc.sym_int("request.timestamp_end", lo=0)
    old["request"]["timestamp_end"] = te
    target["request"]["timestamp_end"] = te
    if shape == "end_missing":       # unfinished response: nothing to repair
        ts = vc.sym_int("response.timestamp_start", lo=0)
        old["response"]["timestamp_start"] = ts
        old["response"]["timestamp_end"] = None
        target["response"]["timestamp_start"] = ts
        target["response"]["timestamp_end"] = None
        return
    old["response"]["timestamp_start"] = None
    if shape == "none":
        old["response"]["timestamp_end"] = None
    else:
        old["response"]["timestamp_end"] = vc.sym_int("response.timestamp_end", lo=0)
    target["response"]["timestamp_start"] = te
    target["response"]["timestamp_end"] = te + 1


def _x_9(vc, kind, old, target):  # the negotiated ALPN / cipher become the only known offer
    a = vc.sym_bytes("client.alpn")
    old["client_conn"]["alpn_proto_negotiated"] = a
    target["client_conn"]["alpn_proto_negotiated"] = a
    target["client_conn"]["alpn_offers"] = [a] if vc.branch(len_(a) > 0) else None
    ci = vc.sym_str("client.cipher")
    old["client_conn"]["cipher_name"] = ci
    target["client_conn"]["cipher_name"] = ci
    target["client_conn"]["cipher_list"] = [ci] if vc.branch(len_(ci) > 0) else None
    cert = vc.sym_bytes("server.cert")
    old["server_conn"]["cert"] = cert
    target["server_conn"]["certificate_list"] = [cert] if vc.branch(len_(cert) > 0) else []


def _x_15(vc, kind, old, target):  # timestamp_created = start of the request (HTTP) / of the client connection
    ts = vc.sym_int("timestamp_start", lo=0)
    where = "request" if "request" in old else "client_conn"
    old[where]["timestamp_start"] = ts
    target[where]["timestamp_start"] = ts
    target["timestamp_created"] = ts


EXTRA = {20: _x_20, 12: _x_12, 8: _x_8, 13: _x_13, 9: _x_9, 15: _x_15}

# known findings (see known_findings.d/C38.json)
KF2_STEPS = ((0, 13), (0, 15))   # KF-C38-2: converters that dereference a missing response
KF3_STEP = 11                    # KF-C38-3: "websocket": None added to non-HTTP flows


def _step_target(vc, kind, v):
    """(old state in shape v, expected state in shape succ(v)) with shared symbolic leaves"""
    base = base_state(kind)
    nxt = B.succ(v)
    target = B.to_version(B.expected_after(base, v), nxt)
    if v == (0, 17):
        B.py2_values(target)  # host names / SNI are still byte strings after this step; converted later in the chain
    if v == 9:  # format 10 wrote "no offers" as None (normalised to [] by the next step)
        for c in (target["client_conn"], target["server_conn"]):
            c["alpn_offers"] = c["alpn_offers"] or None
            c["cipher_list"] = c["cipher_list"] or None
    target = symbolize(vc, target)
    old = clone(target)
    B.BACK[v](old)
    old[b"version" if b"type" in old else "version"] = B.version_value(v)
    if v in EXTRA:
        EXTRA[v](vc, kind, old, target)
    return old, target, nxt


STEP_KINDS = ["http", "http_noresp", "http_err", "tcp"]


def _mk_step(v):
    @scenario(f"convert.step[{v}]", functions=[_conv_name(v)])
    def s(vc):
        kinds = [k for k in STEP_KINDS if B.rank(FIRST[k]) <= B.rank(v)]
        kind = vc.case("flow", kinds)
        old, target, nxt = _step_target(vc, kind, v)
        out = vc.call(_conv_name(v), vc.lift(old) if vc.mode == "sym" else old)
        if v in KF2_STEPS:
            vc.ensure("no_exception", out.ok)  # was recorded finding KF-C38-2, repaired in /repo
        else:
            vc.ensure("no_exception", out.ok)
        if not out.ok:
            return
        vkey = b"version" if b"type" in target else "version"
        got_v = dget(vc, out.result, vkey)
        vc.ensure("version.is_successor", _version_is(vc, got_v, nxt))
        ensure_tree(vc, "result", out.result, target, skip=(vkey,), kf=None)  # was recorded finding KF-C38-3, repaired in /repo

    return s


for _v in B.ORDER[:-1]:
    _mk_step(_v)


@scenario("convert.step[11].websocket_pair", functions=[CM + ":convert_11_12"])
def s_ws_pair(vc):
    """format <= 11 stored a WebSocket connection as the handshake HTTP flow plus a separate "websocket" flow: the pair
    becomes the handshake flow (no websocket data) and a copy of it that carries the connection's messages and close data"""
    base = base_state("http_ws")
    text = vc.sym_str("text_payload")
    binary = vc.sym_bytes("binary_payload")
    hs, ws = B.split_websocket(base, 11)
    ws["messages"][0][2] = binary
    ws["messages"][1][2] = text          # TEXT message: str in the old files
    exp1 = B.to_version(B.expected_after(base, 11), 12)
    exp1["websocket"] = None
    exp1["metadata"] = {"websocket": True}
    lift_ = (lambda x: vc.lift(x)) if vc.mode == "sym" else (lambda x: x)
    o1 = vc.call(CM + ":convert_11_12", lift_(hs))
    vc.ensure("handshake.no_exception", o1.ok)
    if not o1.ok:
        return
    ensure_tree(vc, "handshake", o1.result, exp1)
    o2 = vc.call(CM + ":convert_11_12", lift_(ws))
    vc.ensure("websocket.no_exception", o2.ok)
    if not o2.ok:
        return
    r = o2.result
    vc.ensure("websocket.is_http_flow", _and_mixed([vc.eq(dget(vc, r, "type"), "http"), vc.eq(dget(vc, r, "id"), base["id"])]))
    wsd = dget(vc, r, "websocket")
    msgs = dget(vc, wsd, "messages")
    msgs = msgs.items if vc.mode == "sym" else msgs
    vc.ensure("websocket.message_count", len(msgs) == 3)
    if len(msgs) != 3:
        return
    m0 = msgs[0].items if vc.mode == "sym" else msgs[0]
    m1 = msgs[1].items if vc.mode == "sym" else msgs[1]
    vc.ensure("websocket.binary_payload_unchanged", _and_mixed([isinstance(m0[2], (SBytes, bytes)), vc.eq(m0[2], binary)]))
    # current flows keep every message payload as bytes (websocket.WebSocketMessage.content: bytes)
    vc.ensure("websocket.text_payload_is_bytes", isinstance(m1[2], (SBytes, bytes)))  # was recorded finding KF-C38-1, repaired in /repo
    vc.ensure("websocket.close_data", _and_mixed([vc.eq(dget(vc, wsd, "close_code"), base["websocket"]["close_code"]), vc.eq(dget(vc, wsd, "close_reason"), base["websocket"]["close_reason"]),
                                                  vc.eq(dget(vc, wsd, "closed_by_client"), base["websocket"]["closed_by_client"])]))
    vc.ensure("websocket.request_kept", vc.eq(dget(vc, dget(vc, r, "request"), "path"), base["request"]["path"]))


# ---------------------------------------------------------------------------------------------
# the composition: migrate_flow from every historical version

CHAIN_KINDS = ["http", "http_noresp", "http_err", "tcp"]


def _mk_chain(v):
    @scenario(f"migrate_flow.chain[{v}]", functions=[M] + [_conv_name(w) for w in B.ORDER[B.rank(v):-1]], max_unroll=40)
    def s(vc):
        kinds = [k for k in CHAIN_KINDS if B.rank(FIRST[k]) <= B.rank(v)]
        kind = vc.case("flow", kinds)
        base = base_state(kind)
        expected = symbolize(vc, B.expected_after(base, v))
        old = clone(expected)
        for w in reversed(B.ORDER[B.rank(v):-1]):
            if w == (0, 17):
                B.py2_values(old)
            B.BACK[w](old)
        old[b"version" if b"type" in old else "version"] = B.version_value(v)
        if B.rank(v) <= B.rank((0, 17)):
            # written under Python 2: migrate_flow leaves request.host a byte string (Request() decodes it: T2)
            expected["request"]["host"] = B._b(expected["request"]["host"])
        kf2 = kind in ("http_noresp", "http_err") and B.rank(v) <= B.rank((0, 15))
        kf3 = kind == "tcp" and B.rank(v) <= B.rank(11)
        out = vc.call(M, vc.lift(old) if vc.mode == "sym" else old)
        if kf2:
            vc.ensure("no_exception", out.ok)  # was recorded finding KF-C38-2, repaired in /repo
        else:
            vc.ensure("no_exception", out.ok)
        if not out.ok:
            return
        vc.ensure("version.is_current", _version_is(vc, dget(vc, out.result, "version"), _current()))
        ensure_tree(vc, "state", out.result, expected, kf=None)  # was recorded finding KF-C38-3, repaired in /repo

    return s


# every chain from v contains the chains from all later versions as suffixes; the quick tier starts at the versions where the
# state shape changes most (all eras) and the thorough tier at every historical version
import os as _os

CHAIN_STARTS = B.ORDER[:-1] if _os.environ.get("PYVC_TIER") == "thorough" else [(0, 11), (0, 14), (0, 16), (0, 17), (0, 18), (1, 0), (3, 0), 4, 7, 9, 11, 12, 15, 18, 20]
for _v in CHAIN_STARTS:
    _mk_chain(_v)


# =============================================================================================
# T2 (bounded): the real FlowReader / migrate_flow / Flow.from_state / FlowWriter on files

def _num(x):
    return isinstance(x, (int, float)) and not isinstance(x, bool)


def _opt(p):
    return lambda x: x is None or p(x)


def _addr(x):
    return isinstance(x, (list, tuple)) and len(x) >= 2 and isinstance(x[0], str) and isinstance(x[1], int) and not isinstance(x[1], bool)


def _seq(p):
    return lambda x: isinstance(x, (list, tuple)) and all(p(i) for i in x)


_is = lambda *t: (lambda x: isinstance(x, t) and not (isinstance(x, bool) and bool not in t))
_headers = _seq(lambda h: isinstance(h, (list, tuple)) and len(h) == 2 and isinstance(h[0], bytes) and isinstance(h[1], bytes))

# the documented attribute types of current flows (mitmproxy.connection / http / websocket / tcp / udp / flow API docs)
_CONN = {
    "id": _is(str), "transport_protocol": lambda x: x in ("tcp", "udp"), "error": _opt(_is(str)), "tls": _is(bool),
    "certificate_list": _seq(_is(bytes)), "alpn": _opt(_is(bytes)), "alpn_offers": _seq(_is(bytes)), "cipher": _opt(_is(str)),
    "cipher_list": _seq(_is(str)), "tls_version": _opt(_is(str)), "sni": _opt(_is(str)), "timestamp_end": _opt(_num),
    "timestamp_tls_setup": _opt(_num),
}
SCHEMA = {
    "client_conn": dict(_CONN, peername=_addr, sockname=_addr, mitmcert=_opt(_is(bytes)), proxy_mode=_is(str), timestamp_start=_num),
    "server_conn": dict(_CONN, address=_opt(_addr), peername=_opt(_addr), sockname=_opt(_addr), timestamp_start=_opt(_num),
                        timestamp_tcp_setup=_opt(_num), via=_opt(_is(list, tuple))),
    "message": {"http_version": _is(bytes), "headers": _headers, "content": _opt(_is(bytes)), "trailers": _opt(_headers),
                "timestamp_start": _num, "timestamp_end": _opt(_num)},
    "error": {"msg": _is(str), "timestamp": _num},
    "websocket": {"messages": _is(list, tuple), "closed_by_client": _opt(_is(bool)), "close_code": _opt(_is(int)), "close_reason": _opt(_is(str)),
                  "timestamp_end": _opt(_num)},
    "ws_message": [_is(int), _is(bool), _is(bytes), _num, _is(bool), _is(bool)],
    "flow": {"version": lambda x: x == _current(), "type": lambda x: x in ("http", "tcp", "udp", "dns"), "id": _is(str), "intercepted": _is(bool),
             "is_replay": lambda x: x in (None, "request", "response"), "marked": _is(str), "metadata": _is(dict), "comment": _is(str),
             "timestamp_created": _num, "backup": _opt(_is(dict))},
}
SCHEMA["request"] = dict(SCHEMA["message"], host=_is(str), port=_is(int), method=_is(bytes), scheme=_is(bytes), authority=_is(bytes), path=_is(bytes))
SCHEMA["response"] = dict(SCHEMA["message"], status_code=_is(int), reason=_is(bytes))


def schema_problems(st):
    """list of (path, problem) where the state of a loaded flow does not conform to the documented current flow schema"""
    out = []

    def rec(d, schema, path):
        if not isinstance(d, dict):
            out.append((path, f"not a dict: {type(d).__name__}"))
            return
        for k in schema:
            if k not in d:
                out.append((f"{path}/{k}", "missing"))
            elif not schema[k](d[k]):
                out.append((f"{path}/{k}", f"bad value {d[k]!r:.80}"))
        for k in d:
            if k not in schema:
                out.append((f"{path}/{k}", "unexpected key"))

    top = dict(SCHEMA["flow"])
    nested = {"client_conn", "server_conn", "error"}
    typ = st.get("type")
    if typ == "http":
        nested |= {"request", "response", "websocket"}
    elif typ in ("tcp", "udp"):
        top["messages"] = _seq(lambda m: isinstance(m, (list, tuple)) and len(m) == 3 and isinstance(m[0], bool) and isinstance(m[1], bytes) and _num(m[2]))
    elif typ == "dns":
        top["request"] = _is(dict)
        top["response"] = _opt(_is(dict))
    rec({k: v for k, v in st.items() if k not in nested}, top, "")
    rec(st.get("client_conn"), SCHEMA["client_conn"], "/client_conn")
    rec(st.get("server_conn"), SCHEMA["server_conn"], "/server_conn")
    if st.get("error") is not None:
        rec(st["error"], SCHEMA["error"], "/error")
    if typ == "http":
        rec(st.get("request"), SCHEMA["request"], "/request")
        if st.get("response") is not None:
            rec(st["response"], SCHEMA["response"], "/response")
        if st.get("websocket") is not None:
            rec(st["websocket"], SCHEMA["websocket"], "/websocket")
            for i, m in enumerate(st["websocket"].get("messages") or []):
                if not isinstance(m, (list, tuple)) or len(m) != 6:
                    out.append((f"/websocket/messages[{i}]", f"not a 6-tuple: {m!r:.80}"))
                    continue
                for j, p in enumerate(SCHEMA["ws_message"]):
                    if not p(m[j]):
                        out.append((f"/websocket/messages[{i}][{j}]", f"bad value {m[j]!r:.60}"))
    return out


def _is_kf1(problem):
    """KF-C38-1: payload (index 2) of a migrated WebSocket message is a str"""
    path, what = problem
    return path.startswith("/websocket/messages[") and path.endswith("[2]")


def diff_states(exp, got, path=""):
    out = []
    if isinstance(exp, str) and exp == B.ANY_ID:
        return [] if isinstance(got, str) and got else [(path, exp, got)]
    if isinstance(exp, dict) and isinstance(got, dict):
        for k in sorted(set(exp) | set(got), key=repr):
            if k not in exp:
                out.append((f"{path}/{k}", "<absent>", got[k]))
            elif k not in got:
                out.append((f"{path}/{k}", exp[k], "<absent>"))
            else:
                out += diff_states(exp[k], got[k], f"{path}/{k}")
    elif isinstance(exp, list) and isinstance(got, list) and len(exp) == len(got):
        for i, (x, y) in enumerate(zip(exp, got)):
            out += diff_states(x, y, f"{path}[{i}]")
    elif exp != got or (type(exp) is not type(got) and not (_num(exp) and _num(got))):
        out.append((path, exp, got))
    return out


def _read(raw):
    """(flows, None) or (flows read so far, exception) from the real FlowReader"""
    import io
    from mitmproxy import io as mio
    flows = []
    try:
        for f in mio.FlowReader(io.BytesIO(raw)).stream():
            flows.append(f)
    except BaseException as e:  # noqa: BLE001 - which exceptions escape is part of the property
        return flows, e
    return flows, None


def _write(flows):
    import io
    from mitmproxy import io as mio
    buf = io.BytesIO()
    w = mio.FlowWriter(buf)
    for f in flows:
        w.add(f)
    return buf.getvalue()


def _g(d, *names):
    for n in names:
        for k in (n, n.encode()):
            if k in d:
                return d[k]
    raise KeyError(names)


def _s(x):
    return x.decode("utf-8", "surrogateescape") if isinstance(x, bytes) else x


def _bts(x):
    return x.encode("utf-8", "surrogateescape") if isinstance(x, str) else x


def old_view(st):
    """what an old flow record says about the exchange, read with the field names of its own format version
    (independent of compat.py): the part of the flow that every format version can express"""
    typ = _s(_g(st, "type"))
    v = {"type": typ, "id": _s(_g(st, "id"))}
    if typ == "http":
        rq = _g(st, "request")
        hv = rq.get(b"httpversion", rq.get("httpversion"))
        v["request"] = dict(method=_g(rq, "method"), scheme=_g(rq, "scheme"), host=_s(_g(rq, "host")), port=_g(rq, "port"), path=_g(rq, "path"),
                            headers=[[bytes(a), bytes(b_)] for a, b_ in _g(rq, "headers")], content=_g(rq, "content", "body"),
                            http_version=_g(rq, "http_version") if hv is None else b"HTTP/%d.%d" % tuple(hv))
        rs = _g(st, "response")
        if rs is not None:
            v["response"] = dict(status_code=_g(rs, "status_code", "code"), reason=_g(rs, "reason", "msg"), content=_g(rs, "content", "body"),
                                 headers=[[bytes(a), bytes(b_)] for a, b_ in _g(rs, "headers")])
        else:
            v["response"] = None
    elif typ == "websocket":
        v["messages"] = [[m[0], m[1], _bts(m[2])] for m in _g(st, "messages")]
        v["close_code"] = _g(st, "close_code")
    elif typ in ("tcp", "udp"):
        v["messages"] = [[m[0], m[1]] for m in _g(st, "messages")]
    err = _g(st, "error")
    v["error"] = None if err is None else _s(_g(err, "msg"))
    return v


def new_view(f, as_type):
    """the same facts read from a loaded current flow object"""
    st = norm(f.get_state())
    v = {"type": as_type, "id": f.id}
    if as_type == "http":
        rq = st["request"]
        v["request"] = {k: rq[k] for k in ("method", "scheme", "host", "port", "path", "headers", "content", "http_version")}
        rs = st["response"]
        v["response"] = None if rs is None else {k: rs[k] for k in ("status_code", "reason", "content", "headers")}
    elif as_type == "websocket":
        ws = st["websocket"] or {"messages": [], "close_code": None}
        v["messages"] = [[m[0], m[1], _bts(m[2])] for m in ws["messages"]]
        v["close_code"] = ws["close_code"]
    else:
        v["messages"] = [[m[0], m[1]] for m in st["messages"]]
    v["error"] = None if st["error"] is None else st["error"]["msg"]
    return v


def _records(raw):
    import io
    from mitmproxy.io import tnetstring
    fo = io.BytesIO(raw)
    out = []
    while fo.tell() < len(raw):
        out.append(tnetstring.load(fo))
    return out


def _ver(st):
    v = st.get(b"version", st.get("version"))
    return v if isinstance(v, int) else tuple(v)[:2]


def shipped_dumps():
    import glob
    import os
    root = os.path.join(os.environ.get("PYVC_REPO", "/repo"), "test", "mitmproxy", "data")
    return sorted(glob.glob(os.path.join(root, "*.mitm")) + glob.glob(os.path.join(root, "flows", "*.mitm")))


def _check_loaded(b, prefix, inp, flows):
    """validity of loaded flows + save/load fixpoint; returns the normalised states"""
    from mitmproxy import flow as mflow
    states = []
    for i, f in enumerate(flows):
        st = norm(f.get_state())
        states.append(st)
        if not isinstance(f, mflow.Flow):
            b.fail(prefix + ".valid_current_flow", inp, f"flow {i}: not a Flow: {f!r}")
        probs = schema_problems(st)
        kf1 = [p for p in probs if _is_kf1(p)]
        rest = [p for p in probs if not _is_kf1(p)]
        if kf1:
            b.fail(prefix + ".valid_current_flow/ws_text_payload_is_str[KF-C38-1]", inp, f"flow {i} ({f.id}): {kf1[:3]}")
        if rest:
            b.fail(prefix + ".valid_current_flow", inp, f"flow {i} ({f.id}): {rest[:6]}")
    raw2 = _write(flows)
    again, exc = _read(raw2)
    if exc is not None or len(again) != len(flows):
        b.fail(prefix + ".resave_reload_same_state", inp, f"re-loading the re-saved flows: {exc!r}, {len(again)} of {len(flows)} flows")
    else:
        for i, (st, g) in enumerate(zip(states, again)):
            d = diff_states(st, norm(g.get_state()))
            if d:
                b.fail(prefix + ".resave_reload_same_state", inp, f"flow {i}: {d[:5]}")
        third, exc3 = _read(_write(again))  # (bytes may differ in dict key order; the *state* must be a fixpoint)
        if exc3 is not None or [norm(g.get_state()) for g in third] != states:
            b.fail(prefix + ".resave_is_fixpoint", inp, f"third generation differs: {exc3!r}")
    return states


def _t2_dumps(b):
    import os
    from mitmproxy import exceptions
    for path in shipped_dumps():
        name = os.path.basename(path)
        raw = open(path, "rb").read()
        recs = _records(raw)
        vers = [_ver(r) for r in recs]
        inp = {"dump": name, "versions": [str(v) for v in vers]}
        flows, exc = _read(raw)
        supported = all(v in B.ORDER for v in vers)
        b.case(("dump", name), nontrivial=True)
        if not supported:
            # written by a version outside the supported history (0.10): must be refused cleanly, naming the version
            bad = next(v for v in vers if v not in B.ORDER)
            if not isinstance(exc, exceptions.FlowReadException) or "version" not in str(exc) or str(bad) not in str(exc):
                b.fail("dump.unsupported_version_refused", inp, f"got {exc!r}")
            continue
        if exc is not None:
            b.fail("dump.loads", inp, f"raised {type(exc).__name__}: {exc} (cause {exc.__cause__!r})")
            continue
        if len(flows) != len(recs):
            b.fail("dump.every_record_yields_a_flow", inp, f"{len(recs)} records, {len(flows)} flows")
            continue
        _check_loaded(b, "dump", inp, flows)
        for i, (r, f) in enumerate(zip(recs, flows)):
            ov = old_view(r)
            nv = new_view(f, ov["type"])
            d = diff_states(norm(ov), nv)
            if ov["type"] == "websocket":
                # format <= 11: the websocket record is merged into (a copy of) its handshake flow, whose id it takes
                d = [x for x in d if x[0] != "/id"]
            if d:
                b.fail("dump.content_preserved", dict(inp, record=i), f"{d[:5]}")


# ---- synthetic old-shape states -------------------------------------------------------------------------------------

def _set(path, value):
    def edit(st):
        d = st
        for k in path[:-1]:
            d = d[k]
        d[path[-1]] = value
    return edit


def _both(*fs):
    def edit(st):
        for f in fs:
            f(st)
    return edit


_PEMS = []


def _pem(i):
    """two real certificates (canonical PEM), taken from the shipped dumps"""
    if not _PEMS:
        import os
        from mitmproxy import certs
        root = os.path.join(os.environ.get("PYVC_REPO", "/repo"), "test", "mitmproxy", "data")
        r18 = _records(open(os.path.join(root, "dumpfile-018.mitm"), "rb").read())[0]
        r19 = _records(open(os.path.join(root, "dumpfile-019.mitm"), "rb").read())[0]
        for pem in (r18["server_conn"]["cert"], r19["client_conn"]["mitmcert"]):
            _PEMS.append(certs.Cert.from_pem(pem).to_pem())
    return _PEMS[i]


# variants of the *current* state (name, applies to kinds, first version that can represent it, edit)
CUR_VARIANTS = [
    ("plain", None, (0, 11), lambda st: None),
    ("marked", None, (0, 18), _set(("marked",), ":default:")),
    ("replay_request", ("http", "http_noresp"), (0, 11), _set(("is_replay",), "request")),
    ("replay_response", ("http",), (0, 11), _set(("is_replay",), "response")),
    ("intercepted", None, (0, 11), _set(("intercepted",), True)),
    ("h2_tls", ("http", "http_ws"), (0, 19), _both(_set(("client_conn", "alpn"), b"h2"), _set(("client_conn", "alpn_offers"), [b"h2"]), _set(("server_conn", "alpn"), b"h2"),
                                                  _set(("server_conn", "alpn_offers"), [b"h2"]), _set(("client_conn", "tls"), True), _set(("server_conn", "tls"), True),
                                                  _set(("request", "http_version"), b"HTTP/2.0"), _set(("client_conn", "cipher_list"), ["cipher"]))),
    ("http10", ("http",), (0, 11), _both(_set(("request", "http_version"), b"HTTP/1.0"), _set(("response", "http_version"), b"HTTP/1.0"))),
    ("certs", ("http", "tcp"), (0, 11), lambda st: (_set(("client_conn", "certificate_list"), [_pem(1)])(st), _set(("server_conn", "certificate_list"), [_pem(0)])(st))),
    ("mitmcert", ("http",), (3, 0), lambda st: _set(("client_conn", "mitmcert"), _pem(1))(st)),
    ("quic", ("http", "udp"), (3, 0), _both(_set(("client_conn", "tls_version"), "QUICv1"), _set(("server_conn", "tls_version"), "QUICv1"))),
    ("metadata_comment", None, 14, _both(_set(("metadata",), {"k": "v", "n": 1}), _set(("comment",), "a comment"))),
    ("binary_bodies", ("http",), (0, 11), _both(_set(("request", "content"), bytes(range(256))), _set(("response", "content"), b"\x00\xff" * 50))),
    ("no_bodies", ("http",), (0, 11), _both(_set(("request", "content"), None), _set(("response", "content"), None))),
    ("error_and_response", ("http",), (0, 11), _set(("error",), {"msg": "späte störung", "timestamp": 946681207.5})),
    ("closed_conn_times", None, (0, 11), _both(_set(("client_conn", "timestamp_end"), None), _set(("server_conn", "timestamp_end"), None), _set(("server_conn", "timestamp_tls_setup"), None))),
]


def _old_variants(v):
    """edits made on the OLD state (shapes that only existed in old files) with the matching edit of the expected state"""
    r = B.rank(v)
    out = []
    if r <= B.rank(18):
        out.append(("with_transport_protocol", None, dict(with_transport_protocol=True), None, None))
    if B.rank((2, 0)) <= r <= B.rank(18):
        def old_bytes_host(o):
            for a in (o["client_conn"]["address"], o["server_conn"]["address"], o["server_conn"]["source_address"], o["server_conn"]["ip_address"]):
                if a:
                    a[0] = a[0].encode()
        out.append(("bytes_host_names", None, {}, old_bytes_host, None))
    if B.rank(11) <= r <= B.rank(18):
        def sni_true(o):
            o["server_conn"]["sni"] = True
        out.append(("server_sni_true", None, {}, sni_true, lambda e: e["server_conn"].__setitem__("sni", e["server_conn"]["address"][0])))
    if B.rank((0, 18)) <= r <= B.rank(18):
        def no_client_start(o):
            o["client_conn"]["timestamp_start"] = None
        def exp_(e):
            e["client_conn"]["timestamp_start"] = 0.0
        out.append(("client_without_timestamp_start", ("http", "http_noresp", "http_err"), {}, no_client_start, exp_))  # as in the shipped dumpfile-10
    if B.rank((0, 18)) <= r <= B.rank(13):
        def no_resp_ts(o):
            o["response"]["timestamp_start"] = None
            o["response"]["timestamp_end"] = None
        def exp2(e):
            e["response"]["timestamp_start"] = e["request"]["timestamp_end"]
            e["response"]["timestamp_end"] = e["request"]["timestamp_end"] + 1
        out.append(("response_without_timestamps", ("http",), {}, no_resp_ts, exp2))

        def no_resp_start(o):            # the issue-4576 shape proper: only the start is missing
            o["response"]["timestamp_start"] = None
        out.append(("response_without_timestamp_start", ("http",), {}, no_resp_start, exp2))

        def no_resp_end(o):              # unfinished response: start known, end missing -> carried over unchanged
            o["response"]["timestamp_end"] = None
        out.append(("response_without_timestamp_end", ("http",), {}, no_resp_end, lambda e: e["response"].__setitem__("timestamp_end", None)))
    if v in ((0, 14), (0, 15)):
        out.append(("request_body_key", ("http", "http_noresp"), dict(request_body=True), None, None))
    if r <= B.rank(10) and r >= B.rank(10):
        def none_offers(o):
            for c in (o["client_conn"], o["server_conn"]):
                c["alpn_offers"] = c["alpn_offers"] or None
                c["cipher_list"] = c["cipher_list"] or None
        out.append(("offers_none", None, {}, none_offers, None))
    return out


def _classify_load_failure(kind, v):
    """check-name suffix of a recorded finding class, or None"""
    if kind in ("http_noresp", "http_err") and B.rank(v) <= B.rank((0, 15)):
        return "KF-C38-2"
    if kind in ("tcp", "tcp_err") and B.rank(v) <= B.rank(11):
        return "KF-C38-3"
    return None


def _t2_synthetic(b, tier):
    import copy
    from mitmproxy.io import tnetstring, compat
    from mitmproxy import flow as mflow, exceptions
    kinds = list(KINDS)
    for kind in kinds:
        base0 = base_state(kind)
        for vname, vkinds, vfirst, vedit in CUR_VARIANTS:
            if vkinds is not None and kind not in vkinds:
                continue
            if tier == "quick" and kind not in ("http", "tcp", "http_ws") and vname != "plain":
                continue
            base = copy.deepcopy(base0)
            vedit(base)
            for v in B.ORDER[:-1]:
                if B.rank(v) < max(B.rank(FIRST[kind]), B.rank(vfirst)):
                    continue
                olds = [("", None, {}, None, None)] + (_old_variants(v) if vname == "plain" else [])
                for oname, okinds, opts, oedit, eedit in olds:
                    if okinds is not None and kind not in okinds:
                        continue
                    inp = {"kind": kind, "variant": vname + ("+" + oname if oname else ""), "from_version": str(v)}
                    b.case((kind, vname, oname, str(v)), nontrivial=True)
                    ws_pair = kind == "http_ws" and B.rank(v) <= B.rank(11)
                    expected = B.expected_after(base, v, **opts)
                    if eedit:
                        eedit(expected)
                    if ws_pair:
                        olds_ = list(B.split_websocket(base, v))
                    else:
                        olds_ = [B.to_version(base, v, **opts)]
                    if oedit:
                        for o in olds_:
                            oedit(o)
                    # (a) the chain alone: migrate_flow + from_state
                    kf = _classify_load_failure(kind, v)
                    raw = b"".join(tnetstring.dumps(o) for o in olds_)
                    flows, exc = _read(raw)
                    if exc is not None:
                        name = "synthetic.loads" + (f"[{kf}]" if kf else "")
                        if not isinstance(exc, exceptions.FlowReadException):
                            name = "synthetic.loads/escaping_exception" + (f"[{kf}]" if kf else "")
                        b.fail(name, inp, f"raised {type(exc).__name__}: {exc} (cause {exc.__cause__!r})")
                        continue
                    if len(flows) != len(olds_):
                        b.fail("synthetic.every_record_yields_a_flow", inp, f"{len(olds_)} records, {len(flows)} flows")
                        continue
                    states = _check_loaded(b, "synthetic", inp, flows)
                    if ws_pair:
                        e1 = copy.deepcopy(expected)
                        e1["websocket"] = None
                        e1["metadata"] = dict(e1["metadata"], websocket=True)
                        e2 = copy.deepcopy(expected)
                        e2["metadata"] = dict(e2["metadata"], websocket=True, duplicated=B.ANY_ID)
                        # "websocket" records had no end timestamp of their own: the server connection's end is used
                        e2["websocket"]["timestamp_end"] = e2["server_conn"]["timestamp_end"]
                        exps = [e1, e2]
                    else:
                        exps = [expected]
                    for i, (e, st) in enumerate(zip(exps, states)):
                        d = diff_states(e, st)
                        kf1 = [x for x in d if x[0].startswith("/websocket/messages[") and x[0].endswith("[2]") and isinstance(x[2], str) and x[1] == x[2].encode()]
                        d = [x for x in d if x not in kf1]
                        if kf1:
                            b.fail("synthetic.migrated_state/ws_text_payload_is_str[KF-C38-1]", inp, f"flow {i}: {kf1[:3]}")
                        if d:
                            b.fail("synthetic.migrated_state", inp, f"flow {i}: (path, expected, got) {d[:6]}")
                    # (b) migrate_flow on the in-memory state does the same as via the file
                    if not ws_pair:
                        try:
                            st2 = norm(mflow.Flow.from_state(compat.migrate_flow(copy.deepcopy(olds_[0]))).get_state())
                            d = diff_states(states[0], st2)
                            d = [x for x in d if not (x[0].endswith("/id") and B.rank(v) < B.rank(5))]
                            if d:
                                b.fail("synthetic.file_and_memory_agree", inp, f"{d[:5]}")
                        except Exception as e:  # noqa: BLE001
                            b.fail("synthetic.file_and_memory_agree", inp, f"raised {type(e).__name__}: {e}")


def _t2_current(b):
    import copy
    from mitmproxy.io import compat
    from mitmproxy import flow as mflow
    for kind in KINDS:
        for vname, vkinds, vfirst, vedit in CUR_VARIANTS:
            if vkinds is not None and kind not in vkinds:
                continue
            st = base_state(kind)
            vedit(st)
            f = mflow.Flow.from_state(copy.deepcopy(st))
            state = f.get_state()
            snapshot = copy.deepcopy(state)
            b.case(("current", kind, vname), nontrivial=True)
            inp = {"kind": kind, "variant": vname, "from_version": "current"}
            r = compat.migrate_flow(state)
            if r is not state or state != snapshot:
                b.fail("current.passes_through_unchanged", inp, f"{diff_states(norm(snapshot), norm(r))[:5]}")
            flows, exc = _read(_write([f]))
            if exc is not None or len(flows) != 1 or diff_states(norm(snapshot), norm(flows[0].get_state())):
                b.fail("current.save_load_same_state", inp, f"{exc!r}")


def _t2_future(b):
    import copy
    from mitmproxy.io import tnetstring
    from mitmproxy import exceptions, version
    cur = _current()
    good = base_state("http")
    futures = list(range(cur + 1, cur + 21)) + [100, 10 ** 6, 2 ** 63]
    for v in futures:
        for position in ("only", "after_valid_flow"):
            st = copy.deepcopy(good)
            st["version"] = v
            st["some_future_field"] = {"x": 1}
            raw = (tnetstring.dumps(good) if position == "after_valid_flow" else b"") + tnetstring.dumps(st)
            flows, exc = _read(raw)
            b.case(("future", v, position), nontrivial=True)
            inp = {"version": v, "position": position}
            if not isinstance(exc, exceptions.FlowReadException):
                b.fail("future.rejected", inp, f"got {exc!r} after {len(flows)} flows")
                continue
            msg = str(exc)
            if str(v) not in msg or "version" not in msg or "update" not in msg or version.VERSION not in msg:
                b.fail("future.error_is_explanatory", inp, msg)
            if len(flows) != (1 if position == "after_valid_flow" else 0):
                b.fail("future.flows_before_are_still_read", inp, f"{len(flows)} flows")
    # versions outside the supported history on the old side: refused as well (no upgrade hint required)
    for v in ([0, 10, 1], [0, 9], [0, 1, 0], [1, 1, 0], [4, 0, 0], 0, 3, -1):
        st = copy.deepcopy(good)
        st["version"] = v
        flows, exc = _read(tnetstring.dumps(st))
        b.case(("unsupported", str(v)), nontrivial=True)
        if not isinstance(exc, exceptions.FlowReadException) or "version" not in str(exc):
            b.fail("unsupported_old_version.rejected", {"version": v}, f"got {exc!r}")


def bounded(tier, seed):
    b = Bounded()
    b.rule = ("(1) every shipped *.mitm dump under test/mitmproxy/data (+flows/): loads through the real FlowReader, one flow per record, each flow's state conforms "
              "to the documented current schema, method/URL parts/headers/bodies/status/messages equal what the old record says (independent per-version field reader), "
              "re-save + re-load gives the same state and the same bytes; (2) synthetic files: current test flows of 9 kinds x state variants rewritten into the shape of "
              "every older format version (props/compat_back.py) x old-shape variants, loaded through the real FlowReader: accepted, state equals the state the format "
              "history prescribes, schema-valid, save/load fixpoint, file path and in-memory migrate_flow agree; (3) current states pass through migrate_flow unchanged; "
              "(4) future versions (and unsupported old ones) are refused with FlowReadException naming versions. distinct = (kind, variant, version); all non-trivial")
    b.bound = "15 shipped dumps; 29 historical versions x 9 flow kinds x <= 15 state variants x <= 6 old-shape variants; 23 future versions x 2 positions"
    b.exhaustive = True
    _t2_dumps(b)
    _t2_synthetic(b, tier)
    _t2_current(b)
    _t2_future(b)
    return b
