"""C38 — flows from older mitmproxy versions load correctly.

Statement: every flow file written by a supported older version (shipped dumps + synthetic states for each historical format
version) loads into valid current flows; current-format states pass through migration unchanged; re-saving migrated flows
and loading them again reproduces the same state; newer, unknown format versions are rejected with an explanatory error.

T1 (machine-checked on the real source):
  * the chain driver `migrate_flow`: current-version state returned unchanged (same object, frame), any newer integer version
    => ValueError whose text names this mitmproxy, the file's version and says "please update mitmproxy", unknown older
    versions (ints < 4, release tuples outside 0.11..3.0) => ValueError;
  * the converter table: exactly the supported history, each version once;
  * one contract per converter `convert_v` (29): on a flow state in the shape of format version v (concrete key structure,
    symbolic payload leaves) the real converter yields the state in the shape of succ(v) — i.e. convert_v is a left inverse
    of the committed inverse shape edit BACK[v] (props/compat_back.py) — and the version entry becomes succ(v)
    (=> the version strictly increases along the chain and no step is skipped);
  * the composition: `migrate_flow` itself run from every historical version on such a state reaches the current version
    with exactly the state the format history prescribes (props/compat_back.expected_after).
  The key structure of the states is concrete (one state per flow kind), so T1 is a proof for those shapes with arbitrary
  payload leaves, not for all dict states: CLAIM stays "other".
T2 (bounded): every shipped dump, synthetic old-shape states per version x flow kind x variant through the real FlowReader,
  schema validity of the loaded flows, save/load fixpoint, future versions.
"""
from pyvc.api import *
from pyvc.core import SV
from props import compat_back as B

CLAIM = "other"
EXPLANATION = ("T1 proves the chain driver (identity on current states, rejection of newer/unknown versions with the explanatory text), "
               "the completeness of the converter table, one left-inverse contract per converter and the composed chain from every "
               "historical version, all on states whose key structure is concrete (one per flow kind; payload leaves symbolic). "
               "That every *file* of a supported version loads (arbitrary state shapes, tnetstring reader, Flow.from_state, "
               "save/load fixpoint) is bounded: T2 over all shipped dumps and synthetic states per version x kind x variant.")
ASSUMPTIONS = [
    "uuid.uuid4(): str() of the result is an arbitrary fresh string (pyvc/libx_compat.py)",
    "str.format is modelled exactly for literal templates with plain {} fields; arguments other than str/int/bool/None/tuples of those render as opaque strings",
    "the old state shapes are those of props/compat_back.py (inverse shape edits written from the format history, cross-checked against the shipped dumps of versions 0.11, 0.18, 7, 10, 11, 18, 20); historical files with other shapes are covered only as far as the shipped dumps go",
    "flow kinds per version: HTTP flows for every version; TCP flows from format 7 (the first version whose converters test for non-HTTP flows); UDP/DNS flows from format 18",
    "bytes.decode / always_str on symbolic payloads are not exercised in T1 (host names, SNI and ids stay concrete); T2 covers them",
    "tnetstring parsing, Flow.from_state and FlowReader/FlowWriter are exercised in T2 only",
]
M = "mitmproxy.io.compat:migrate_flow"
CM = "mitmproxy.io.compat"


def _current():
    from mitmproxy import version
    return version.FLOW_FORMAT_VERSION


def _exc_text(vc, out):
    return out.raised.args[0]


def _istr(vc, v):
    if vc.mode == "native":
        return str(v)
    from pyvc import lib
    return SStr(lib.int_to_str(v.t))


# ---------------------------------------------------------------------------------------------
# the chain driver


@scenario("migrate_flow.current_is_identity", functions=[M])
def s_current(vc):
    key = vc.case("key", ["version", b"version"])
    payload = vc.sym_bytes("payload")
    typ = vc.sym_str("type")
    inner = vc.dict([("content", payload)])
    d = vc.dict([("type", typ), (key, _current()), ("request", inner)])
    out = vc.call(M, d)
    vc.ensure("no_exception", out.ok)
    if not out.ok:
        return
    vc.ensure("same_object", out.result is d)
    items = d.items if vc.mode == "sym" else list(d.items())
    vc.ensure("frame.keys", len(items) == 3)
    vc.ensure("frame.values", items[0][1] is typ or vc.eq(items[0][1], typ))
    vc.ensure("frame.version", vc.eq(items[1][1], _current()))
    vc.ensure("frame.nested", items[2][1] is inner)
    it2 = inner.items if vc.mode == "sym" else list(inner.items())
    vc.ensure("frame.nested_content", len(it2) == 1 and vc.eq(it2[0][1], payload))


@scenario("migrate_flow.newer_rejected", functions=[M])
def s_newer(vc):
    from mitmproxy import version
    key = vc.case("key", ["version", b"version"])
    v = vc.sym_int("v", lo=_current() + 1)
    d = vc.dict([(key, v), ("type", "http")])
    out = vc.call(M, d)
    vc.ensure("raises", not out.ok)
    if out.ok:
        return
    vc.ensure("value_error", out.raised_type() is ValueError)
    msg = _exc_text(vc, out)
    vc.ensure("msg.names_this_mitmproxy", startswith(msg, version.MITMPROXY))
    vc.ensure("msg.names_file_version", contains(msg, "flow format version " + _istr(vc, v)))
    vc.ensure("msg.says_update", contains(msg, "please update mitmproxy"))


@scenario("migrate_flow.unknown_int_rejected", functions=[M])
def s_unknown_int(vc):
    """an integer version that is neither current nor has a converter (anything below 4): rejected, no upgrade hint"""
    v = vc.sym_int("v", hi=3)
    d = vc.dict([("version", v), ("type", "http")])
    out = vc.call(M, d)
    vc.ensure("raises", not out.ok)
    if out.ok:
        return
    vc.ensure("value_error", out.raised_type() is ValueError)
    msg = _exc_text(vc, out)
    vc.ensure("msg.names_file_version", contains(msg, "flow format version " + _istr(vc, v)))
    vc.ensure("msg.no_update_hint", Not(contains(msg, "please update")))


@scenario("migrate_flow.unknown_tuple_rejected", functions=[M])
def s_unknown_tuple(vc):
    """a release-number version (major, minor, patch) outside the supported history 0.11-0.19, 1.0, 2.0, 3.0"""
    a, b_, c = vc.sym_int("major", lo=0), vc.sym_int("minor", lo=0), vc.sym_int("patch", lo=0)
    known = Or(*[And(a == k[0], b_ == k[1]) for k in B.ORDER if isinstance(k, tuple)])
    vc.assume(Not(known))
    d = vc.dict([(b"version", vc.list([a, b_, c])), (b"type", b"http")])
    out = vc.call(M, d)
    vc.ensure("raises", not out.ok)
    if out.ok:
        return
    vc.ensure("value_error", out.raised_type() is ValueError)


@scenario("converters.table", functions=[M])
def s_table(vc):
    """the converter table covers exactly the supported history, which ends at the current format version"""
    from mitmproxy.io import compat
    vc.ensure("history_ends_at_current", B.ORDER[-1] == _current())
    vc.ensure("one_converter_per_old_version", sorted(compat.converters, key=repr) == sorted(B.ORDER[:-1], key=repr))
    vc.ensure("no_converter_for_current", _current() not in compat.converters)
    # driver on the oldest unsupported release (0.10, as in the shipped dumpfile-010.mitm)
    out = vc.call(M, vc.dict([(b"version", vc.list([0, 10, 1]))]))
    vc.ensure("0.10_rejected", (not out.ok) and out.raised_type() is ValueError)


# ---------------------------------------------------------------------------------------------
# one contract per converter: convert_v is a left inverse of the committed inverse shape edit BACK[v] (props/compat_back.py)

FIXED_IDS = {"id": "flow-0001", "client": "client-0001", "server": "server-0001"}
KINDS = {
    "http": lambda t: t.tflow(resp=True), "http_noresp": lambda t: t.tflow(), "http_err": lambda t: t.tflow(err=True),
    "http_ws": lambda t: t.tflow(resp=True, ws=True), "tcp": lambda t: t.ttcpflow(), "tcp_err": lambda t: t.ttcpflow(err=True),
    "udp": lambda t: t.tudpflow(), "dns": lambda t: t.tdnsflow(resp=True), "dns_err": lambda t: t.tdnsflow(err=True),
}
# first format version a flow kind is generated for (see ASSUMPTIONS)
FIRST = {"http": (0, 11), "http_noresp": (0, 11), "http_err": (0, 11), "http_ws": 4, "tcp": 7, "tcp_err": 7, "udp": 18, "dns": 18, "dns_err": 18}


def base_state(kind):
    """deterministic current-format state (lists, not tuples) of a test flow of the given kind"""
    from mitmproxy.test import tflow
    f = KINDS[kind](tflow)
    f.id = FIXED_IDS["id"]
    f.client_conn.id = FIXED_IDS["client"]
    f.server_conn.id = FIXED_IDS["server"]
    return norm(f.get_state())


def norm(o):
    if isinstance(o, dict):
        return {k: norm(v) for k, v in o.items()}
    if isinstance(o, (list, tuple)):
        return [norm(x) for x in o]
    return o


def clone(o):
    """structure copy that shares the (possibly symbolic) leaves"""
    if isinstance(o, dict):
        return {k: clone(v) for k, v in o.items()}
    if isinstance(o, list):
        return [clone(x) for x in o]
    return o


# leaves that become symbolic in the contracts: (parent key, key) -> kind.  Only leaves that no inverse edit inspects
# (they are only carried along / renamed) are listed.
SYM_LEAVES = {
    ("request", "content"): "bytes", ("request", "body"): "bytes", ("request", "path"): "bytes", ("request", "method"): "bytes",
    ("request", "port"): "int",
    ("response", "content"): "bytes", ("response", "body"): "bytes", ("response", "reason"): "bytes", ("response", "msg"): "bytes",
    ("response", "status_code"): "int", ("response", "code"): "int",
    (None, "intercepted"): "bool",
}


def _k2s(k):
    return k.decode() if isinstance(k, bytes) else k


def symbolize(vc, state, leaves=SYM_LEAVES):
    out = clone(state)
    for pk in list(out):
        v = out[pk]
        if isinstance(v, dict):
            for k in list(v):
                kind = leaves.get((_k2s(pk), _k2s(k)))
                if kind and v[k] is not None:
                    v[k] = _sym(vc, kind, f"{_k2s(pk)}.{_k2s(k)}")
        else:
            kind = leaves.get((None, _k2s(pk)))
            if kind and v is not None:
                out[pk] = _sym(vc, kind, _k2s(pk))
    return out


def _sym(vc, kind, name):
    return {"bytes": vc.sym_bytes, "str": vc.sym_str, "bool": vc.sym_bool, "int": lambda n: vc.sym_int(n, lo=0)}[kind](name)


def _conc(k):
    c = k.concrete() if hasattr(k, "concrete") else None
    return c if c is not None else k


def dget(vc, d, key):
    if vc.mode == "native":
        return d[key]
    for k, v in d.items:
        if _conc(k) == key and type(_conc(k)) is type(key):
            return vc.resolve(v)
    raise KeyError(key)


def tree_eq(vc, got, exp, path, out):
    """appends (path, condition) pairs stating got == exp (exp: native dict/list tree with possibly symbolic leaves)"""
    if isinstance(got, SV) and vc.mode == "sym":
        got = vc.resolve(got)
    if isinstance(exp, dict):
        items = None
        if isinstance(got, SDict):
            items = [(_conc(k), v) for k, v in got.items]
        elif isinstance(got, dict):
            items = list(got.items())
        if items is None:
            out.append((path, False))
            return
        gk = [k for k, _ in items]
        if sorted(map(repr, gk)) != sorted(map(repr, exp)):
            out.append(("/<keys>" + path, False))
            return
        for k, v in items:
            tree_eq(vc, v, exp[k], f"{path}/{_k2s(k)}", out)
        return
    if isinstance(exp, list):
        gi = got.items if isinstance(got, (SList, STuple)) else (list(got) if isinstance(got, (list, tuple)) else None)
        if gi is None or len(gi) != len(exp):
            out.append((path + "/<len>", False))
            return
        for i, (g, e) in enumerate(zip(gi, exp)):
            tree_eq(vc, g, e, f"{path}[{i}]", out)
        return
    if exp is None:
        out.append((path, isnone(got)))
    elif isinstance(exp, str) and exp == B.ANY_ID:
        out.append((path, isinstance(got, (SStr, str))))
    else:
        out.append((path, _same_type(vc, got, exp) and vc.eq(got, exp)))


def _same_type(vc, got, exp):
    if vc.mode == "native":
        return type(got) is type(exp) or (isinstance(got, (int, float)) and isinstance(exp, (int, float)) and not isinstance(got, bool) and not isinstance(exp, bool))
    e = lift(exp)
    return got.kind == e.kind or {got.kind, e.kind} <= {"int", "float"}


def _and_mixed(conds):
    if any(x is False for x in conds):
        return False
    rest = [x for x in conds if x is not True]
    return And(*rest) if rest else True


def _version_is(vc, got, v):
    """the version entry, read the way the format defines it (release tuples count by major.minor), equals v"""
    if isinstance(v, tuple):
        items = got.items if isinstance(got, (SList, STuple)) else (list(got) if isinstance(got, (list, tuple)) else None)
        if items is None or len(items) < 2:
            return False
        return _and_mixed([vc.eq(items[0], v[0]), vc.eq(items[1], v[1])])
    return (isinstance(got, SInt) or (isinstance(got, int) and not isinstance(got, bool))) and vc.eq(got, v)


def ensure_tree(vc, name, got, exp, skip=(), kf=None):
    """one obligation per top-level key of the state (plus `<keys>` for the key sets).  kf = (finding id, group, K)."""
    out = []
    if skip:
        exp = {k: v for k, v in exp.items() if k not in skip}
        if vc.mode == "sym":
            got = SDict([(k, v) for k, v in got.items if _conc(k) not in skip])
        else:
            got = {k: v for k, v in got.items() if k not in skip}
    tree_eq(vc, got, exp, "", out)
    groups = {}
    for path, cond in out:
        top = path.split("/")[1].split("[")[0] if "/" in path else ""
        groups.setdefault(top, []).append(cond)
    if "<keys>" not in groups:
        groups["<keys>"] = [True]
    for top, conds in groups.items():
        c = _and_mixed(conds)
        if kf is not None and kf[1] == top:
            vc.ensure_kf(f"{name}/{top}", c, kf[0], kf[2])
        else:
            vc.ensure(f"{name}/{top}", c)


def _conv_name(v):
    from mitmproxy.io import compat
    return CM + ":" + compat.converters[v].__name__


# --- symbolic inputs for the converters that branch on a value: EXTRA[v](vc, kind, old, target) edits both states --------

def _x_20(vc, kind, old, target):  # "QUIC" -> "QUICv1", anything else unchanged
    for c in ("client_conn", "server_conn"):
        t = vc.sym_str(c + ".tls_version")
        old[c]["tls_version"] = t
        target[c]["tls_version"] = If(t == "QUIC", "QUICv1", t) if vc.mode == "sym" else ("QUICv1" if t == "QUIC" else t)


def _x_12(vc, kind, old, target):  # marked: bool -> marker string
    m = vc.sym_bool("marked")
    old["marked"] = m
    target["marked"] = ":default:" if vc.branch(m) else ""


def _x_8(vc, kind, old, target):  # per-message replay flags -> flow-level is_replay
    if "request" not in old:
        return
    rq, rs = vc.sym_bool("request.is_replay"), vc.sym_bool("response.is_replay")
    old["request"]["is_replay"] = rq
    has_resp = old.get("response") is not None
    if has_resp:
        old["response"]["is_replay"] = rs
    if vc.branch(rq):
        target["is_replay"] = "request"
    elif has_resp and vc.branch(rs):
        target["is_replay"] = "response"
    else:
        target["is_replay"] = None


def _x_13(vc, kind, old, target):  # issue 4576: responses saved without timestamps get request.timestamp_end (+1)
    if old.get("response") is None or not vc.case("response_without_timestamps", [False, True]):
        return
    te = vc.sym_int("request.timestamp_end", lo=0)
    old["request"]["timestamp_end"] = te
    target["request"]["timestamp_end"] = te
    old["response"]["timestamp_start"] = None
    old["response"]["timestamp_end"] = None
    target["response"]["timestamp_start"] = te
    target["response"]["timestamp_end"] = te + 1


def _x_9(vc, kind, old, target):  # the negotiated ALPN / cipher become the only known offer
    a = vc.sym_bytes("client.alpn")
    old["client_conn"]["alpn_proto_negotiated"] = a
    target["client_conn"]["alpn_proto_negotiated"] = a
    target["client_conn"]["alpn_offers"] = [a] if vc.branch(len_(a) > 0) else None
    ci = vc.sym_str("client.cipher")
    old["client_conn"]["cipher_name"] = ci
    target["client_conn"]["cipher_name"] = ci
    target["client_conn"]["cipher_list"] = [ci] if vc.branch(len_(ci) > 0) else None
    cert = vc.sym_bytes("server.cert")
    old["server_conn"]["cert"] = cert
    target["server_conn"]["certificate_list"] = [cert] if vc.branch(len_(cert) > 0) else []


def _x_15(vc, kind, old, target):  # timestamp_created = start of the request (HTTP) / of the client connection
    ts = vc.sym_int("timestamp_start", lo=0)
    where = "request" if "request" in old else "client_conn"
    old[where]["timestamp_start"] = ts
    target[where]["timestamp_start"] = ts
    target["timestamp_created"] = ts


EXTRA = {20: _x_20, 12: _x_12, 8: _x_8, 13: _x_13, 9: _x_9, 15: _x_15}

# known findings (see known_findings.d/C38.json)
KF2_STEPS = ((0, 13), (0, 15))   # KF-C38-2: converters that dereference a missing response
KF3_STEP = 11                    # KF-C38-3: "websocket": None added to non-HTTP flows


def _step_target(vc, kind, v):
    """(old state in shape v, expected state in shape succ(v)) with shared symbolic leaves"""
    base = base_state(kind)
    nxt = B.succ(v)
    target = B.to_version(B.expected_after(base, v), nxt)
    if v == (0, 17):
        B.py2_values(target)  # host names / SNI are still byte strings after this step; converted later in the chain
    if v == 9:  # format 10 wrote "no offers" as None (normalised to [] by the next step)
        for c in (target["client_conn"], target["server_conn"]):
            c["alpn_offers"] = c["alpn_offers"] or None
            c["cipher_list"] = c["cipher_list"] or None
    target = symbolize(vc, target)
    old = clone(target)
    B.BACK[v](old)
    old[b"version" if b"type" in old else "version"] = B.version_value(v)
    if v in EXTRA:
        EXTRA[v](vc, kind, old, target)
    return old, target, nxt


STEP_KINDS = ["http", "http_noresp", "http_err", "tcp"]


def _mk_step(v):
    @scenario(f"convert.step[{v}]", functions=[_conv_name(v)])
    def s(vc):
        kinds = [k for k in STEP_KINDS if B.rank(FIRST[k]) <= B.rank(v)]
        kind = vc.case("flow", kinds)
        old, target, nxt = _step_target(vc, kind, v)
        out = vc.call(_conv_name(v), vc.lift(old) if vc.mode == "sym" else old)
        if v in KF2_STEPS:
            vc.ensure_kf("no_exception", out.ok, "KF-C38-2", kind in ("http_noresp", "http_err"))
        else:
            vc.ensure("no_exception", out.ok)
        if not out.ok:
            return
        vkey = b"version" if b"type" in target else "version"
        got_v = dget(vc, out.result, vkey)
        vc.ensure("version.is_successor", _version_is(vc, got_v, nxt))
        ensure_tree(vc, "result", out.result, target, skip=(vkey,), kf=("KF-C38-3", "<keys>", kind == "tcp") if v == KF3_STEP else None)

    return s


for _v in B.ORDER[:-1]:
    _mk_step(_v)


@scenario("convert.step[11].websocket_pair", functions=[CM + ":convert_11_12"])
def s_ws_pair(vc):
    """format <= 11 stored a WebSocket connection as the handshake HTTP flow plus a separate "websocket" flow: the pair
    becomes the handshake flow (no websocket data) and a copy of it that carries the connection's messages and close data"""
    base = base_state("http_ws")
    text = vc.sym_str("text_payload")
    binary = vc.sym_bytes("binary_payload")
    hs, ws = B.split_websocket(base, 11)
    ws["messages"][0][2] = binary
    ws["messages"][1][2] = text          # TEXT message: str in the old files
    exp1 = B.to_version(B.expected_after(base, 11), 12)
    exp1["websocket"] = None
    exp1["metadata"] = {"websocket": True}
    lift_ = (lambda x: vc.lift(x)) if vc.mode == "sym" else (lambda x: x)
    o1 = vc.call(CM + ":convert_11_12", lift_(hs))
    vc.ensure("handshake.no_exception", o1.ok)
    if not o1.ok:
        return
    ensure_tree(vc, "handshake", o1.result, exp1)
    o2 = vc.call(CM + ":convert_11_12", lift_(ws))
    vc.ensure("websocket.no_exception", o2.ok)
    if not o2.ok:
        return
    r = o2.result
    vc.ensure("websocket.is_http_flow", _and_mixed([vc.eq(dget(vc, r, "type"), "http"), vc.eq(dget(vc, r, "id"), base["id"])]))
    wsd = dget(vc, r, "websocket")
    msgs = dget(vc, wsd, "messages")
    msgs = msgs.items if vc.mode == "sym" else msgs
    vc.ensure("websocket.message_count", len(msgs) == 3)
    if len(msgs) != 3:
        return
    m0 = msgs[0].items if vc.mode == "sym" else msgs[0]
    m1 = msgs[1].items if vc.mode == "sym" else msgs[1]
    vc.ensure("websocket.binary_payload_unchanged", _and_mixed([isinstance(m0[2], (SBytes, bytes)), vc.eq(m0[2], binary)]))
    # current flows keep every message payload as bytes (websocket.WebSocketMessage.content: bytes)
    vc.ensure_kf("websocket.text_payload_is_bytes", isinstance(m1[2], (SBytes, bytes)), "KF-C38-1", True)
    vc.ensure("websocket.close_data", _and_mixed([vc.eq(dget(vc, wsd, "close_code"), base["websocket"]["close_code"]), vc.eq(dget(vc, wsd, "close_reason"), base["websocket"]["close_reason"]),
                                                  vc.eq(dget(vc, wsd, "closed_by_client"), base["websocket"]["closed_by_client"])]))
    vc.ensure("websocket.request_kept", vc.eq(dget(vc, dget(vc, r, "request"), "path"), base["request"]["path"]))


# ---------------------------------------------------------------------------------------------
# the composition: migrate_flow from every historical version

CHAIN_KINDS = ["http", "http_noresp", "http_err", "tcp"]


def _mk_chain(v):
    @scenario(f"migrate_flow.chain[{v}]", functions=[M] + [_conv_name(w) for w in B.ORDER[B.rank(v):-1]], max_unroll=40)
    def s(vc):
        kinds = [k for k in CHAIN_KINDS if B.rank(FIRST[k]) <= B.rank(v)]
        kind = vc.case("flow", kinds)
        base = base_state(kind)
        expected = symbolize(vc, B.expected_after(base, v))
        old = clone(expected)
        for w in reversed(B.ORDER[B.rank(v):-1]):
            if w == (0, 17):
                B.py2_values(old)
            B.BACK[w](old)
        old[b"version" if b"type" in old else "version"] = B.version_value(v)
        if B.rank(v) <= B.rank((0, 17)):
            # written under Python 2: migrate_flow leaves request.host a byte string (Request() decodes it: T2)
            expected["request"]["host"] = B._b(expected["request"]["host"])
        kf2 = kind in ("http_noresp", "http_err") and B.rank(v) <= B.rank((0, 15))
        kf3 = kind == "tcp" and B.rank(v) <= B.rank(11)
        out = vc.call(M, vc.lift(old) if vc.mode == "sym" else old)
        if kf2:
            vc.ensure_kf("no_exception", out.ok, "KF-C38-2", True)
        else:
            vc.ensure("no_exception", out.ok)
        if not out.ok:
            return
        vc.ensure("version.is_current", _version_is(vc, dget(vc, out.result, "version"), _current()))
        ensure_tree(vc, "state", out.result, expected, kf=("KF-C38-3", "<keys>", True) if kf3 else None)

    return s


for _v in B.ORDER[:-1]:
    _mk_chain(_v)
