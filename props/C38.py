"""C38 — flows from older mitmproxy versions load correctly (draft)."""
from pyvc.api import *

CLAIM = "exploration"
M = "mitmproxy.io.compat:migrate_flow"


def dget(vc, d, key):
    if vc.mode == "native":
        return d[key]
    for k, v in d.items:
        if vc.eq(k, key) is True or (hasattr(k, "concrete") and k.concrete() == key):
            return v
    raise KeyError(key)


@scenario("migrate_flow.current_is_identity", functions=[M])
def s_current(vc):
    from mitmproxy import version
    payload = vc.sym_bytes("payload")
    d = vc.dict([("version", version.FLOW_FORMAT_VERSION), ("x", payload)])
    out = vc.call(M, d)
    vc.ensure("no_exception", out.ok)
    if not out.ok:
        return
    vc.ensure("same_object", out.result is d)


@scenario("migrate_flow.newer_rejected", functions=[M])
def s_newer(vc):
    from mitmproxy import version
    v = vc.sym_int("v", lo=version.FLOW_FORMAT_VERSION + 1)
    d = vc.dict([("version", v), ("x", 1)])
    out = vc.call(M, d)
    vc.ensure("raises", not out.ok)
    if out.ok:
        return
    vc.ensure("value_error", out.raised_type() is ValueError)
