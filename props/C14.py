"""C14 — TLS interception is byte-transparent after the handshake.

T1: mitmproxy's glue between the proxy core and pyOpenSSL (TLSLayer.receive_data / send_data / tls_interact / receive_close,
TunnelLayer event queueing and command translation), relative to the trusted pyOpenSSL contract "an SSL.Connection is a pair
of in-order byte pipes" (props/tlsstub.py).  T2: the real record layer — in-memory OpenSSL peers around the real
ClientTLSLayer / ServerTLSLayer with the real TlsConfig, payload sizes / record sizes / segmentations / interleavings.
"""
from pyvc.api import *
from props.prelude import *

CLAIM = "other"
EXPLANATION = (
    "T1 proves the glue for all byte strings: every ciphertext segment is handed to OpenSSL exactly once (bio_write iff non-empty), the plaintext chunks recv() returns are "
    "accumulated in order (inductive step contract of the recv loop for any number of chunks, plus an unrolled twin up to 3 chunks) and delivered to the child as one DataReceived after "
    "the pending ciphertext has been flushed, close_notify becomes ConnectionClosed after that data with CAN_READ cleared and is not reported twice, send_data passes the child's bytes to "
    "sendall once and emits everything OpenSSL has pending in order; TunnelLayer queues events during the handshake and replays them once in arrival order (early application data after "
    "them), translates SendData/CloseConnection for the inner connection and passes every other command through unchanged. That OpenSSL's record layer itself is an in-order byte pipe for "
    "real record sizes and segmentations is checked bounded (T2) with real peers on both sides."
)
ASSUMPTIONS = [
    "trusted pyOpenSSL contract (props/tlsstub.py ScriptedSSL/StreamSSL): bio_write/recv and sendall/bio_read are in-order byte pipes; recv ends with WantReadError, ZeroReturnError (close_notify) or SSL.Error; bio_read ends with WantReadError",
    "the child layer (Layer.handle_event) is abstracted to a ghost trace item recording (layer, event), or to a scripted list of commands",
    "recv-loop twin scenarios are unrolled to 3 plaintext chunks / 3 pending ciphertext chunks; the inductive step scenario covers any number of chunks",
]
L = "mitmproxy.proxy.layers.tls"
TU = "mitmproxy.proxy.tunnel:TunnelLayer"


def _cls(ref):
    from pyvc.vc import resolve_ref
    return resolve_ref(ref)[2]


def child_event_summary(vc, self_, event):
    return vc.gen([vc.ghost("child_event", self_, event)])


def _kinds(tr):
    return [("ghost:" + (c.items[0].concrete() if isinstance(c, STuple) else c[0])) if isinstance(c, (STuple, tuple)) else (c.cls.__name__ if isinstance(c, SObj) else type(c).__name__) for c in tr]


def mk_tls_layer(vc, side, ssl, state=None, queue=(), reply_to=None):
    from mitmproxy.connection import ConnectionState
    from mitmproxy.proxy.tunnel import TunnelState
    client = mk_client(vc, tls=True)
    server = mk_server(vc, state=ConnectionState.OPEN, timestamp_start=2.0, sni="example.com", tls=True)
    ctx = mk_context(vc, client, server, mk_options(vc))
    child = vc.new("mitmproxy.proxy.layer:Layer", context=ctx, debug=None, _paused=None, _paused_event_queue=None)
    conn = client if side == "client" else server
    common = dict(context=ctx, conn=conn, tunnel_connection=conn, child_layer=child, tls=ssl, tunnel_state=state if state is not None else TunnelState.OPEN,
                  command_to_reply_to=reply_to, _event_queue=vc.list(list(queue)), debug=None, _paused=None, _paused_event_queue=None)
    if side == "client":
        layer = vc.new(L + ":ClientTLSLayer", recv_buffer=b"" if vc.mode == "sym" else bytearray(), client_hello_parsed=True, server_tls_available=False, **common)
    else:
        layer = vc.new(L + ":ServerTLSLayer", wait_for_clienthello=False, **common)
    vc.summary("mitmproxy.proxy.layer:Layer.handle_event", child_event_summary)
    return layer, conn, (server if side == "client" else client), ctx, child


def cat(chunks, empty=b""):
    r = empty
    for c in chunks:
        r = r + c
    return r


@scenario("receive_data", functions=[L + ":TLSLayer.receive_data", L + ":TLSLayer.tls_interact", TU + ".event_to_child"], max_unroll=6)
def s_receive_data(vc):
    from mitmproxy.connection import ConnectionState
    from props.tlsstub import mk_ssl, WANT, ZERO, ERROR
    side = vc.case("side", ["client", "server"])
    k = vc.case("plaintext_chunks", [0, 1, 2, 3])
    end = vc.case("then", ["want_read", "close_notify", "ssl_error"])
    m = vc.case("pending_ciphertext_chunks", [0, 2])
    data = vc.sym_bytes("data")
    chunks = [vc.sym_bytes(f"p{i}") for i in range(k)]
    pending = [vc.sym_bytes(f"out{i}") for i in range(m)]
    for c in chunks + pending:
        vc.assume(len_(c) > 0)  # recv / bio_read never return an empty chunk
    script = list(chunks) + ([ZERO] if end == "close_notify" else [ERROR] if end == "ssl_error" else [])
    ssl = mk_ssl(vc, plain=script, outbox=pending)
    layer, conn, other, ctx, child = mk_tls_layer(vc, side, ssl)
    out = vc.call(L + ":TLSLayer.receive_data", layer, data)
    vc.ensure("no_exception", out.ok)
    if not out.ok:
        return
    # ciphertext goes to OpenSSL exactly once, unchanged (bio_write rejects b"", so not at all when empty)
    if vc.branch(len_(data) > 0):
        vc.ensure("ciphertext.bio_write_once_unchanged", len(ssl.inbox) == 1 and vc.truthy(ssl.inbox[0] == data))
    else:
        vc.ensure("ciphertext.empty_not_written", len(ssl.inbox) == 0)
    kinds = _kinds(out.trace)
    want = (["Log"] if end == "ssl_error" else []) + ["SendData"] * m + (["ghost:child_event"] if k > 0 else []) + (["ghost:child_event"] if end == "close_notify" else [])
    vc.ensure("trace.flush_then_one_data_event_then_close", kinds == want)
    if kinds != want:
        return
    sends = [c for c in out.trace if is_cmd(c, "SendData")]
    for i, (c, p) in enumerate(zip(sends, pending)):
        vc.ensure(f"flush.pending_ciphertext_in_order[{i}]", And(c.data == p, c.connection is conn))
    evs = [c[2] for c in out.trace if isinstance(c, (STuple, tuple))]
    if k > 0:
        ev = evs[0]
        vc.ensure("plaintext.one_DataReceived_for_inner_connection", isa(ev, _cls("mitmproxy.proxy.events:DataReceived")) and ev.connection is conn)
        vc.ensure("plaintext.all_chunks_in_order_exactly_once", ev.data == cat(chunks))
    if end == "close_notify":
        ev = evs[-1]
        vc.ensure("close_notify.ConnectionClosed_after_data", isa(ev, _cls("mitmproxy.proxy.events:ConnectionClosed")) and ev.connection is conn)
        vc.ensure("close_notify.can_read_cleared", vc.eq(conn.state, ConnectionState.CAN_WRITE))
    else:
        vc.ensure("no_close.state_untouched", vc.eq(conn.state, ConnectionState.OPEN))
    vc.ensure("script_consumed", len(ssl.plain) == 0 and len(ssl.outbox) == 0)


@scenario("receive_data.recv_loop_step", functions=[L + ":TLSLayer.receive_data"])
def s_recv_step(vc):
    """Inductive: one arbitrary iteration of the recv loop, for a plaintext script of any length."""
    if vc.mode == "native":
        return  # natively replayable twin: scenario receive_data
    import z3
    from props.tlsstub import WANT, ZERO, ERROR
    end = vc.case("then", [WANT, ZERO, ERROR])
    plain = vc.sym_seq("plain", "bytes")
    plain.mutable_list = True
    ssl = vc.new("props.tlsstub:StreamSSL", inbox=vc.list([]), plain=plain, end=end, outbox=vc.list([]), sent=vc.list([]), shutdown=0)
    layer, conn, other, ctx, child = mk_tls_layer(vc, "server", ssl)
    st = {"calls": 0}

    def inv(it, env, idx):
        st["calls"] += 1
        if st["calls"] == 2:
            st["acc0"], st["rest0"] = env["plaintext"], SSeq(plain.t, "bytes")
        if st["calls"] == 3:
            # the iteration went round: exactly the first remaining chunk was appended, the rest is untouched
            acc0, rest0 = st["acc0"], st["rest0"]
            it.ex.obligation("step.only_when_a_chunk_is_available", SBool(z3.Length(rest0.t) > 0))
            it.ex.obligation("step.appends_next_chunk_in_order", env["plaintext"] == acc0 + SBytes(rest0.t[0]))
            it.ex.obligation("step.consumes_exactly_that_chunk", SBool(plain.t == z3.SubSeq(rest0.t, 1, z3.Length(rest0.t) - 1)))
            it.ex.obligation("step.close_flag_unset", vc.eq(env["close"], False))
        return vc.eq(env["close"], False)

    def havoc(it, env):
        env["plaintext"] = it.fresh("bytes", "acc")
        plain.t = it.fresh("seq:bytes", "rest").t

    inv.havoc = havoc
    vc.invariant(L + ":TLSLayer.receive_data", 1, inv)
    out = vc.call(L + ":TLSLayer.receive_data", layer, b"")
    if "acc0" not in st:
        return
    vc.ensure("exit.no_exception", out.ok)
    if not out.ok:
        return
    acc0, rest0 = st["acc0"], st["rest0"]
    # the loop was left in the arbitrary iteration: only because the script was exhausted, with nothing appended
    vc.ensure("exit.only_when_script_exhausted", SBool(z3.Length(rest0.t) == 0))
    kinds = _kinds(out.trace)
    evs = [c[2] for c in out.trace if isinstance(c, STuple)]
    if vc.branch(len_(acc0) > 0):
        vc.ensure("exit.accumulated_plaintext_delivered_once_unchanged", len(evs) >= 1 and isa(evs[0], _cls("mitmproxy.proxy.events:DataReceived")) and vc.truthy(evs[0].data == acc0))
        n_data = 1
    else:
        n_data = 0
    vc.ensure("exit.trace", kinds == (["Log"] if end == ERROR else []) + ["ghost:child_event"] * (n_data + (1 if end == ZERO else 0)))
    if end == ZERO:
        vc.ensure("exit.close_after_data", len(evs) == n_data + 1 and isa(evs[-1], _cls("mitmproxy.proxy.events:ConnectionClosed")))


@scenario("send_data", functions=[L + ":TLSLayer.send_data", L + ":TLSLayer.tls_interact"], max_unroll=6)
def s_send_data(vc):
    from OpenSSL import SSL
    from props.tlsstub import mk_ssl
    side = vc.case("side", ["client", "server"])
    m = vc.case("already_pending_ciphertext_chunks", [0, 1, 2])
    peer_gone = vc.case("sendall", ["ok", "zero_return", "syscall_error"])
    # close_notify only closes the peer's sending direction (RFC 8446 §6.1): what the inner layer sends afterwards must still go out
    peer_half_closed = vc.case("peer_close_notify_received_before", [False, True])
    data = vc.sym_bytes("data")
    pending = [vc.sym_bytes(f"out{i}") for i in range(m)]
    exc = None if peer_gone == "ok" else SSL.ZeroReturnError if peer_gone == "zero_return" else SSL.SysCallError
    ssl = mk_ssl(vc, outbox=pending, send_fail=exc, shutdown=SSL.RECEIVED_SHUTDOWN if peer_half_closed else 0)
    layer, conn, other, ctx, child = mk_tls_layer(vc, side, ssl)
    if peer_half_closed:
        from mitmproxy.connection import ConnectionState
        conn.state = ConnectionState.CAN_WRITE  # what receive_data left behind when it delivered the close_notify
    out = vc.call(L + ":TLSLayer.send_data", layer, data)
    vc.ensure("no_exception", out.ok)
    if not out.ok:
        return
    kinds = _kinds(out.trace)
    if peer_gone == "ok":
        # the child's bytes are given to OpenSSL exactly once, unchanged, and everything OpenSSL has pending goes out in order
        vc.ensure("plaintext.sendall_once_unchanged", len(ssl.sent) == 1 and vc.truthy(ssl.sent[0] == data))
        vc.ensure("trace.only_SendData", kinds == ["SendData"] * (m + 1))
        if kinds == ["SendData"] * (m + 1):
            for i, p in enumerate(pending + [data]):
                vc.ensure(f"ciphertext.in_order[{i}]", And(out.trace[i].data == p, out.trace[i].connection is conn))
        vc.ensure("nothing_left_pending", len(ssl.outbox) == 0)
    else:
        vc.ensure("peer_gone.discarded_without_error", kinds == ["SendData"] * m)


@scenario("receive_close", functions=[L + ":TLSLayer.receive_close", TU + ".receive_close"])
def s_receive_close(vc):
    from OpenSSL import SSL
    from props.tlsstub import mk_ssl
    side = vc.case("side", ["client", "server"])
    got_close_notify = vc.case("close_notify_seen_before", [True, False])
    ssl = mk_ssl(vc, shutdown=SSL.RECEIVED_SHUTDOWN if got_close_notify else 0)
    layer, conn, other, ctx, child = mk_tls_layer(vc, side, ssl)
    out = vc.call(L + ":TLSLayer.receive_close", layer)
    vc.ensure("no_exception", out.ok)
    if not out.ok:
        return
    kinds = _kinds(out.trace)
    if got_close_notify:
        vc.ensure("close_already_delivered.not_twice", kinds == [])
    else:
        vc.ensure("tcp_close.delivered_once", kinds == ["ghost:child_event"])
        if kinds == ["ghost:child_event"]:
            ev = out.trace[0][2]
            vc.ensure("tcp_close.ConnectionClosed_for_inner_connection", isa(ev, _cls("mitmproxy.proxy.events:ConnectionClosed")) and ev.connection is conn)


# ---------------------------------------------------------------------------------------------
# TunnelLayer: events during the handshake are queued and replayed once, in order; command translation


@scenario("tunnel.queue_and_replay", functions=[TU + "._handle_event", TU + "._handshake_finished", TU + ".event_to_child", L + ":TLSLayer.receive_handshake_data", L + ":TLSLayer.receive_data"], max_unroll=6)
def s_queue(vc):
    from mitmproxy.connection import ConnectionState
    from mitmproxy.proxy.tunnel import TunnelState
    from props.tlsstub import mk_ssl
    early = vc.case("application_data_right_after_finished", [False, True])
    p = vc.sym_bytes("early_plaintext")
    vc.assume(len_(p) > 0)
    flight = vc.sym_bytes("last_handshake_flight")
    vc.assume(len_(flight) > 0)
    ssl = mk_ssl(vc, plain=[p] if early else [], outbox=[flight], handshake=["ok"])
    e1 = vc.new("mitmproxy.proxy.events:Start")
    layer, conn, other, ctx, child = mk_tls_layer(vc, "server", ssl, state=TunnelState.ESTABLISHING, queue=[e1])
    # an event for the other connection arrives while the handshake is still running: queued, the child is not called
    d2 = vc.sym_bytes("client_data")
    e2 = vc.new("mitmproxy.proxy.events:DataReceived", connection=other, data=d2)
    o1 = vc.call(TU + "._handle_event", layer, e2)
    vc.ensure("during_handshake.no_exception", o1.ok)
    vc.ensure("during_handshake.child_not_called_nothing_emitted", len(o1.trace) == 0)
    q = layer._event_queue
    vc.ensure("during_handshake.queued_in_arrival_order", len(q) == 2 and q[0] is e1 and q[1] is e2)
    # the last flight of the server arrives: handshake done
    data = vc.sym_bytes("data")
    vc.assume(len_(data) > 0)
    ev = vc.new("mitmproxy.proxy.events:DataReceived", connection=conn, data=data)
    o2 = vc.call(TU + "._handle_event", layer, ev)
    vc.ensure("finish.no_exception", o2.ok)
    if not o2.ok:
        return
    kinds = _kinds(o2.trace)
    want = ["TlsEstablishedServerHook", "SendData"] + ["ghost:child_event"] * (3 if early else 2)
    vc.ensure("finish.trace", kinds == want)
    if kinds != want:
        return
    vc.ensure("finish.ciphertext_to_openssl_once", len(ssl.inbox) == 1 and vc.truthy(ssl.inbox[0] == data))
    vc.ensure("finish.own_flight_sent", And(o2.trace[1].data == flight, o2.trace[1].connection is conn))
    evs = [c[2] for c in o2.trace if isinstance(c, (STuple, tuple))]
    vc.ensure("replay.queued_events_once_in_arrival_order", evs[0] is e1 and evs[1] is e2)
    if early:
        vc.ensure("replay.early_application_data_after_queued_events", isa(evs[2], _cls("mitmproxy.proxy.events:DataReceived")) and evs[2].connection is conn and vc.truthy(evs[2].data == p))
    vc.ensure("replay.queue_cleared", len(layer._event_queue) == 0)
    vc.ensure("tunnel_open", vc.eq(layer.tunnel_state, TunnelState.OPEN))
    # afterwards events go straight through
    e3 = vc.new("mitmproxy.proxy.events:DataReceived", connection=other, data=vc.sym_bytes("later"))
    o3 = vc.call(TU + "._handle_event", layer, e3)
    vc.ensure("after.direct_to_child_once", o3.ok and _kinds(o3.trace) == ["ghost:child_event"] and o3.trace[0][2] is e3)


@scenario("tunnel.commands", functions=[TU + "._handle_command", TU + ".event_to_child", L + ":TLSLayer.send_data", L + ":TLSLayer.send_close", TU + ".send_close"], max_unroll=6)
def s_commands(vc):
    from props.tlsstub import mk_ssl
    side = vc.case("side", ["client", "server"])
    ssl = mk_ssl(vc)
    layer, conn, other, ctx, child = mk_tls_layer(vc, side, ssl)
    d1, d2, d3 = vc.sym_bytes("d1"), vc.sym_bytes("d2"), vc.sym_bytes("d3")
    cmds = [vc.new("mitmproxy.proxy.commands:SendData", connection=conn, data=d1),
            vc.new("mitmproxy.proxy.commands:SendData", connection=other, data=d2),
            vc.new("mitmproxy.proxy.commands:Log", message="x", level=20),
            vc.new("mitmproxy.proxy.commands:SendData", connection=conn, data=d3),
            vc.new("mitmproxy.proxy.commands:CloseConnection", connection=other),
            vc.new("mitmproxy.proxy.commands:CloseConnection", connection=conn)]
    vc.summary("mitmproxy.proxy.layer:Layer.handle_event", lambda v, self_, e: v.gen(cmds))
    ev = vc.new("mitmproxy.proxy.events:DataReceived", connection=other, data=b"x")
    out = vc.call(TU + ".event_to_child", layer, ev)
    vc.ensure("no_exception", out.ok)
    if not out.ok:
        return
    tr = out.trace
    vc.ensure("trace.length", len(tr) == 6)
    if len(tr) != 6:
        return
    vc.ensure("inner.first_send_encrypted_in_order", is_cmd(tr[0], "SendData") and tr[0].connection is conn and vc.truthy(tr[0].data == d1))
    vc.ensure("other.commands_passed_through_unchanged", tr[1] is cmds[1] and tr[2] is cmds[2] and tr[4] is cmds[4])
    vc.ensure("inner.second_send_after_first", is_cmd(tr[3], "SendData") and tr[3].connection is conn and vc.truthy(tr[3].data == d3))
    vc.ensure("inner.plaintext_to_openssl_in_order_once", len(ssl.sent) == 2 and vc.truthy(And(ssl.sent[0] == d1, ssl.sent[1] == d3)))
    vc.ensure("inner.close_passed_for_tunnel_connection", tr[5] is cmds[5] and tr[5].connection is conn)


# =============================================================================================
# T2: real OpenSSL peers on both sides of the real layer stack ServerTLSLayer / ClientTLSLayer / relay


def _segments(data: bytes, how, rnd):
    if not data:
        return []
    if how == "whole":
        return [data]
    if isinstance(how, int):
        return [data[i:i + how] for i in range(0, len(data), how)]
    if how == "cut2":
        if len(data) < 3:
            return [data]
        i, j = sorted(rnd.sample(range(1, len(data)), 2))
        return [data[:i], data[i:j], data[j:]]
    raise ValueError(how)


class ProxyUnderTest:
    """client peer <-> [ServerTLSLayer / ClientTLSLayer / Relay] <-> server peer, all in memory"""

    def __init__(self, ta, tctx, root_file, leaf, leaf_key, rnd, seg="whole", alpn=None):
        from OpenSSL import crypto
        from mitmproxy import connection
        from mitmproxy.proxy import commands, context as pctx, events, layer as Lr
        from mitmproxy.proxy.layers import tls as T
        from props import sansio, tlspeer as P

        self.rnd, self.seg = rnd, seg
        obs = self.obs = dict(from_client=bytearray(), from_server=bytearray(), events=[], open_err="pending")
        outer = self

        class Relay(Lr.Layer):
            pending = b""
            opened = False

            def _handle_event(self, ev):
                c, s = self.context.client, self.context.server
                if isinstance(ev, events.Start):
                    err = yield commands.OpenConnection(s)
                    obs["open_err"] = err
                    self.opened = not err
                    if self.opened and self.pending:
                        yield commands.SendData(s, self.pending)
                        self.pending = b""
                elif isinstance(ev, events.DataReceived):
                    if ev.connection is c:
                        obs["from_client"] += ev.data
                        obs["events"].append(("data", "client", len(ev.data)))
                        if self.opened:
                            yield commands.SendData(s, ev.data)
                        else:
                            self.pending += ev.data
                    else:
                        obs["from_server"] += ev.data
                        obs["events"].append(("data", "server", len(ev.data)))
                        yield commands.SendData(c, ev.data)
                elif isinstance(ev, events.ConnectionClosed):
                    obs["events"].append(("closed", "client" if ev.connection is c else "server", len(obs["from_client"]) if ev.connection is c else len(obs["from_server"])))

        c = connection.Client(peername=("127.0.0.1", 1), sockname=("127.0.0.1", 8080), timestamp_start=1.0, state=connection.ConnectionState.OPEN)
        self.ctx = ctx = pctx.Context(c, tctx.options)
        ctx.server.address = ("www.example.org", 443)
        top = T.ServerTLSLayer(ctx)
        mid = T.ClientTLSLayer(ctx)
        top.child_layer = mid
        mid.child_layer = Relay(ctx)
        self.log = []
        self.d = sansio.Driver(top, hook_policy=P.addon_hook_policy(ta, self.log))
        self.client = P.MemPeer(False, sni=b"www.example.org", ca_pem_file=root_file)
        self.server = P.MemPeer(True, crypto.X509.from_cryptography(leaf), crypto.PKey.from_cryptography_key(leaf_key))
        self.d.start()

    def _deliver(self, conn, data):
        from mitmproxy.connection import ConnectionState
        for seg in _segments(data, self.seg, self.rnd):
            if conn.state & ConnectionState.CAN_READ:
                self.d.data(conn, seg)

    def settle(self, rounds=60):
        """move bytes until nothing is in flight"""
        for _ in range(rounds):
            moved = False
            for conn, peer in ((self.ctx.client, self.client), (self.ctx.server, self.server)):
                out = bytes(self.d.sent[conn.id])
                self.d.sent[conn.id] = bytearray()
                if out:
                    moved = True
                    back = peer.pump(out)
                    if back:
                        self._deliver(conn, back)
            for conn, peer in ((self.ctx.client, self.client), (self.ctx.server, self.server)):
                back = peer.pump()
                if back:
                    moved = True
                    self._deliver(conn, back)
            if not moved:
                return

    def handshake(self, early: bytes = b""):
        """client starts; optionally application data is sent by the client in the same flight as its Finished"""
        hello = self.client.pump()
        self._deliver(self.ctx.client, hello)
        if early:
            # drive the client until its handshake is done, then append application data to that same flight
            for _ in range(20):
                out = bytes(self.d.sent[self.ctx.client.id])
                self.d.sent[self.ctx.client.id] = bytearray()
                if not out:
                    break
                back = self.client.pump(out)
                if self.client.handshake_done:
                    back += self.client.send(early)
                    self._deliver(self.ctx.client, back)
                    break
                if back:
                    self._deliver(self.ctx.client, back)
        self.settle()

    def send(self, who, plaintext, record):
        peer, conn = (self.client, self.ctx.client) if who == "client" else (self.server, self.ctx.server)
        wire = bytearray()
        for i in range(0, len(plaintext), record):
            wire += peer.send(plaintext[i:i + record])
        return conn, bytes(wire)


def bounded(tier, seed):
    import asyncio
    import os
    import random
    import tempfile
    from mitmproxy.addons import tlsconfig
    from mitmproxy.test import taddons
    from props import tlspeer as P
    from props.C15 import _pki

    b = Bounded()
    quick = tier == "quick"
    rnd = random.Random(seed)
    b.rule = ("real OpenSSL client and server peers around the real stack ServerTLSLayer/ClientTLSLayer/relay with the real TlsConfig (leaf certificate generated by mitmproxy and verified by the client peer; "
              "upstream certificate verified by mitmproxy): application payloads of sizes {1, 100, 16384, 16385, 40000} sent in records of {1 (<=300 bytes), 100, 16384} bytes, ciphertext delivered to "
              "mitmproxy whole / in 2 random cuts / in 1-byte (small) or 7- and 1000-byte segments, client->server, server->client and both interleaved, client data in the same flight as Finished, "
              "close_notify from either peer after data, and data sent to a peer after that peer's close_notify (half-close); checked: inner layer and far peer see exactly the sent bytes in order once, close arrives after all data; "
              "distinct = (payload, record, segmentation, schedule); non-trivial = payload > 1 record or segmented")
    b.bound = "payload <= 40000 bytes (thorough: 150000), <= 300 one-byte records, 5 segmentation modes, 8 schedules; quick: 300 combinations (all half-close / interleaved / early-data ones with 2-cut and 7-byte segmentation first)"
    root, shapes = _pki()
    leaf, _, _ = shapes["match"]

    def pattern(n, salt):
        return bytes((i * 7 + salt + (i >> 8)) & 0xFF for i in range(n))

    async def run():
        ta = tlsconfig.TlsConfig()
        with taddons.context(ta) as tctx, tempfile.TemporaryDirectory() as d:
            caf = os.path.join(d, "root.pem")
            open(caf, "wb").write(P.pem(root))
            tctx.configure(ta, confdir=d, ssl_verify_upstream_trusted_ca=caf)
            mitm_ca = os.path.join(d, "mitmproxy-ca-cert.pem")
            sizes = [1, 100, 16384, 16385, 40000]
            records = [1, 100, 16384]
            segs = ["whole", "cut2", 1, 7, 1000]
            schedules = ["c2s", "s2c", "interleaved", "early_c2s", "close_client", "close_server", "halfclose_client_then_s2c", "halfclose_server_then_c2s"]
            cases = [(n, r, sg, sch) for n in sizes for r in records for sg in segs for sch in schedules
                     if not (r == 1 and n > 300) and not (sg == 1 and n > 2000) and not (sg == 7 and n > 20000)]
            if quick:
                rnd.shuffle(cases)
                core = [(n, r, sg, sch) for (n, r, sg, sch) in cases if (sch in ("interleaved", "early_c2s", "close_client", "close_server", "halfclose_client_then_s2c", "halfclose_server_then_c2s") and sg in ("cut2", 7) and r != 1) or (n <= 100 and sg == 1)]
                seen_ = set()
                cases = [c_ for c_ in core + cases if not (c_ in seen_ or seen_.add(c_))][:300]
            else:
                # thorough: larger payloads, and the randomly cut segmentation three times
                cases += [(n, r, sg, sch) for n in (65536, 150000) for r in (100, 16384) for sg in ("whole", "cut2", 1000) for sch in schedules]
                cases += [c_ for c_ in cases if c_[2] == "cut2"] * 2
            for n, r, sg, sch in cases:
                key = (n, r, sg, sch, len(b.distinct))
                inp = {"payload": n, "record": r, "segmentation": sg, "schedule": sch}
                b.case(key, nontrivial=n > r or sg != "whole")
                try:
                    X, Y = pattern(n, 3), pattern(n, 101)
                    put = ProxyUnderTest(ta, tctx, mitm_ca, leaf, P.key("leaf"), rnd, seg=sg)
                    put.handshake(early=X if sch == "early_c2s" else b"")
                    if not (put.client.handshake_done and put.server.handshake_done and put.obs["open_err"] is None):
                        b.fail("tls.both_handshakes_complete", inp, f"client={put.client.handshake_done}/{put.client.error!r} server={put.server.handshake_done}/{put.server.error!r} open_err={put.obs['open_err']!r} log={put.log}")
                        continue
                    sentX = sentY = b""
                    if sch in ("halfclose_client_then_s2c", "halfclose_server_then_c2s"):
                        # the peer sends data and its close_notify (TCP stays open); afterwards the other side's data must still reach it
                        first, second = ("client", "server") if sch == "halfclose_client_then_s2c" else ("server", "client")
                        conn, wire = put.send(first, X if first == "client" else Y, r)
                        peer1 = put.client if first == "client" else put.server
                        put._deliver(conn, wire + peer1.shutdown())
                        put.settle()
                        conn2, wire2 = put.send(second, X if second == "client" else Y, r)
                        put._deliver(conn2, wire2)
                        sentX, sentY = X, Y
                    elif sch in ("c2s", "close_client"):
                        conn, wire = put.send("client", X, r)
                        put._deliver(conn, wire)
                        sentX = X
                    elif sch in ("s2c", "close_server"):
                        conn, wire = put.send("server", Y, r)
                        put._deliver(conn, wire)
                        sentY = Y
                    elif sch == "interleaved":
                        half = max(1, n // 2)
                        for part in (slice(0, half), slice(half, n)):
                            c1, w1 = put.send("client", X[part], r)
                            c2, w2 = put.send("server", Y[part], r)
                            s1, s2 = _segments(w1, sg, rnd), _segments(w2, sg, rnd)
                            for i in range(max(len(s1), len(s2))):
                                if i < len(s1):
                                    put.d.data(c1, s1[i])
                                if i < len(s2):
                                    put.d.data(c2, s2[i])
                            put.settle()
                        sentX, sentY = X, Y
                    else:
                        sentX = X
                    put.settle()
                    if sch == "close_client":
                        put._deliver(put.ctx.client, put.client.shutdown())
                        put.settle()
                    if sch == "close_server":
                        put._deliver(put.ctx.server, put.server.shutdown())
                        put.settle()
                    o = put.obs
                    if bytes(o["from_client"]) != sentX:
                        b.fail("c2s.inner_layer_sees_exact_bytes", inp, f"got {len(o['from_client'])} bytes, first diff at {_first_diff(bytes(o['from_client']), sentX)}")
                    if bytes(put.server.received) != sentX:
                        b.fail("c2s.server_receives_exact_bytes", inp, f"got {len(put.server.received)} bytes, first diff at {_first_diff(bytes(put.server.received), sentX)}")
                    if bytes(o["from_server"]) != sentY:
                        b.fail("s2c.inner_layer_sees_exact_bytes", inp, f"got {len(o['from_server'])} bytes, first diff at {_first_diff(bytes(o['from_server']), sentY)}")
                    if bytes(put.client.received) != sentY:
                        b.fail("s2c.client_receives_exact_bytes", inp, f"got {len(put.client.received)} bytes, first diff at {_first_diff(bytes(put.client.received), sentY)}")
                    if sch in ("close_client", "close_server", "halfclose_client_then_s2c", "halfclose_server_then_c2s"):
                        who = "client" if sch in ("close_client", "halfclose_client_then_s2c") else "server"
                        closes = [e for e in o["events"] if e[0] == "closed" and e[1] == who]
                        total = len(sentX) if who == "client" else len(sentY)
                        if len(closes) != 1:
                            b.fail("close_notify.delivered_once", inp, repr(o["events"][-4:]))
                        elif closes[0][2] != total or (sch.startswith("close_") and o["events"][-1] != closes[0]):
                            b.fail("close_notify.after_all_data", inp, repr(o["events"][-4:]))
                except Exception as e:
                    import traceback
                    b.fail("harness.total", inp, f"{type(e).__name__}: {e} {traceback.format_exc()[-600:]}")

    asyncio.run(run())
    return b


def _first_diff(a, b_):
    for i, (x, y) in enumerate(zip(a, b_)):
        if x != y:
            return i
    return min(len(a), len(b_))
