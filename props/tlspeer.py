"""In-memory TLS peers and certificate factory for the bounded (T2) checks of C14/C15.

* `PKI`: a test CA (+ optional intermediate) and leaf certificates of the shapes the properties quantify over, built with
  `cryptography` (per process, cached: key generation is slow).
* `MemPeer`: a real pyOpenSSL endpoint on memory BIOs (server or client side) — the "in-memory OpenSSL peer".
* `run_server_tls` / `run_client_tls`: the real ServerTLSLayer / ClientTLSLayer (with the real TlsConfig addon answering the
  tls_start_* hooks under the addon manager's exception handling) wired to a MemPeer through the sans-io Driver.
"""
from __future__ import annotations

import datetime
import ipaddress
import os

from cryptography import x509
from cryptography.hazmat.primitives import hashes, serialization
from cryptography.hazmat.primitives.asymmetric import rsa
from cryptography.x509 import NameOID
from OpenSSL import SSL

_KEYS: dict = {}


def key(name):
    """one RSA key per role and process"""
    if name not in _KEYS:
        _KEYS[name] = rsa.generate_private_key(public_exponent=65537, key_size=2048)
    return _KEYS[name]


def _name(cn, org="verif"):
    attrs = []
    if cn is not None:
        attrs.append(x509.NameAttribute(NameOID.COMMON_NAME, cn))
    attrs.append(x509.NameAttribute(NameOID.ORGANIZATION_NAME, org))
    return x509.Name(attrs)


def make_ca(cn, keyname, issuer=None, issuer_key=None, path_length=None):
    k = key(keyname)
    now = datetime.datetime.now(datetime.timezone.utc)
    subject = _name(cn)
    b = (x509.CertificateBuilder().subject_name(subject).issuer_name(issuer.subject if issuer is not None else subject)
         .public_key(k.public_key()).serial_number(x509.random_serial_number())
         .not_valid_before(now - datetime.timedelta(days=3)).not_valid_after(now + datetime.timedelta(days=3650))
         .add_extension(x509.BasicConstraints(ca=True, path_length=path_length), critical=True)
         .add_extension(x509.KeyUsage(digital_signature=False, content_commitment=False, key_encipherment=False, data_encipherment=False, key_agreement=False,
                                      key_cert_sign=True, crl_sign=True, encipher_only=False, decipher_only=False), critical=True)
         .add_extension(x509.SubjectKeyIdentifier.from_public_key(k.public_key()), critical=False))
    if issuer is not None:
        b = b.add_extension(x509.AuthorityKeyIdentifier.from_issuer_public_key(issuer_key.public_key()), critical=False)
    return b.sign(issuer_key if issuer_key is not None else k, hashes.SHA256())


def make_leaf(ca, ca_key, cn, dns=(), ips=(), not_before=None, not_after=None, keyname="leaf", self_signed=False):
    k = key(keyname)
    now = datetime.datetime.now(datetime.timezone.utc)
    subject = _name(cn, "leaf")
    b = (x509.CertificateBuilder().subject_name(subject).issuer_name(subject if self_signed else ca.subject)
         .public_key(k.public_key()).serial_number(x509.random_serial_number())
         .not_valid_before(not_before or now - datetime.timedelta(days=2)).not_valid_after(not_after or now + datetime.timedelta(days=300))
         .add_extension(x509.BasicConstraints(ca=False, path_length=None), critical=True)
         .add_extension(x509.ExtendedKeyUsage([x509.ExtendedKeyUsageOID.SERVER_AUTH]), critical=False))
    names = [x509.DNSName(d) for d in dns] + [x509.IPAddress(ipaddress.ip_address(i)) for i in ips]
    if names:
        b = b.add_extension(x509.SubjectAlternativeName(names), critical=False)
    if not self_signed:
        b = b.add_extension(x509.AuthorityKeyIdentifier.from_issuer_public_key(ca_key.public_key()), critical=False)
    return b.sign(k if self_signed else ca_key, hashes.SHA256())


def pem(cert):
    return cert.public_bytes(serialization.Encoding.PEM)


def key_pem(k):
    return k.private_bytes(serialization.Encoding.PEM, serialization.PrivateFormat.TraditionalOpenSSL, serialization.NoEncryption())


class MemPeer:
    """A real OpenSSL endpoint on memory BIOs."""

    def __init__(self, server_side, cert=None, keyobj=None, chain=(), alpn=None, sni=None, ca_pem_file=None, max_send_fragment=None, dtls=False):
        method = (SSL.DTLS_SERVER_METHOD if server_side else SSL.DTLS_CLIENT_METHOD) if dtls else (SSL.TLS_SERVER_METHOD if server_side else SSL.TLS_CLIENT_METHOD)
        ctx = SSL.Context(method)
        if server_side:
            ctx.use_certificate(cert)
            for c in chain:
                ctx.add_extra_chain_cert(c)
            ctx.use_privatekey(keyobj)
            if alpn:
                ctx.set_alpn_select_callback(lambda conn, offers: alpn if alpn in offers else SSL.NO_OVERLAPPING_PROTOCOLS)
        else:
            if ca_pem_file:
                ctx.load_verify_locations(ca_pem_file)
                ctx.set_verify(SSL.VERIFY_PEER, None)
            if alpn:
                ctx.set_alpn_protos(alpn)
        if max_send_fragment:
            SSL._lib.SSL_CTX_ctrl(ctx._context, 52, max_send_fragment, SSL._ffi.NULL)  # SSL_CTRL_SET_MAX_SEND_FRAGMENT
        self.conn = SSL.Connection(ctx)
        if server_side:
            self.conn.set_accept_state()
        else:
            if sni:
                self.conn.set_tlsext_host_name(sni)
            self.conn.set_connect_state()
        self.handshake_done = False
        self.received = bytearray()
        self.closed = False
        self.error = None

    def pump(self, data: bytes = b"") -> bytes:
        """feed ciphertext, make progress, return ciphertext to send"""
        if data:
            self.conn.bio_write(data)
        if not self.handshake_done and self.error is None:
            try:
                self.conn.do_handshake()
                self.handshake_done = True
            except SSL.WantReadError:
                pass
            except SSL.Error as e:
                self.error = e
        if self.handshake_done:
            while True:
                try:
                    self.received.extend(self.conn.recv(65535))
                except SSL.WantReadError:
                    break
                except SSL.ZeroReturnError:
                    self.closed = True
                    break
                except SSL.Error as e:
                    self.error = e
                    break
        return self.out()

    def out(self) -> bytes:
        out = bytearray()
        while True:
            try:
                out.extend(self.conn.bio_read(65535))
            except SSL.WantReadError:
                break
        return bytes(out)

    def send(self, plaintext: bytes) -> bytes:
        self.conn.sendall(plaintext)
        return self.out()

    def shutdown(self) -> bytes:
        try:
            self.conn.shutdown()
        except SSL.Error:
            pass
        return self.out()


def addon_hook_policy(ta, log=None):
    """answers tls_start_client / tls_start_server with the real TlsConfig addon, the way the addon manager does: an
    exception raised by the addon is logged and swallowed (mitmproxy.addonmanager.safecall), the hook data stays as it is"""
    def pol(hook):
        fn = getattr(ta, hook.name, None)
        if fn is None or hook.name not in ("tls_start_client", "tls_start_server"):
            return
        try:
            fn(hook.data)
        except Exception as e:  # noqa: as addonmanager.safecall
            if log is not None:
                log.append(f"Addon error: {type(e).__name__}: {e}")
    return pol
