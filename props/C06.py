"""C06 — Translating between HTTP versions preserves message semantics.

T1: contracts on the header conversion functions of mitmproxy/proxy/layers/http/_http2.py (shared by _http3.py) and on the
HTTP/2|3 -> HTTP/1 branches of Http1Client.send / Http1Server.send (_http1.py).
T2: whole exchanges through the real HttpLayer between in-memory peers (plain hyper-h2 connections, an independent strict
HTTP/1 reference reader), incl. adversarial HTTP/2 header blocks.
"""
from pyvc.api import *
from props.prelude import *

CLAIM = "other"
EXPLANATION = ("T1 proves the conversion functions against the statement for all byte contents of names/values (block shapes are case-split): "
               "split_pseudo_headers (leading run, duplicates rejected, rest kept in order), parse_h2_request_headers / parse_h2_response_headers "
               "(exactly :method/:scheme/:path[/:authority] resp. :status; duplicate, unknown or missing pseudo-headers => ValueError; method, "
               "scheme, path, authority, status and all regular fields preserved; port default by scheme), format_h2_request_headers / "
               "format_h2_response_headers incl. normalize_h2_headers (pseudo-headers from the request fields, Host -> :authority, values "
               "untouched, names lower-cased exactly when normalising, one log per change), and the HTTP/2|3 -> HTTP/1 branches of "
               "Http1Client.send / Http1Server.send (exact bytes of the emitted head: origin-form line, Host inserted first iff absent, Cookie "
               "fields joined with '; ', status line with a reason phrase, every other field verbatim, the flow's own message untouched). "
               "That adversarial header blocks never reach these functions (`clean_fields`) is a property of hyper-h2/aioquic validation plus "
               "mitmproxy.net.http.validate and is only checked bounded (T2), as is the composition through HttpStream; _http_h3.py is not driven. "
               "Known findings KF-C06-1..6 are excluded by their class predicates and re-witnessed on every run.")
ASSUMPTIONS = [
    "h2.utilities.normalize_outbound_headers (HTTP/1 -> HTTP/2|3 field normalisation: lower-case names, strip value whitespace, remove connection/proxy-connection/keep-alive/transfer-encoding/upgrade, split request cookies) is a trusted library contract: T1 proves that normalize_h1_headers applies it exactly once to the whole list with the direction's flags for every spelling of the names (scenario normalize_h1_headers; the library contract itself is asserted natively on the concrete cases) and which list format_h2_*_headers hand to normalize_h1_headers; T2 sends HTTP/1 messages with hop-by-hop fields in lower/title/upper spelling to HTTP/2|3 peers",
    "url.parse_authority is evaluated by the real function on 16 concrete authorities (C33 covers it); bytes.lower/islower/decode are uninterpreted with the lemmas noted by the engine",
    "Serializable.copy of a message is a structural copy (C40)",
    "header blocks have <= 5 entries with symbolic contents (shapes enumerated); Headers with <= 3 fields",
    "options at their defaults (validate_inbound_headers on): with validation switched off by the user CR/LF injection into HTTP/1 is possible by design and is not claimed",
    "T2 drives HTTP/1.1, HTTP/2 and (client side only) HTTP/3 peers; an HTTP/3 upstream (Http3Client over ServerQuicLayer) is not driven - it uses the same conversion functions (T1)",
]


M2 = "mitmproxy.proxy.layers.http._http2"
M1 = "mitmproxy.proxy.layers.http._http1"


def items_of(vc, x):
    if isinstance(x, (STuple, SList)):
        return list(x.items)
    if isinstance(x, SDict):
        return list(x.items)
    if isinstance(x, dict):
        return list(x.items())
    return list(x)


def hfields(vc, headers):
    """the `fields` tuple of a Headers object (SObj.fields is the engine's own attribute dict, hence the indirection)"""
    return items_of(vc, headers.fields["fields"] if isinstance(headers, SObj) else headers.fields)


def lower_(vc, bts):
    """bytes.lower(): in proof mode the same uninterpreted function the engine uses"""
    if vc.mode == "native" or not is_sym(bts):
        return bts.lower()
    import z3
    from pyvc import lib
    return SBytes(lib.uf("lower", z3.StringSort(), z3.StringSort())(bts.t))


def sym_fields(vc, n, tag="h"):
    return [(vc.sym_bytes(f"{tag}{i}_name", maxlen=24), vc.sym_bytes(f"{tag}{i}_value", maxlen=24)) for i in range(n)]


def mk_headers(vc, fields):
    return vc.new("mitmproxy.http:Headers", fields=tuple((k, v) for k, v in fields))


def fields_eq(vc, got, want):
    """element-wise equality of two field lists of equal concrete length"""
    g, w = items_of(vc, got) if not isinstance(got, list) else got, want
    if len(g) != len(w):
        return False
    conj = []
    for a, b_ in zip(g, w):
        a0, a1 = (a[0], a[1])
        conj.append(And(vc.eq(a0, b_[0]), vc.eq(a1, b_[1])))
    return And(*conj) if conj else True


@scenario("split_pseudo_headers", functions=[M2 + ":split_pseudo_headers"])
def s_split(vc):
    n = vc.case("n", [0, 1, 2, 3])
    hs = sym_fields(vc, n)
    out = vc.call(M2 + ":split_pseudo_headers", vc.list([vc.lift((k, v)) for k, v in hs]) if vc.mode == "sym" else [(k, v) for k, v in hs])
    # independent specification: k = length of the leading run of names starting with ':'
    k = 0
    while k < n and vc.branch(startswith(hs[k][0], b":")):
        k += 1
    dup = False
    for i in range(k):
        for j in range(i):
            if vc.branch(hs[i][0] == hs[j][0]):
                dup = True
    if dup:
        vc.ensure("duplicate_pseudo_header_is_rejected", (not out.ok) and issubclass(out.raised_type(), ValueError))
        return
    vc.ensure("no_exception_without_duplicates", out.ok)
    if not out.ok:
        return
    pseudo, headers = out.result[0], out.result[1]
    pit = items_of(vc, pseudo)
    vc.ensure("pseudo.exactly_the_leading_run", len(pit) == k)
    if len(pit) == k:
        vc.ensure("pseudo.values_in_order", fields_eq(vc, pit, hs[:k]))
    hf = hfields(vc, headers)
    vc.ensure("headers.are_the_rest", len(hf) == n - k)
    if len(hf) == n - k:
        vc.ensure("headers.same_order_and_values", fields_eq(vc, hf, hs[k:]))


AUTHORITIES = [b"", b"a.test", b"a.test:8443", b"A.Test:80", b"[::1]", b"[::1]:8080", b"127.0.0.1:1", b"a b", b"a.test:0", b"a.test:65536",
               b"a.test:", b"user@a.test", b"xn--bcher-kva.test", b"\xff.test", b"a.test:80:80", b"a.test/x"]


def install_parse_authority(vc):
    """url.parse_authority (regex + IDNA; C33's subject) is evaluated by the real function on the concrete authority chosen by
    the scenario's case split (exact); the contract on parse_h2_request_headers only says how its result is used."""
    from mitmproxy.net.http import url
    real = url.parse_authority

    def summ(v, authority, check=None):
        if v.mode == "native":
            return real(authority, check)
        a = authority.concrete()
        if a is None:
            raise Unsupported("parse_authority on a symbolic authority")
        try:
            return v.lift(real(a, True))
        except ValueError:
            v.raise_(ValueError)

    vc.summary("mitmproxy.net.http.url:parse_authority", summ)
    return real


def spec_parse_authority(vc, real, authority):
    try:
        h, p_ = real(authority, True)
        return True, h, p_
    except ValueError:
        return False, None, None


REQ_SHAPES = {
    "standard": [":method", ":scheme", ":path", ":authority"],
    "standard+field": [":method", ":scheme", ":path", ":authority", "field"],
    "permuted": [":path", ":authority", ":scheme", ":method"],
    "no_authority": [":method", ":scheme", ":path", "field"],
    "missing_method": [":scheme", ":path", ":authority"],
    "missing_scheme": [":method", ":path", ":authority"],
    "missing_path": [":method", ":scheme", ":authority"],
    "unknown_pseudo": [":method", ":scheme", ":path", ":foo"],
    "response_pseudo": [":method", ":scheme", ":path", ":status"],
    "duplicate_path": [":method", ":scheme", ":path", ":path"],
    "duplicate_authority": [":method", ":scheme", ":authority", ":path", ":authority"],
    "empty": [],
}


def build_block(vc, names, authority=None):
    blk = []
    for i, nm in enumerate(names):
        if nm == ":authority" and authority is not None:
            blk.append((b":authority", authority))
            continue
        if nm == "field":
            name = vc.sym_bytes(f"f{i}_name", maxlen=16)
            vc.assume(Not(startswith(name, b":")))
        else:
            name = nm.encode()
        blk.append((name, vc.sym_bytes(f"v{i}", maxlen=24)))
    return blk


def as_arg(vc, blk):
    return vc.list([vc.lift((k, v)) for k, v in blk]) if vc.mode == "sym" else [(k, v) for k, v in blk]


@scenario("parse_h2_request_headers", functions=[M2 + ":parse_h2_request_headers", M2 + ":split_pseudo_headers"])
def s_parse_req(vc):
    shape = vc.case("shape", list(REQ_SHAPES))
    names = REQ_SHAPES[shape]
    authority_c = vc.case("authority", AUTHORITIES) if (":authority" in names and shape in ("standard", "permuted")) else (b"a.test:8443" if ":authority" in names else None)
    blk = build_block(vc, names, authority_c)
    real = install_parse_authority(vc)
    out = vc.call(M2 + ":parse_h2_request_headers", as_arg(vc, blk))
    pseudo_names = [n for n in names if n.startswith(":")]
    structurally_bad = (len(set(pseudo_names)) != len(pseudo_names) or any(n not in (":method", ":scheme", ":path", ":authority") for n in pseudo_names)
                        or any(r not in pseudo_names for r in (":method", ":scheme", ":path")))
    if structurally_bad:
        # RFC 9113 8.3/8.3.1: duplicate, unknown or missing mandatory pseudo-header fields => malformed, nothing is produced
        vc.ensure("malformed.rejected_with_value_error", (not out.ok) and issubclass(out.raised_type(), ValueError))
        return
    val = {n: v for (n, (k, v)) in zip(names, blk) if n.startswith(":")}
    authority = val.get(":authority", b"")
    if len(authority) != 0:
        valid, host, port = spec_parse_authority(vc, real, authority)
        if not valid:
            vc.ensure("bad_authority.rejected_with_value_error", (not out.ok) and issubclass(out.raised_type(), ValueError))
            return
    else:
        host, port = "", None
    vc.ensure("wellformed.accepted", out.ok)
    if not out.ok:
        return
    r = out.result
    r_host, r_port, r_method, r_scheme, r_authority, r_path, r_headers = [r[i] for i in range(7)]
    vc.ensure("method_is_pseudo_method", vc.eq(r_method, val[":method"]))
    vc.ensure("scheme_is_pseudo_scheme", vc.eq(r_scheme, val[":scheme"]))
    vc.ensure("path_is_pseudo_path", vc.eq(r_path, val[":path"]))
    vc.ensure("authority_is_pseudo_authority_or_empty", vc.eq(r_authority, authority))
    if len(authority) == 0:
        vc.ensure("no_authority.host_unknown", And(vc.eq(r_host, ""), vc.eq(r_port, 0)))
    else:
        vc.ensure("host_from_authority", vc.eq(r_host, host))
        want_port = port if port is not None else If(val[":scheme"] == b"http", 80, 443)
        vc.ensure("port_from_authority_or_scheme_default", vc.eq(r_port, want_port))
    regular = [(k, v) for (n, (k, v)) in zip(names, blk) if not n.startswith(":")]
    hf = hfields(vc, r_headers)
    vc.ensure("fields.count", len(hf) == len(regular))
    if len(hf) == len(regular):
        vc.ensure("fields.same_order_names_values", fields_eq(vc, hf, regular))


RESP_SHAPES = {
    "standard": [":status"],
    "standard+fields": [":status", "field", "field"],
    "missing_status": ["field"],
    "duplicate_status": [":status", ":status"],
    "unknown_pseudo": [":status", ":foo"],
    "request_pseudo": [":status", ":path"],
    "empty": [],
}


def is_decimal(vc, bts):
    if vc.mode == "native":
        return len(bts) > 0 and all(48 <= c <= 57 for c in bts)
    import z3
    return SBool(z3.InRe(bts.t, z3.Plus(z3.Range("0", "9"))))


def three_digit_status(vc, bts):
    """RFC 9110 15: status-code = 3DIGIT in 100..999"""
    if vc.mode == "native":
        return len(bts) == 3 and all(48 <= c <= 57 for c in bts) and bts[0] != 48
    return And(len_(bts) == 3, is_decimal(vc, bts), code_at(bts, 0) != 48)


def decimal_value(vc, bts):
    if vc.mode == "native":
        return int(bts)
    import z3
    return SInt(z3.StrToInt(bts.t))


@scenario("parse_h2_response_headers", functions=[M2 + ":parse_h2_response_headers", M2 + ":split_pseudo_headers"])
def s_parse_resp(vc):
    shape = vc.case("shape", list(RESP_SHAPES))
    names = RESP_SHAPES[shape]
    blk = build_block(vc, names)
    out = vc.call(M2 + ":parse_h2_response_headers", as_arg(vc, blk))
    pseudo_names = [n for n in names if n.startswith(":")]
    if pseudo_names != [":status"]:
        vc.ensure("malformed.rejected_with_value_error", (not out.ok) and issubclass(out.raised_type(), ValueError))
        return
    status = blk[0][1]
    # RFC 9110 15: status-code = 3DIGIT, 100..999; only such a value can be written as an HTTP/1 status line
    # (any int()-parsable text was accepted before: KF-C06-5, fixed in /repo)
    if vc.branch(three_digit_status(vc, status)):
        vc.ensure("decimal_status.accepted", out.ok)
        if not out.ok:
            return
        vc.ensure("status_code_is_the_decimal_value", vc.eq(out.result[0], decimal_value(vc, status)))
        vc.ensure("status_code_in_range", And(out.result[0] >= 100, out.result[0] <= 999))
        regular = [(k, v) for (n, (k, v)) in zip(names, blk) if not n.startswith(":")]
        hf = hfields(vc, out.result[1])
        vc.ensure("fields.count", len(hf) == len(regular))
        if len(hf) == len(regular):
            vc.ensure("fields.same_order_names_values", fields_eq(vc, hf, regular))
    else:
        vc.ensure("malformed_status.rejected_with_value_error", (not out.ok) and issubclass(out.raised_type(), ValueError))


def mk_request(vc, version, method, scheme, authority, path, fields, host="a.test", port=443):
    data = vc.new("mitmproxy.http:RequestData", host=host, port=port, method=method, scheme=scheme, authority=authority, path=path,
                  http_version=version, headers=mk_headers(vc, fields), content=None, trailers=None, timestamp_start=1.0, timestamp_end=None)
    return vc.new("mitmproxy.http:Request", data=data)


def mk_response(vc, version, status, reason, fields):
    data = vc.new("mitmproxy.http:ResponseData", http_version=version, status_code=status, reason=reason, headers=mk_headers(vc, fields),
                  content=None, trailers=None, timestamp_start=1.0, timestamp_end=None)
    return vc.new("mitmproxy.http:Response", data=data)


def install_normalize_h1(vc):
    """h2.utilities.normalize_outbound_headers (third-party) is abstracted: the result is one opaque marker entry that records
    the argument list and the is_client flag; natively the real function runs (and the spec calls it on the expected input)."""
    from mitmproxy.proxy.layers.http import _http2
    real = _http2.normalize_h1_headers

    def summ(v, headers, is_client):
        if v.mode == "native":
            return real(headers, is_client)
        return v.list([v.ghost("NORMALIZED", headers, is_client)])

    vc.summary(M2 + ":normalize_h1_headers", summ)
    return real


def check_normalized(vc, real, tag, got_tail, want_input, want_is_client):
    """got_tail must be normalize_h1_headers(want_input, want_is_client)"""
    if vc.mode == "native":
        # same obligation names as in proof mode (the conformance check compares which obligations a path reaches)
        ok = list(got_tail) == real(list(want_input), want_is_client)
        vc.ensure(tag + ".normalized_rest", ok)
        if ok:
            vc.ensure(tag + ".normalized_input_is_remaining_fields", ok)
            vc.ensure(tag + ".normalized_direction", ok)
        return
    ok = len(got_tail) == 1 and isinstance(got_tail[0], STuple) and got_tail[0].items[0].concrete() == "NORMALIZED"
    vc.ensure(tag + ".normalized_rest", ok)
    if not ok:
        return
    arg, flag = got_tail[0].items[1], got_tail[0].items[2]
    vc.ensure(tag + ".normalized_input_is_remaining_fields", fields_eq(vc, items_of(vc, arg), want_input))
    vc.ensure(tag + ".normalized_direction", vc.eq(flag, want_is_client))


def same_text(vc, got, raw):
    """`got` (bytes, or the str that Headers hands out = raw decoded as UTF-8 with surrogateescape) denotes the bytes `raw`"""
    if vc.mode == "native":
        return (got.encode("utf-8", "surrogateescape") if isinstance(got, str) else got) == raw
    if isinstance(got, SStr):
        import z3
        from pyvc import lib
        if not is_sym(raw) or lift(raw).concrete() is not None:
            c = lift(raw).concrete()
            return got == c.decode("utf-8", "surrogateescape")
        return got == SStr(lib.uf("decode_utf-8_surrogateescape", z3.StringSort(), z3.StringSort())(raw.t))
    return vc.eq(got, raw)


def islower_(vc, name):
    """bytes.islower(): in proof mode the engine's uninterpreted predicate"""
    if vc.mode == "native" or not is_sym(name):
        return name.islower()
    import z3
    from pyvc import lib
    return SBool(lib.uf("islower", z3.StringSort(), z3.BoolSort())(name.t))


@scenario("format_h2_request_headers", functions=[M2 + ":format_h2_request_headers", M2 + ":normalize_h2_headers"])
def s_format_req(vc):
    version = vc.case("version", [b"HTTP/2.0", b"HTTP/3", b"HTTP/1.1", b"HTTP/1.0"])
    nc = vc.case("n", [0, 1, 2, "mixed"])
    authority = vc.case("authority", [b"", b"a.test:8443"])
    normalize = vc.sym_bool("normalize_outbound_headers")
    method, scheme, path = vc.sym_bytes("method", 12), vc.sym_bytes("scheme", 8), vc.sym_bytes("path", 24)
    fields = sym_fields(vc, nc) if nc != "mixed" else [(b"X-Mixed", b"MiXed Value"), (b"lower", b"UPPER")]
    n = len(fields)
    req = mk_request(vc, version, method, scheme, authority, path, fields)
    ev = vc.new("mitmproxy.proxy.layers.http._events:RequestHeaders", stream_id=1, request=req, end_stream=vc.sym_bool("end_stream"), replay_flow=None)
    ctx = mk_context(vc, options=mk_options(vc, normalize_outbound_headers=normalize))
    real_norm = install_normalize_h1(vc)
    out = vc.call(M2 + ":format_h2_request_headers", ctx, ev)
    vc.ensure("no_exception", out.ok)
    if not out.ok:
        return
    res = items_of(vc, out.result)
    logs = [c for c in out.trace if is_cmd(c, "Log")]
    vc.ensure("only_log_commands", len(logs) == len(out.trace))
    vc.ensure("pseudo.first_three", len(res) >= 3 and fields_eq(vc, res[:3], [(b":method", method), (b":scheme", scheme), (b":path", path)]) is not False)
    if len(res) < 3:
        return
    vc.ensure("pseudo.method_scheme_path", fields_eq(vc, res[:3], [(b":method", method), (b":scheme", scheme), (b":path", path)]))
    k = 3
    is_h23 = version in (b"HTTP/2.0", b"HTTP/3")
    if authority:
        vc.ensure("pseudo.authority_from_request", len(res) > 3 and fields_eq(vc, res[3:4], [(b":authority", authority)]))
        k = 4
    if is_h23:
        rest = res[k:]
        vc.ensure("h2.no_other_pseudo_headers_added", len(rest) == n)
        if len(rest) != n:
            return
        nlog = 0
        for i in range(n):
            nm, val = fields[i]
            low = And(normalize, Not(islower_(vc, nm)))
            tagc = "h2.concrete" if nc == "mixed" else "h2"
            vc.ensure(f"{tagc}.field[{i}].value_unchanged", vc.eq(rest[i][1], val))
            vc.ensure(f"{tagc}.field[{i}].name_lowercased_iff_normalizing", vc.eq(rest[i][0], If(low, lower_(vc, nm), nm)))
            nlog = nlog + If(low, 1, 0)
        vc.ensure("h2.one_log_per_lowercased_name", nlog == len(logs))
        vc.ensure("frame.request_fields_untouched", fields_eq(vc, hfields(vc, req.data.headers), fields))
    else:
        # HTTP/1 -> HTTP/2|3: Host becomes :authority (when the request carries no authority), the other fields are normalised by h2
        hosts = [i for i in range(n) if vc.branch(lower_(vc, fields[i][0]) == b"host")]
        vc.ensure("h1.no_logs", len(logs) == 0)
        if not authority and len(hosts) == 1:
            vc.ensure("h1.host_becomes_authority", And(vc.eq(res[3][0], b":authority"), same_text(vc, res[3][1], fields[hosts[0]][1])) if len(res) > 3 else False)
            check_normalized(vc, real_norm, "h1", res[4:], [f for i, f in enumerate(fields) if i not in hosts], True)
        elif not authority and len(hosts) == 0:
            check_normalized(vc, real_norm, "h1.nohost", res[3:], fields, True)
        elif authority:
            check_normalized(vc, real_norm, "h1.authority", res[4:], fields, True)
        vc.ensure("frame.request_fields_untouched", fields_eq(vc, hfields(vc, req.data.headers), fields))


def decimal_text(vc, n):
    """b'%d' % n"""
    if vc.mode == "native":
        return b"%d" % n
    import z3
    from pyvc import lib
    return SBytes(lib.int_to_str(n.t)) if hasattr(lib, "int_to_str") else SBytes(z3.IntToStr(n.t))


@scenario("format_h2_response_headers", functions=[M2 + ":format_h2_response_headers", M2 + ":normalize_h2_headers"])
def s_format_resp(vc):
    version = vc.case("version", [b"HTTP/2.0", b"HTTP/3", b"HTTP/1.1", b"HTTP/1.0"])
    nc = vc.case("n", [0, 1, 2, "mixed"])
    normalize = vc.sym_bool("normalize_outbound_headers")
    status = vc.sym_int("status", lo=100, hi=999)
    fields = sym_fields(vc, nc) if nc != "mixed" else [(b"X-Mixed", b"MiXed Value"), (b"lower", b"UPPER")]
    n = len(fields)
    resp = mk_response(vc, version, status, vc.sym_bytes("reason", 16), fields)
    ev = vc.new("mitmproxy.proxy.layers.http._events:ResponseHeaders", stream_id=1, response=resp, end_stream=vc.sym_bool("end_stream"))
    ctx = mk_context(vc, options=mk_options(vc, normalize_outbound_headers=normalize))
    real_norm = install_normalize_h1(vc)
    out = vc.call(M2 + ":format_h2_response_headers", ctx, ev)
    vc.ensure("no_exception", out.ok)
    if not out.ok:
        return
    res = items_of(vc, out.result)
    logs = [c for c in out.trace if is_cmd(c, "Log")]
    vc.ensure("only_log_commands", len(logs) == len(out.trace))
    is_h23 = version in (b"HTTP/2.0", b"HTTP/3")
    if is_h23:
        vc.ensure("h2.status_first_then_fields", len(res) == n + 1)
        if len(res) != n + 1:
            return
        vc.ensure("h2.status_is_decimal_status_code", And(vc.eq(res[0][0], b":status"), vc.eq(res[0][1], decimal_text(vc, status))))
        nlog = 0
        for i in range(n):
            nm, val = fields[i]
            low = And(normalize, Not(islower_(vc, nm)))
            tagc = "h2.concrete" if nc == "mixed" else "h2"
            vc.ensure(f"{tagc}.field[{i}].value_unchanged", vc.eq(res[i + 1][1], val))
            vc.ensure(f"{tagc}.field[{i}].name_lowercased_iff_normalizing", vc.eq(res[i + 1][0], If(low, lower_(vc, nm), nm)))
            nlog = nlog + If(low, 1, 0)
        vc.ensure("h2.one_log_per_lowercased_name", nlog == len(logs))
    else:
        vc.ensure("h1.no_logs", len(logs) == 0)
        check_normalized(vc, real_norm, "h1", res, [(b":status", decimal_text(vc, status))] + fields, False)
    vc.ensure("frame.response_fields_untouched", fields_eq(vc, hfields(vc, resp.data.headers), fields))


def install_copy(vc):
    """Serializable.copy (get_state/from_state round trip; C40's subject) is abstracted to a structural copy of a message:
    a new Request/Response with a new data object and a new Headers object holding the same field values."""
    from mitmproxy.coretypes import serializable
    real = serializable.Serializable.copy

    def summ(v, self_):
        if v.mode == "native":
            return real(self_)
        d = self_.data
        nd = SObj(d.cls, dict(d.fields))
        nd.fields["headers"] = SObj(d.headers.cls, {"fields": d.headers.fields["fields"]})
        return SObj(self_.cls, {"data": nd})

    vc.summary("mitmproxy.coretypes.serializable:Serializable.copy", summ)


H1_FIELD_SHAPES = {
    "none": [],
    "plain": [("x-a", None)],
    "two_plain": [("x-a", None), ("X-B", None)],
    "host_present": [("Host", None), ("x-a", None)],
    "host_lowercase": [("host", None)],
    "one_cookie": [("cookie", None)],
    "two_cookies": [("cookie", b"a=1"), ("cookie", b"b=2")],
    "cookies_around_field": [("cookie", b"a=1"), ("x-a", None), ("Cookie", b"b=2; c=3")],
    "length": [("content-length", None)],
    "chunked": [("transfer-encoding", b"chunked")],
}


def shape_fields(vc, shape):
    out = []
    for i, (nm, val) in enumerate(shape):
        out.append((nm.encode(), val if val is not None else vc.sym_bytes(f"v{i}", maxlen=16)))
    return out


def expected_h1_fields(fields, authority):
    """the statement's conversion: Host first iff absent and an authority exists; all Cookie fields joined with '; ' at the
    position of the first one; everything else in order"""
    names = [k.lower() for k, _ in fields]
    out = []
    if b"host" not in names and authority:
        out.append((b"Host", authority))
    cookies = [v for k, v in fields if k.lower() == b"cookie"]
    seen_cookie = False
    for k, v in fields:
        if k.lower() == b"cookie" and len(cookies) > 1:
            if not seen_cookie:
                out.append((k, b"; ".join(cookies)))
                seen_cookie = True
            continue
        out.append((k, v))
    return out


def wire_fields(fields):
    r = b""
    for k, v in fields:
        r = r + k + b": " + v + b"\r\n"
    return r


@scenario("Http1Client.send.request_headers_from_h2_h3", functions=[M1 + ":Http1Client.send"], asserts_are_obligations=True)
def s_h1client_send(vc):
    version = vc.case("version", [b"HTTP/2.0", b"HTTP/3"])
    shape_name = vc.case("fields", list(H1_FIELD_SHAPES))
    authority = vc.case("authority", [b"a.test:8443", b""])
    method = vc.case("method", [b"GET", b"POST", b"delete"])
    path = vc.sym_bytes("path", 24)
    end_stream = vc.sym_bool("end_stream")
    fields = shape_fields(vc, H1_FIELD_SHAPES[shape_name])
    req = mk_request(vc, version, method, b"https", authority, path, fields)
    ev = vc.new("mitmproxy.proxy.layers.http._events:RequestHeaders", stream_id=7, request=req, end_stream=end_stream, replay_flow=None)
    server = mk_server(vc, state=None)
    ctx = mk_context(vc, server=server)
    layer = vc.new(M1 + ":Http1Client", context=ctx, conn=server, debug=None, _paused=None, _paused_event_queue=vc.deque([]))
    install_copy(vc)
    out = vc.call(M1 + ":Http1Client.send", layer, ev)
    vc.ensure("no_exception", out.ok)
    if not out.ok:
        return
    tr = out.trace
    vc.ensure("exactly_one_send_to_the_server_connection", len(tr) == 1 and is_cmd(tr[0], "SendData") and tr[0].connection is server)
    if len(tr) != 1 or not is_cmd(tr[0], "SendData"):
        return
    want_fields = expected_h1_fields(fields, authority)
    want = method + b" " + path + b" HTTP/1.1\r\n" + wire_fields(want_fields) + b"\r\n"
    has_framing = any(k.lower() in (b"content-length", b"transfer-encoding") for k, _ in fields)
    K1 = And(Not(end_stream), not has_framing)  # class of KF-C06-1: a body will follow and nothing in the HTTP/2|3 fields frames it
    vc.ensure("head.is_origin_form_request_with_converted_fields", Implies(Not(K1), vc.eq(tr[0].data, want)))
    vc.ensure("stream_bound", And(vc.eq(layer.stream_id, 7), layer.request is req))
    vc.ensure("frame.flow_request_untouched", And(fields_eq(vc, hfields(vc, req.data.headers), fields), vc.eq(req.data.authority, authority), vc.eq(req.data.http_version, version)))
    # HTTP/2|3 delimit the body by frames; an HTTP/1 request whose head announces no length has no body (RFC 9112 6.3 rule 7):
    # when a body follows, the emitted head must carry a framing field (its own, or one added by the conversion)
    framed = Or(*[contains(tr[0].data, x) for x in (b"\r\ntransfer-encoding: chunked\r\n", b"\r\nTransfer-Encoding: chunked\r\n", b"\r\ncontent-length: ", b"\r\nContent-Length: ")])
    vc.ensure_kf("body_follows_only_after_a_head_that_frames_it", Or(end_stream, framed), "KF-C06-1", K1)


def reason_phrase(status):
    from mitmproxy.net.http import status_codes
    return status_codes.RESPONSES.get(status, "").encode()


@scenario("Http1Server.send.response_headers_from_h2_h3", functions=[M1 + ":Http1Server.send"], asserts_are_obligations=True)
def s_h1server_send(vc):
    version = vc.case("version", [b"HTTP/2.0", b"HTTP/3"])
    shape_name = vc.case("fields", ["none", "plain", "two_plain", "length", "chunked"])
    status = vc.case("status", [200, 204, 404, 599, 299])
    fields = shape_fields(vc, H1_FIELD_SHAPES[shape_name])
    resp = mk_response(vc, version, status, b"", fields)
    ev = vc.new("mitmproxy.proxy.layers.http._events:ResponseHeaders", stream_id=1, response=resp, end_stream=vc.sym_bool("end_stream"))
    client = mk_client(vc)
    ctx = mk_context(vc, client=client)
    layer = vc.new(M1 + ":Http1Server", context=ctx, conn=client, stream_id=1, debug=None, _paused=None, _paused_event_queue=vc.deque([]))
    install_copy(vc)
    out = vc.call(M1 + ":Http1Server.send", layer, ev)
    vc.ensure("no_exception", out.ok)
    if not out.ok:
        return
    tr = out.trace
    vc.ensure("exactly_one_send_to_the_client_connection", len(tr) == 1 and is_cmd(tr[0], "SendData") and tr[0].connection is client)
    if len(tr) != 1 or not is_cmd(tr[0], "SendData"):
        return
    want = b"HTTP/1.1 " + str(status).encode() + b" " + reason_phrase(status) + b"\r\n" + wire_fields(fields) + b"\r\n"
    vc.ensure("head.status_line_and_same_fields", vc.eq(tr[0].data, want))
    vc.ensure("frame.flow_response_untouched", And(fields_eq(vc, hfields(vc, resp.data.headers), fields), vc.eq(resp.data.http_version, version), vc.eq(resp.data.reason, b"")))
    vc.ensure("response_remembered_for_body_framing", layer.response is resp)


@scenario("Http1.send.trailers_from_h2_h3", functions=[M1 + ":Http1Server.send", M1 + ":Http1Client.send"], asserts_are_obligations=True)
def s_h1_trailers(vc):
    side = vc.case("side", ["response_to_h1_client", "request_to_h1_server"])
    trailers = mk_headers(vc, [(b"x-trailer", vc.sym_bytes("tv", 8))])
    client, server = mk_client(vc), mk_server(vc, state=None)
    ctx = mk_context(vc, client=client, server=server)
    if side == "response_to_h1_client":
        req = mk_request(vc, b"HTTP/1.1", b"GET", b"https", b"", b"/", [])
        resp = mk_response(vc, b"HTTP/2.0", 200, b"", [(b"content-length", b"3")])
        layer = vc.new(M1 + ":Http1Server", context=ctx, conn=client, stream_id=1, request=req, response=resp, debug=None, _paused=None, _paused_event_queue=vc.deque([]))
        ev = vc.new("mitmproxy.proxy.layers.http._events:ResponseTrailers", stream_id=1, trailers=trailers)
        out = vc.call(M1 + ":Http1Server.send", layer, ev)
    else:
        req = mk_request(vc, b"HTTP/2.0", b"POST", b"https", b"a.test", b"/", [(b"content-length", b"3")])
        layer = vc.new(M1 + ":Http1Client", context=ctx, conn=server, stream_id=1, request=req, debug=None, _paused=None, _paused_event_queue=vc.deque([]))
        ev = vc.new("mitmproxy.proxy.layers.http._events:RequestTrailers", stream_id=1, trailers=trailers)
        out = vc.call(M1 + ":Http1Client.send", layer, ev)
    # trailers that the HTTP/1 hop cannot carry (no chunked coding) may be dropped, but the message must go on
    vc.ensure("trailers_do_not_abort_the_exchange", out.ok)   # was KF-C06-2
    if out.ok:
        vc.ensure("nothing_but_data_is_sent", all(is_cmd(c, "SendData") for c in out.trace))


M3 = "mitmproxy.proxy.layers.http._http3"


@scenario("Http3.parse_headers", functions=[M3 + ":Http3Server.parse_headers", M3 + ":Http3Client.parse_headers", M2 + ":parse_h2_request_headers", M2 + ":parse_h2_response_headers"])
def s_h3_parse(vc):
    """HTTP/3 uses the HTTP/2 conversion functions: the produced event carries exactly their result, version HTTP/3,
    the stream id and the end-of-stream flag of the aioquic event."""
    side = vc.case("side", ["request", "response"])
    sid = vc.sym_int("stream_id", lo=0)
    ended = vc.sym_bool("stream_ended")
    install_parse_authority(vc)
    if side == "request":
        authority = vc.case("authority", [b"a.test:8443", b"", b"a b"])
        blk = build_block(vc, [":method", ":scheme", ":authority", ":path", "field"] if authority is not None else [], authority)
        layer = vc.new(M3 + ":Http3Server", debug=None)
        ev = vc.new("aioquic.h3.events:HeadersReceived", headers=as_arg(vc, blk), stream_id=sid, stream_ended=ended, push_id=None)
        out = vc.call(M3 + ":Http3Server.parse_headers", layer, ev)
        if authority == b"a b":
            vc.ensure("bad_authority.value_error", (not out.ok) and issubclass(out.raised_type(), ValueError))
            return
        vc.ensure("no_exception", out.ok)
        if not out.ok:
            return
        r = out.result
        vc.ensure("event.kind_stream_end", And(isa(r, _cls("mitmproxy.proxy.layers.http._events:RequestHeaders")), vc.eq(r.stream_id, sid), vc.eq(r.end_stream, ended)))
        d = r.request.data
        vc.ensure("request.version_is_http3", vc.eq(d.http_version, b"HTTP/3"))
        vc.ensure("request.method_scheme_path_authority", And(vc.eq(d.method, blk[0][1]), vc.eq(d.scheme, blk[1][1]), vc.eq(d.authority, authority), vc.eq(d.path, blk[3][1])))
        vc.ensure("request.fields", fields_eq(vc, hfields(vc, d.headers), [blk[4]]))
        vc.ensure("request.no_body_yet", And(isnone(d.content), isnone(d.trailers)))
    else:
        blk = build_block(vc, [":status", "field"])
        vc.assume(is_decimal(vc, blk[0][1]))
        layer = vc.new(M3 + ":Http3Client", debug=None)
        ev = vc.new("aioquic.h3.events:HeadersReceived", headers=as_arg(vc, blk), stream_id=sid, stream_ended=ended, push_id=None)
        out = vc.call(M3 + ":Http3Client.parse_headers", layer, ev)
        if not vc.branch(three_digit_status(vc, blk[0][1])):
            # (the caller, Http3Connection._handle_event, turns ValueError into H3_GENERAL_PROTOCOL_ERROR)
            vc.ensure("bad_status.value_error", (not out.ok) and issubclass(out.raised_type(), ValueError))
            return
        vc.ensure("no_exception", out.ok)
        if not out.ok:
            return
        r = out.result
        vc.ensure("event.kind_stream_end", And(isa(r, _cls("mitmproxy.proxy.layers.http._events:ResponseHeaders")), vc.eq(r.stream_id, sid), vc.eq(r.end_stream, ended)))
        d = r.response.data
        vc.ensure("response.version_is_http3", vc.eq(d.http_version, b"HTTP/3"))
        vc.ensure("response.status", vc.eq(d.status_code, decimal_value(vc, blk[0][1])))
        vc.ensure("response.fields", fields_eq(vc, hfields(vc, d.headers), [blk[1]]))


def _cls(ref):
    from pyvc.vc import resolve_ref
    return resolve_ref(ref)[2]


CONNECTION_SPECIFIC = (b"connection", b"proxy-connection", b"keep-alive", b"transfer-encoding", b"upgrade")

NORM_CASES = {
    "symbolic": None,
    "all_lowercase_with_hop_by_hop": [(b"connection", b"keep-alive, x-drop"), (b"keep-alive", b"timeout=5"), (b"x-a", b"1"), (b"transfer-encoding", b"chunked")],
    "all_lowercase_plain": [(b"x-a", b"1"), (b"accept", b"*/*")],
    "mixed_case_with_hop_by_hop": [(b"Connection", b"close"), (b"X-A", b" 1 "), (b"Proxy-Connection", b"keep-alive"), (b"Upgrade", b"h2c")],
    "cookies": [(b"cookie", b"a=1; b=2"), (b"x-a", b"1")],
    "empty": [],
}


@scenario("normalize_h1_headers", functions=[M2 + ":normalize_h1_headers"])
def s_normalize_h1(vc):
    """HTTP/1 -> HTTP/2|3: *every* field list goes through hyper-h2's outbound normalisation with the flags of the direction,
    whatever the spelling of its names. Trusted hyper-h2 contract (h2.utilities.normalize_outbound_headers, RFC 9113 8.2.1/8.2.2;
    checked natively on the concrete cases below and in T2): names are lower-cased, surrounding whitespace of values is stripped,
    connection-specific fields (connection, proxy-connection, keep-alive, transfer-encoding, upgrade) are removed, a request's
    cookie field may be split into crumbs, everything else is kept in order."""
    import h2.utilities
    case = vc.case("fields", list(NORM_CASES))
    is_client = vc.case("is_client", [True, False])
    fields = sym_fields(vc, 2) if NORM_CASES[case] is None else list(NORM_CASES[case])
    real_h2 = h2.utilities.normalize_outbound_headers
    calls = []

    def h2_normalize(v, headers, flags):
        calls.append((headers, flags))
        if v.mode == "native":
            return real_h2(headers, flags)
        return v.list([v.ghost("H2-NORMALIZED")])

    vc.summary("h2.utilities:normalize_outbound_headers", h2_normalize)
    arg = vc.list([vc.lift(f) for f in fields]) if vc.mode == "sym" else list(fields)
    out = vc.call(M2 + ":normalize_h1_headers", arg, is_client)
    vc.ensure("no_exception", out.ok)
    if not out.ok:
        return
    # (separate obligation names for the concrete field lists: their counter-examples replay on the real code, whereas a model of
    # the symbolic case interprets the uninterpreted islower/lower freely)
    pre = "" if NORM_CASES[case] is None else "concrete."
    vc.ensure(pre + "always_normalised_by_hyper_h2_exactly_once", len(calls) == 1)
    if len(calls) != 1:
        return
    got_arg, flags = calls[0]
    vc.ensure("whole_list_in_order_is_normalised", fields_eq(vc, items_of(vc, got_arg), fields))
    fl = list(flags.fields["_items"].items) if isinstance(flags, SObj) else list(flags)   # (is_client, is_trailer, is_response_header, is_push_promise)
    vc.ensure("flags.direction", And(vc.eq(fl[0], is_client), vc.eq(fl[2], not is_client)))
    vc.ensure("flags.not_trailer_not_push", And(vc.eq(fl[1], False), vc.eq(fl[3], False)))
    res = items_of(vc, out.result)
    if vc.mode == "sym":
        vc.ensure("result_is_the_normalised_list", len(res) == 1 and isinstance(res[0], STuple) and res[0].items[0].concrete() == "H2-NORMALIZED")
    else:
        vc.ensure("result_is_the_normalised_list", res == list(real_h2(list(fields), flags)))
        # the trusted library contract, checked on this concrete input
        names = [k for k, _ in res]
        assert all(k == k.lower() for k in names), res
        assert not any(k in CONNECTION_SPECIFIC for k in names), res
        kept = [(k.lower(), v.strip()) for k, v in fields if k.lower() not in CONNECTION_SPECIFIC and k.lower() != b"cookie"]
        assert [(k, v) for k, v in res if k != b"cookie"] == kept, (res, kept)


# =============================================================================================
# T2 (bounded)

HOP_BY_HOP = {b"connection", b"keep-alive", b"proxy-connection", b"transfer-encoding", b"upgrade", b"te", b"trailer"}


class RefError(Exception):
    pass


class PeerRefused(Exception):
    pass


def ref_read_h1(data: bytes, kind: str, request_methods=None):
    """Strict reference reader for a byte stream of HTTP/1.1 messages (RFC 9112), written independently of mitmproxy:
    returns (messages, leftover). A message is dict(start=(a,b,c), fields=[(name,value)], body=bytes, framing=...).
    Anything a strict recipient must reject raises RefError. kind: 'request' | 'response'."""
    msgs = []
    pos = 0
    n_resp = 0
    while pos < len(data):
        end = data.find(b"\r\n\r\n", pos)
        if end < 0:
            return msgs, data[pos:]
        head = data[pos:end]
        pos = end + 4
        lines = head.split(b"\r\n")
        start = lines[0]
        if any(c in start for c in (b"\r", b"\n", b"\x00")):
            raise RefError(f"control character in start line {start!r}")
        parts = start.split(b" ")
        if kind == "request":
            if len(parts) != 3 or not parts[0] or not parts[1] or parts[2] not in (b"HTTP/1.1", b"HTTP/1.0"):
                raise RefError(f"malformed request line {start!r}")
            if any(c <= 0x20 or c == 0x7F for c in parts[0] + parts[1]):
                raise RefError(f"whitespace/control in request line {start!r}")
            st = (parts[0], parts[1], parts[2])
        else:
            if len(parts) < 2 or parts[0] not in (b"HTTP/1.1", b"HTTP/1.0") or not (len(parts[1]) == 3 and parts[1].isdigit()):
                raise RefError(f"malformed status line {start!r}")
            st = (parts[0], int(parts[1]), b" ".join(parts[2:]))
        fields = []
        for ln in lines[1:]:
            if b":" not in ln:
                raise RefError(f"field line without colon {ln!r}")
            name, value = ln.split(b":", 1)
            if not name or any(c <= 0x20 or c >= 0x7F or c in b"()<>@,;:\\\"/[]?={}" for c in name):
                raise RefError(f"invalid field name {name!r}")
            if any(c in value for c in (b"\r", b"\n", b"\x00")):
                raise RefError(f"control character in field value {value!r}")
            fields.append((name, value.strip(b" \t")))
        low = [(k.lower(), v) for k, v in fields]
        te = [v for k, v in low if k == b"transfer-encoding"]
        cl = [v for k, v in low if k == b"content-length"]
        if te and cl:
            raise RefError("both transfer-encoding and content-length")
        if len(te) > 1 or len(set(cl)) > 1:
            raise RefError("repeated framing fields")
        nobody = False
        if kind == "response":
            method = (request_methods or [b"GET"] * (n_resp + 1))[min(n_resp, len(request_methods or [1]) - 1)] if request_methods else b"GET"
            nobody = method == b"HEAD" or 100 <= st[1] < 200 or st[1] in (204, 304)
            n_resp += 1
        if nobody:
            body, framing = b"", "none"
        elif te:
            if te[0].lower() != b"chunked":
                raise RefError(f"unsupported transfer-encoding {te[0]!r}")
            body = b""
            framing = "chunked"
            while True:
                le = data.find(b"\r\n", pos)
                if le < 0:
                    return msgs, data[end - len(head):]
                size_s = data[pos:le].split(b";")[0]
                if not size_s or any(c not in b"0123456789abcdefABCDEF" for c in size_s):
                    raise RefError(f"bad chunk size {data[pos:le]!r}")
                size = int(size_s, 16)
                pos = le + 2
                if size == 0:
                    # trailer section
                    te_end = data.find(b"\r\n", pos)
                    if data[pos:pos + 2] == b"\r\n":
                        pos += 2
                    else:
                        t_end = data.find(b"\r\n\r\n", pos)
                        if t_end < 0:
                            return msgs, data[end - len(head):]
                        pos = t_end + 4
                    break
                if pos + size + 2 > len(data):
                    return msgs, data[end - len(head):]
                body += data[pos:pos + size]
                if data[pos + size:pos + size + 2] != b"\r\n":
                    raise RefError("chunk not terminated by CRLF")
                pos += size + 2
        elif cl:
            if not cl[0].isdigit():
                raise RefError(f"bad content-length {cl[0]!r}")
            n = int(cl[0])
            if pos + n > len(data):
                return msgs, data[end - len(head):]
            body, framing = data[pos:pos + n], "content-length"
            pos += n
        elif kind == "request":
            body, framing = b"", "none"
        else:
            body, framing = data[pos:], "until-close"
            pos = len(data)
        msgs.append(dict(start=st, fields=fields, body=body, framing=framing))
    return msgs, b""


def canon_fields(fields, drop=()):
    """end-to-end fields as comparable list: names lower-cased, hop-by-hop and `drop` removed, all Cookie fields joined with '; '"""
    out = []
    cookies = []
    for k, v in fields:
        k = k.lower()
        if k in HOP_BY_HOP or k in drop or k.startswith(b":"):
            continue
        if k == b"cookie":
            cookies.append(v)
            continue
        out.append((k, v))
    if cookies:
        out.append((b"cookie", b"; ".join(cookies)))
    return out


class Exchange:
    """one request/response through the real HttpLayer between a client peer (h1|h2) and an upstream peer (h1|h2)"""

    def __init__(self, cproto, sproto, validate=True, normalize=True):
        from mitmproxy.connection import ConnectionState
        from mitmproxy.proxy import mode_specs
        from mitmproxy.proxy.layers import http as H, tls
        from props import sansio
        from props.h2peer import DeferDriver, H2Peer, PassTLS

        self.cproto, self.sproto = cproto, sproto

        class TLS(PassTLS):
            alpn_for = staticmethod(lambda conn: b"h2" if sproto == "h2" else b"http/1.1")

        self._tls_mod, self._orig_tls = tls, tls.ServerTLSLayer
        tls.ServerTLSLayer = TLS
        opts = sansio.make_options(connection_strategy="lazy", validate_inbound_headers=validate, normalize_outbound_headers=normalize)
        self.client = sansio.make_client()
        self.client.tls = True
        self.client.alpn = {"h2": b"h2", "h3": b"h3"}.get(cproto, b"http/1.1")  # (h3: the HTTP layer only looks at the ALPN; upstream stays TCP)
        self.client.proxy_mode = mode_specs.ProxyMode.parse("regular")
        self.ctx = sansio.context_for(opts, self.client)
        self.top = H.HttpLayer(self.ctx, H.HTTPMode.regular)
        self.flows = []

        def hook(h):
            if h.name in ("requestheaders",) and h.flow not in self.flows:
                self.flows.append(h.flow)

        self.drv = DeferDriver(self.top, hook_policy=hook)
        self.drv.start()
        self.cpeer = None
        if cproto == "h2":
            self.cpeer = H2Peer(self.drv, self.client, client_side=True)
            self.cpeer.start()
        elif cproto == "h3":
            from props.h2peer import H3ClientPeer
            self.cpeer = H3ClientPeer(self.drv, self.client)
            self.cpeer.flush()
            self.cpeer.pump()
        self.up_conn = None
        self.up_peer = None
        self.up_bytes = b""
        self.cursor = 0

    def close(self):
        self._tls_mod.ServerTLSLayer = self._orig_tls

    # ---- client side
    def send_request_h1(self, req):
        target = req["scheme"] + b"://" + req["authority"] + req["path"]
        head = req["method"] + b" " + target + b" HTTP/1.1\r\n"
        fields = list(req["headers"])
        if not any(k.lower() == b"host" for k, _ in fields):
            fields.insert(0, (b"Host", req["authority"]))
        head += b"".join(k + b": " + v + b"\r\n" for k, v in fields) + b"\r\n"
        self.drv.data(self.client, head + (req.get("wire_body") if req.get("wire_body") is not None else (req.get("body") or b"")))

    def send_request_h2(self, req, sid=1):
        hdrs = list(req.get("raw_block") or ([(b":method", req["method"]), (b":scheme", req["scheme"]), (b":authority", req["authority"]), (b":path", req["path"])] + list(req["headers"])))
        body, trailers = req.get("body"), req.get("trailers")
        try:
            self.cpeer.h2.send_headers(sid, hdrs, end_stream=not body and not trailers)
            if body:
                self.cpeer.h2.send_data(sid, body, end_stream=not trailers)
            if trailers:
                self.cpeer.h2.send_headers(sid, trailers, end_stream=True)
        except Exception as e:  # the plain h2 peer itself refuses to encode this block
            raise PeerRefused(repr(e))
        self.cpeer.flush()

    def send_request_h3(self, req):
        hdrs = list(req.get("raw_block") or ([(b":method", req["method"]), (b":scheme", req["scheme"]), (b":authority", req["authority"]), (b":path", req["path"])] + list(req["headers"])))
        body, trailers = req.get("body"), req.get("trailers")
        p = self.cpeer
        try:
            sid = p.quic.get_next_available_stream_id()
            p.h3.send_headers(sid, hdrs, end_stream=not body and not trailers)
            if body:
                p.h3.send_data(sid, body, end_stream=not trailers)
            if trailers:
                p.h3.send_headers(sid, trailers, end_stream=True)
        except Exception as e:
            raise PeerRefused(repr(e))
        p.flush()

    # ---- upstream side
    def pump_upstream(self):
        """collect what mitmproxy sent upstream; returns list of new h2 events (h2 upstream) or nothing (h1: bytes in up_bytes)"""
        import h2.events
        from props.h2peer import H2Peer
        new = []
        chunks = self.drv.sent_chunks
        while self.cursor < len(chunks):
            conn, data = chunks[self.cursor]
            self.cursor += 1
            if conn is self.client:
                continue
            if self.up_conn is None:
                self.up_conn = conn
                if self.sproto == "h2":
                    self.up_peer = H2Peer(self.drv, conn, client_side=False)
                    self.up_peer.cursor = self.cursor - 1
                    self.up_peer.h2.initiate_connection()
            if conn is not self.up_conn:
                new.append(("second-upstream-connection", conn))
                continue
            if self.sproto == "h1":
                self.up_bytes += data
        if self.up_peer is not None:
            new += self.up_peer.pump()
            self.up_peer.flush()
        return new

    def respond_h1(self, raw):
        self.drv.data(self.up_conn, raw)

    def respond_h2(self, resp, sid=1):
        hdrs = [(b":status", str(resp["status"]).encode())] + list(resp["headers"])
        body, trailers = resp.get("body"), resp.get("trailers")
        p = self.up_peer
        p.h2.send_headers(sid, hdrs, end_stream=not body and not trailers)
        if body:
            p.h2.send_data(sid, body, end_stream=not trailers)
        if trailers:
            p.h2.send_headers(sid, trailers, end_stream=True)
        p.flush()

    def client_bytes(self):
        return self.drv.bytes_to(self.client)


def h2_message(events, sid, request):
    """assemble (headers, body, trailers, ended, reset) of stream sid from plain hyper-h2 events"""
    import h2.events
    hdrs, body, trailers, ended, reset = None, b"", None, False, None
    for ev in events:
        if isinstance(ev, tuple) or getattr(ev, "stream_id", None) != sid:
            continue
        if isinstance(ev, (h2.events.RequestReceived, h2.events.ResponseReceived)):
            hdrs = list(ev.headers)
        elif isinstance(ev, h2.events.DataReceived):
            body += ev.data
        elif isinstance(ev, h2.events.TrailersReceived):
            trailers = list(ev.headers)
        elif isinstance(ev, h2.events.StreamEnded):
            ended = True
        elif isinstance(ev, h2.events.StreamReset):
            reset = ev.error_code
    return dict(headers=hdrs, body=body, trailers=trailers, ended=ended, reset=reset)


def h3_message(events, sid):
    """assemble the message of QUIC stream sid from plain aioquic H3 events"""
    from aioquic.h3.events import DataReceived, HeadersReceived
    hdrs, body, trailers, ended, reset = None, b"", None, False, None
    for ev in events:
        if isinstance(ev, tuple):
            if ev[0] == "reset" and ev[1] == sid:
                reset = ev[2]
            continue
        if getattr(ev, "stream_id", None) != sid:
            continue
        if isinstance(ev, HeadersReceived):
            if hdrs is None:
                hdrs = list(ev.headers)
            else:
                trailers = list(ev.headers)
            ended = ended or ev.stream_ended
        elif isinstance(ev, DataReceived):
            body += ev.data
            ended = ended or ev.stream_ended
    return dict(headers=hdrs, body=body, trailers=trailers, ended=ended, reset=reset)


def run_exchange(cproto, sproto, req, resp, validate=True, normalize=True):
    """returns dict(up_request=..., client_response=..., problems=[...]) with messages as decoded by the independent peers"""
    import h2.events
    ex = Exchange(cproto, sproto, validate, normalize)
    out = dict(problems=[], up_request=None, client_response=None, up_raw=b"", flows=ex.flows)
    try:
        return _run_exchange(ex, out, cproto, sproto, req, resp)
    except Exception as e:  # an exception escaping the layers = "mitmproxy has crashed" + connection torn down
        import traceback
        out["problems"].append(("crash", f"{type(e).__name__}: {e} @ {traceback.format_exc().strip().splitlines()[-3].strip()}"))
        return out
    finally:
        ex.close()


def _run_exchange(ex, out, cproto, sproto, req, resp):
    import h2.events
    if True:
        if cproto == "h1":
            ex.send_request_h1(req)
        else:
            try:
                ex.send_request_h3(req) if cproto == "h3" else ex.send_request_h2(req)
            except PeerRefused as e:
                out["problems"].append(("peer-refused", str(e)))
                return out
        evs = ex.pump_upstream()
        out["up_events"] = evs
        if any(isinstance(e, tuple) and e[0] == "second-upstream-connection" for e in evs):
            out["problems"].append(("second-upstream-connection", ""))
        if ex.up_conn is not None:
            if sproto == "h1":
                out["up_raw"] = ex.up_bytes
                try:
                    msgs, left = ref_read_h1(ex.up_bytes, "request")
                    out["up_messages"], out["up_leftover"] = msgs, left
                    out["up_request"] = msgs[0] if msgs else None
                except RefError as e:
                    out["problems"].append(("upstream-bytes-rejected-by-reference-reader", str(e)))
                    out["up_messages"], out["up_leftover"] = [], ex.up_bytes
            else:
                m = h2_message(ex.up_peer.events, 1, True)
                out["up_request"] = m if m["headers"] is not None else None
                out["up_streams"] = sorted({e.stream_id for e in ex.up_peer.events if isinstance(e, h2.events.RequestReceived)})
                if ex.up_peer.error is not None:
                    out["problems"].append(("upstream-peer-protocol-error", repr(ex.up_peer.error)))
        if out["up_request"] is not None and resp is not None:
            if sproto == "h1":
                ex.respond_h1(resp["wire"])
                if resp.get("close"):
                    ex.drv.close(ex.up_conn)
            else:
                ex.respond_h2(resp)
            ex.pump_upstream()
        if cproto == "h1":
            raw = ex.client_bytes()
            out["client_raw"] = raw
            try:
                msgs, left = ref_read_h1(raw, "response", [req["method"]])
                out["client_messages"], out["client_leftover"] = msgs, left
                out["client_response"] = msgs[0] if msgs else None
            except RefError as e:
                out["problems"].append(("client-bytes-rejected-by-reference-reader", str(e)))
        elif cproto == "h3":
            ex.cpeer.pump()
            m = h3_message(ex.cpeer.events, 0)
            out["client_response"] = m if (m["headers"] is not None or m["reset"] is not None) else None
            out["client_terminated"] = ex.cpeer.closed_by_mitm is not None
            if ex.cpeer.error is not None:
                out["problems"].append(("client-peer-protocol-error", repr(ex.cpeer.error)))
        else:
            ex.cpeer.pump()
            m = h2_message(ex.cpeer.events, 1, False)
            out["client_response"] = m if (m["headers"] is not None or m["reset"] is not None) else None
            out["client_terminated"] = any(isinstance(e, h2.events.ConnectionTerminated) for e in ex.cpeer.events)
            if ex.cpeer.error is not None:
                out["problems"].append(("client-peer-protocol-error", repr(ex.cpeer.error)))
        out["client_closed"] = any(c is ex.client for c, half in ex.drv.closed)
        return out


# ---------------------------------------------------------------------------------------------
# expectations (from the statement / RFC 9113 §8.3, RFC 9112 §3, RFC 6265 §5.4), independent of mitmproxy's code

def _pseudo(hdrs):
    return {k: v for k, v in hdrs if k.startswith(b":")}


def check_request(b, inp, cproto, sproto, req, r):
    """the request as decoded by the upstream peer must mean what the client sent"""
    got = r["up_request"]
    if got is None:
        b.fail("request.forwarded", inp, f"nothing reached the upstream peer; problems={r['problems']}")
        return
    body = req.get("body") or b""
    sent_fields = [(k, v) for k, v in req["headers"] if k.lower() != b"host"]
    if sproto == "h1":
        if len(r.get("up_messages", [])) != 1 or r.get("up_leftover"):
            name = "h2_to_h1.request_body_is_framed" if _is_unframed_body(cproto, sproto, req) else "request.exactly_one_h1_message"
            b.fail(name, inp, f"upstream byte stream holds {len(r.get('up_messages', []))} message(s) + leftover {r.get('up_leftover')!r}: {r['up_raw']!r}")
            return
        m, target, ver = got["start"]
        if m != req["method"] or target != req["path"]:
            b.fail("request.method_and_path", inp, f"sent {req['method']!r} {req['path']!r}, upstream read {got['start']}")
        hosts = [v for k, v in got["fields"] if k.lower() == b"host"]
        if hosts != [req["authority"]]:
            b.fail("request.authority_becomes_host", inp, f"authority {req['authority']!r}, Host fields upstream {hosts}")
        if canon_fields(got["fields"], drop={b"host"}) != canon_fields(sent_fields):
            b.fail("request.fields_preserved", inp, f"sent {canon_fields(sent_fields)}, upstream read {canon_fields(got['fields'], drop={b'host'})}")
        ncookie = sum(1 for k, _ in got["fields"] if k.lower() == b"cookie")
        if ncookie > 1 and cproto != "h1":
            b.fail("request.h1_single_cookie_field", inp, f"{ncookie} Cookie fields sent over HTTP/1")
        if got["body"] != body:
            b.fail("request.body_preserved", inp, f"sent {body!r}, upstream read {got['body']!r} ({got['framing']})")
    else:
        ps = _pseudo(got["headers"])
        want = {b":method": req["method"], b":scheme": req["scheme"], b":path": req["path"], b":authority": req["authority"]}
        if ps != want or len([1 for k, _ in got["headers"] if k.startswith(b":")]) != 4:
            b.fail("request.pseudo_headers", inp, f"expected {want}, upstream read {[(k, v) for k, v in got['headers'] if k.startswith(b':')]}")
        if any(k.lower() == b"host" for k, _ in got["headers"]) and cproto == "h1":
            b.fail("request.host_becomes_authority_only", inp, f"Host field kept next to :authority: {got['headers']}")
        if any(k != k.lower() for k, _ in got["headers"]):
            b.fail("request.h2_names_lowercase", inp, str(got["headers"]))
        if any(k.lower() in CONNECTION_SPECIFIC for k, _ in got["headers"]):
            b.fail("request.h2_no_connection_specific_fields", inp, str(got["headers"]))
        if canon_fields(got["headers"], drop={b"host"}) != canon_fields(sent_fields):
            b.fail("request.fields_preserved", inp, f"sent {canon_fields(sent_fields)}, upstream read {canon_fields(got['headers'], drop={b'host'})}")
        if got["body"] != body or not got["ended"]:
            b.fail("request.body_preserved", inp, f"sent {body!r}, upstream read {got['body']!r} ended={got['ended']}")
        if cproto in ("h2", "h3") and (req.get("trailers") or None) != (got["trailers"] or None):
            b.fail("request.trailers_preserved", inp, f"sent {req.get('trailers')}, upstream read {got['trailers']}")


def _is_unframed_body(cproto, sproto, req):
    """class K of KF-C06-1: HTTP/2 request with a body (or trailers) but neither content-length nor transfer-encoding, forwarded over HTTP/1"""
    return cproto in ("h2", "h3") and sproto == "h1" and bool(req.get("body")) and not any(k.lower() in (b"content-length", b"transfer-encoding") for k, _ in req["headers"])


def check_response(b, inp, cproto, sproto, req, resp, r):
    got = r["client_response"]
    if got is None:
        b.fail("response.forwarded", inp, f"no response reached the client; problems={r['problems']}")
        return
    body = b"" if req["method"] == b"HEAD" or resp["status"] in (204, 304) else (resp.get("body") or b"")
    if cproto == "h1":
        if len(r.get("client_messages", [])) != 1 or r.get("client_leftover"):
            b.fail("response.exactly_one_h1_message", inp, f"client byte stream holds {len(r.get('client_messages', []))} message(s) + leftover {r.get('client_leftover')!r}: {r.get('client_raw')!r}")
            return
        if got["start"][1] != resp["status"]:
            b.fail("response.status_preserved", inp, f"sent {resp['status']}, client read {got['start']}")
        if canon_fields(got["fields"]) != canon_fields(resp["headers"]):
            b.fail("response.fields_preserved", inp, f"sent {canon_fields(resp['headers'])}, client read {canon_fields(got['fields'])}")
        if got["body"] != body:
            b.fail("response.body_preserved", inp, f"sent {body!r}, client read {got['body']!r} ({got['framing']})")
        if got["framing"] == "until-close" and not r.get("client_closed"):
            b.fail("response.close_delimited_body_is_closed", inp, "response without length sent over HTTP/1 and the connection is left open")
    else:
        if got["reset"] is not None or got["headers"] is None:
            b.fail("response.forwarded", inp, f"client stream reset {got['reset']}")
            return
        if _pseudo(got["headers"]) != {b":status": str(resp["status"]).encode()}:
            b.fail("response.status_preserved", inp, f"sent {resp['status']}, client read {_pseudo(got['headers'])}")
        if any(k != k.lower() for k, _ in got["headers"]):
            b.fail("response.h2_names_lowercase", inp, str(got["headers"]))
        if any(k.lower() in CONNECTION_SPECIFIC for k, _ in got["headers"]):
            b.fail("response.h2_no_connection_specific_fields", inp, str(got["headers"]))
        if canon_fields(got["headers"]) != canon_fields(resp["headers"]):
            b.fail("response.fields_preserved", inp, f"sent {canon_fields(resp['headers'])}, client read {canon_fields(got['headers'])}")
        if got["body"] != body or not got["ended"]:
            b.fail("response.body_preserved", inp, f"sent {body!r}, client read {got['body']!r} ended={got['ended']}")
        if sproto == "h2" and (resp.get("trailers") or None) != (got["trailers"] or None):
            b.fail("response.trailers_preserved", inp, f"sent {resp.get('trailers')}, client read {got['trailers']}")


def _h1_wire_response(resp, framing):
    """bytes of the response as an HTTP/1 origin server sends it"""
    fields = resp["headers"]
    body = resp.get("body") or b""
    nobody = resp["status"] in (204, 304)
    if nobody:
        payload = b""
    elif framing == "cl":
        fields.append((b"Content-Length", str(len(body)).encode()))
        payload = body
    elif framing == "chunked":
        fields.append((b"Transfer-Encoding", b"chunked"))
        payload = (b"%x\r\n%s\r\n" % (len(body), body) if body else b"") + b"0\r\n\r\n"
    else:
        payload = body
    reason = {200: b"OK", 204: b"No Content", 404: b"Not Found", 304: b"Not Modified"}[resp["status"]]
    return b"HTTP/1.1 %d %s\r\n" % (resp["status"], reason) + b"".join(k + b": " + v + b"\r\n" for k, v in fields) + b"\r\n" + payload


def _well_formed_cases(tier, rnd):
    reqs = []
    hsets = [[], [(b"X-Mixed-Case", b"v 1")], [(b"cookie", b"a=1"), (b"cookie", b"b=2"), (b"cookie", b"c=3")], [(b"x-dup", b"1"), (b"x-dup", b"2")],
             [(b"x-empty", b"")], [(b"accept", b"text/html, */*;q=0.8"), (b"cookie", b"only=1")], [(b"x-a", b"1"), (b"cookie", b"a=1"), (b"x-b", b"2"), (b"cookie", b"b=2")]]
    for method, bodies in ((b"GET", [None]), (b"HEAD", [None]), (b"POST", [b"hello", b"GET /smuggled HTTP/1.1\r\nHost: a.test\r\n\r\n", b""])):
        for authority in (b"a.test", b"a.test:8443"):
            for path in (b"/", b"/x?y=1&z=%20"):
                for hs in hsets:
                    for body in bodies:
                        for framing in ("cl", "none", "chunked"):
                            for trailers in (None, [(b"x-req-trailer", b"t1")]):
                                reqs.append(dict(method=method, scheme=b"https", authority=authority, path=path, headers=list(hs), body=body, framing=framing, trailers=trailers))
    resps = []
    for status in (200, 204, 404):
        for hs in ([], [(b"Set-Cookie", b"a=1"), (b"Set-Cookie", b"b=2")], [(b"X-Up", b"Y"), (b"Cache-Control", b"no-store")]):
            for body in (None, b"abc", b"HTTP/1.1 200 OK\r\nContent-Length: 1\r\n\r\nx"):
                for framing in ("cl", "none", "chunked"):
                    for trailers in (None, [(b"x-resp-trailer", b"t2")]):
                        resps.append(dict(status=status, headers=list(hs), body=body, framing=framing, trailers=trailers))
    rnd.shuffle(reqs)
    rnd.shuffle(resps)
    n = 900 if tier == "quick" else 12000
    cases = []
    i = 0
    while len(cases) < n:
        rq, rs = reqs[i % len(reqs)], resps[(i * 7 + i // len(reqs)) % len(resps)]
        for cproto in ("h1", "h2", "h3"):
            for sproto in ("h1", "h2"):
                cases.append((cproto, sproto, rq, rs))
        i += 1
    return cases


def _concretise(cproto, sproto, rq, rs):
    """make the abstract case expressible in the two wire protocols; returns (req, resp) or None if not expressible"""
    req = dict(rq)
    resp = dict(rs)
    req["headers"] = [(k.lower() if cproto in ("h2", "h3") else k, v) for k, v in rq["headers"]]
    body = rq["body"]
    if cproto == "h1":
        req["trailers"] = None  # HTTP/1 trailers are not implemented by mitmproxy's reader (C01)
        if body is None or rq["method"] != b"POST":
            req["body"] = None
        elif rq["framing"] == "chunked":
            req["headers"].append((b"Transfer-Encoding", b"chunked"))
            req["wire_body"] = (b"%x\r\n%s\r\n" % (len(body), body) if body else b"") + b"0\r\n\r\n"
        else:
            req["headers"].append((b"Content-Length", str(len(body)).encode()))
    else:
        if rq["method"] != b"POST":
            req["body"], req["trailers"] = None, None
        elif rq["framing"] == "cl" and body is not None:
            req["headers"].append((b"content-length", str(len(body)).encode()))
        elif rq["framing"] == "chunked":
            return None  # transfer-encoding does not exist in HTTP/2
    resp["headers"] = [(k.lower() if sproto == "h2" else k, v) for k, v in rs["headers"]]
    if rs["status"] in (204, 304) or rq["method"] == b"HEAD":
        resp["body"] = None
        resp["trailers"] = None
    if sproto == "h1":
        resp["trailers"] = None
        resp["wire"] = _h1_wire_response(resp, rs["framing"] if rq["method"] != b"HEAD" else "none")
        resp["close"] = rs["framing"] == "none"
    else:
        if rs["framing"] == "chunked":
            return None
        if rs["framing"] == "cl" and resp.get("body") is not None:
            resp["headers"].append((b"content-length", str(len(resp["body"])).encode()))
    return req, resp


def _describe(cproto, sproto, req, resp):
    def enc(x):
        if isinstance(x, bytes):
            return x.decode("latin-1")
        if isinstance(x, (list, tuple)):
            return [enc(i) for i in x]
        if isinstance(x, dict):
            return {k: enc(v) for k, v in x.items() if k not in ("wire",)}
        return x
    return {"client": cproto, "upstream": sproto, "request": enc(req), "response": enc(resp) if resp else None}


def _trailers_to_h1(cproto, sproto, req, resp):
    """class K of KF-C06-2: trailers have to be sent to an HTTP/1 peer"""
    return (sproto == "h1" and bool(req.get("trailers"))) or (cproto == "h1" and bool(resp and resp.get("trailers")))


# adversarial HTTP/2 header blocks --------------------------------------------------------------
INJECT = [b"\r\n", b"\n", b"\r", b"\x00", b" ", b"\t", b"\r\nx-injected: 1", b"\r\n\r\nGET /smuggled HTTP/1.1\r\nHost: a.test\r\n\r\n", b":", b"\x7f", b"\xff"]


def _adversarial_request_blocks():
    base = [(b":method", b"POST"), (b":scheme", b"https"), (b":authority", b"a.test"), (b":path", b"/x"), (b"x-a", b"1"), (b"content-length", b"0")]
    out = []
    for idx in range(len(base)):
        for part in (0, 1):
            if idx < 4 and part == 0:
                continue
            for inj in INJECT:
                for where in ("start", "mid", "end"):
                    k, v = base[idx]
                    t = (k, v)[part]
                    mid = max(1, len(t) // 2)
                    t2 = inj + t if where == "start" else (t[:mid] + inj + t[mid:] if where == "mid" else t + inj)
                    blk = list(base)
                    blk[idx] = (t2, v) if part == 0 else (k, t2)
                    out.append((f"inject {inj!r} at {where} of {'name' if part == 0 else 'value'} of {k.decode()}", blk))
    extra = {
        "uppercase name": base + [(b"X-Upper", b"1")],
        "duplicate :method": [base[0], (b":method", b"GET")] + base[1:],
        "duplicate :path": base[:4] + [(b":path", b"/other")] + base[4:],
        "duplicate :authority": base[:4] + [(b":authority", b"b.test")] + base[4:],
        "pseudo after regular": base[:2] + base[3:] + [base[2]],
        "unknown pseudo": base[:4] + [(b":foo", b"1")] + base[4:],
        ":status in request": base[:4] + [(b":status", b"200")] + base[4:],
        "missing :method": base[1:],
        "missing :path": base[:3] + base[4:],
        "missing :scheme": base[:1] + base[2:],
        "empty :path": base[:3] + [(b":path", b"")] + base[4:],
        "connection header": base + [(b"connection", b"close")],
        "keep-alive header": base + [(b"keep-alive", b"timeout=5")],
        "proxy-connection header": base + [(b"proxy-connection", b"keep-alive")],
        "upgrade header": base + [(b"upgrade", b"websocket")],
        "te chunked": base + [(b"te", b"chunked")],
        "transfer-encoding chunked": base[:5] + [(b"transfer-encoding", b"chunked")],
        "transfer-encoding + content-length": base + [(b"transfer-encoding", b"chunked")],
        "two content-length": base + [(b"content-length", b"5")],
        "content-length list": base[:5] + [(b"content-length", b"0, 0")],
        "content-length plus sign": base[:5] + [(b"content-length", b"+0")],
        "content-length too small for body": base[:5] + [(b"content-length", b"1")],
        "host differs from authority": base + [(b"host", b"b.test")],
        "host equals authority": base + [(b"host", b"a.test")],
        "host without authority": [base[0], base[1], base[3], (b"host", b"a.test")] + base[4:],
        "authority with userinfo": base[:2] + [(b":authority", b"user@a.test")] + base[3:],
        "authority empty": base[:2] + [(b":authority", b"")] + base[3:],
        "absolute-form path": base[:3] + [(b":path", b"http://b.test/")] + base[4:],
        "asterisk path": base[:3] + [(b":path", b"*")] + base[4:],
        "method lowercase": [(b":method", b"post")] + base[1:],
        "method CONNECT": [(b":method", b"CONNECT"), (b":authority", b"a.test:443")],
        "scheme ftp": [base[0], (b":scheme", b"ftp")] + base[2:],
        "empty header name": base + [(b"", b"1")],
        "leading space value": base + [(b"x-b", b" 1")],
        "trailing space value": base + [(b"x-b", b"1 ")],
        "obs-fold value": base + [(b"x-b", b"1\r\n 2")],
    }
    for k, v in extra.items():
        out.append((k, v))
    return out


def _adversarial_response_blocks():
    base = [(b":status", b"200"), (b"x-a", b"1"), (b"content-length", b"0")]
    out = []
    for idx in range(len(base)):
        for part in (0, 1):
            if idx == 0 and part == 0:
                continue
            for inj in INJECT:
                for where in ("start", "mid", "end"):
                    k, v = base[idx]
                    t = (k, v)[part]
                    mid = max(1, len(t) // 2)
                    t2 = inj + t if where == "start" else (t[:mid] + inj + t[mid:] if where == "mid" else t + inj)
                    blk = list(base)
                    blk[idx] = (t2, v) if part == 0 else (k, t2)
                    out.append((f"inject {inj!r} at {where} of {'name' if part == 0 else 'value'} of {k.decode()}", blk))
    extra = {
        "uppercase name": base + [(b"X-Upper", b"1")],
        "duplicate :status": [base[0], (b":status", b"404")] + base[1:],
        "unknown pseudo": [base[0], (b":foo", b"1")] + base[1:],
        "missing :status": base[1:],
        "non-numeric status": [(b":status", b"abc")] + base[1:],
        "status 20": [(b":status", b"20")] + base[1:],
        "status 2000": [(b":status", b"2000")] + base[1:],
        "status -1": [(b":status", b"-1")] + base[1:],
        "status +200": [(b":status", b"+200")] + base[1:],
        "status 2_0_0": [(b":status", b"2_0_0")] + base[1:],
        "status 0200": [(b":status", b"0200")] + base[1:],
        "status with spaces": [(b":status", b" 200 ")] + base[1:],
        "status 099": [(b":status", b"099")] + base[1:],
        "connection header": base + [(b"connection", b"close")],
        "transfer-encoding chunked": base[:2] + [(b"transfer-encoding", b"chunked")],
        "two content-length": base + [(b"content-length", b"5")],
        "request pseudo in response": [base[0], (b":path", b"/")] + base[1:],
    }
    for k, v in extra.items():
        out.append((k, v))
    return out


def check_adversarial_request(b, label, blk, cproto="h2"):
    """HTTP/2 client sends `blk` (default options: validate_inbound_headers on) towards an HTTP/1 upstream: either nothing is
    forwarded, or exactly one well-formed HTTP/1 request whose fields are the block's fields."""
    inp = {"kind": "adversarial-request", "client": cproto, "mutation": label, "block": [[k.decode("latin-1"), v.decode("latin-1")] for k, v in blk]}
    req = dict(method=b"?", scheme=b"https", authority=b"a.test", path=b"?", headers=[], raw_block=blk, body=None, trailers=None)
    r = run_exchange(cproto, "h1", req, None)
    if any(p[0] == "crash" for p in r["problems"]):
        b.fail("adversarial.no_crash", inp, str(r["problems"]))
        return "crash"
    if any(p[0] == "peer-refused" for p in r["problems"]):
        return "unencodable"
    raw = r["up_raw"]
    if not raw:
        return "rejected"
    ps0 = _pseudo(blk)
    if any(p[0] == "upstream-bytes-rejected-by-reference-reader" for p in r["problems"]):
        # class K of KF-C06-3: SP / HTAB / DEL inside the :method or :path value (h2 and mitmproxy.net.http.validate accept them)
        k3 = any(c in (ps0.get(b":method", b"") + ps0.get(b":path", b"")) for c in b" \t\x7f") and b"request line" in raw.split(b"\r\n")[0] + b" request line"
        k3 = k3 and not any(c in raw.split(b"\r\n\r\n")[0].split(b"\r\n", 1)[1] for c in (b"\x00",)) and all(b"request line" in p[1].encode() for p in r["problems"] if p[0] == "upstream-bytes-rejected-by-reference-reader")
        b.fail("adversarial.request_line_free_of_whitespace_and_controls" if k3 else "adversarial.h1_request_well_formed", inp, f"{[p for p in r['problems']]}: {raw!r}")
        return "forwarded-malformed"
    msgs, left = r["up_messages"], r["up_leftover"]
    if len(msgs) != 1 or left:
        # class K of KF-C06-4: END_STREAM on the HEADERS frame (no body) but a content-length > 0 is copied into the HTTP/1 head
        cls = [v for k, v in blk if k == b"content-length"]
        k4 = len(msgs) == 0 and len(cls) == 1 and cls[0].isdigit() and int(cls[0]) > 0 and raw.endswith(b"\r\n\r\n") and raw.count(b"\r\n\r\n") == 1
        b.fail("adversarial.h1_length_matches_h2_body" if k4 else "adversarial.at_most_one_h1_message", inp, f"{len(msgs)} messages + leftover {left!r}: {raw!r}")
        return "forwarded-split"
    m = msgs[0]
    ps = _pseudo(blk)
    regular = [(k, v) for k, v in blk if not k.startswith(b":")]
    if m["start"][0] != ps.get(b":method") or m["start"][1] != ps.get(b":path"):
        b.fail("adversarial.request_line_is_method_and_path", inp, f"{m['start']} from {ps}")
    hosts = [v for k, v in m["fields"] if k.lower() == b"host"]
    want_host = [ps[b":authority"]] if ps.get(b":authority") else [v for k, v in regular if k.lower() == b"host"]
    if hosts != want_host and not (ps.get(b":authority") and hosts == [v for k, v in regular if k.lower() == b"host"] == [ps[b":authority"]]):
        # class K of KF-C06-7: both :authority and a different Host field in one block (malformed per RFC 9113 8.3.1 / RFC 9114 4.3.1);
        # hyper-h2 rejects it, aioquic does not
        k7 = bool(ps.get(b":authority")) and any(k.lower() == b"host" and v != ps[b":authority"] for k, v in regular) and cproto == "h3"
        b.fail("adversarial.host_field_agrees_with_authority" if k7 else "adversarial.single_host_equal_to_authority", inp, f"Host fields {hosts}, :authority {ps.get(b':authority')!r}, host fields in block {[v for k, v in regular if k.lower() == b'host']}")
    if canon_fields(m["fields"], drop={b"host"}) != canon_fields([(k, v.strip(b" \t")) for k, v in regular], drop={b"host"}):
        b.fail("adversarial.fields_are_the_block_fields", inp, f"{m['fields']} from {regular}")
    return "forwarded"


def check_adversarial_response(b, label, blk):
    inp = {"kind": "adversarial-response", "mutation": label, "block": [[k.decode("latin-1"), v.decode("latin-1")] for k, v in blk]}
    req = dict(method=b"GET", scheme=b"https", authority=b"a.test", path=b"/", headers=[], body=None, trailers=None)
    ex_resp = dict(status=0, headers=[], body=None, trailers=None)

    class R(dict):
        pass

    import h2.events
    ex = Exchange("h1", "h2")
    try:
        try:
            ex.send_request_h1(req)
            ex.pump_upstream()
            if ex.up_peer is None:
                b.fail("adversarial.setup", inp, "no upstream connection")
                return "setup"
            try:
                ex.up_peer.h2.send_headers(1, blk, end_stream=True)
            except Exception:
                return "unencodable"
            ex.up_peer.flush()
            ex.pump_upstream()
        except Exception as e:
            b.fail("adversarial.no_crash", inp, f"{type(e).__name__}: {e}")
            return "crash"
        raw = ex.client_bytes()
        try:
            msgs, left = ref_read_h1(raw, "response", [b"GET"])
        except RefError as e:
            # class K of KF-C06-5: a :status value that int() accepts but that is not a three-digit status code
            st = _pseudo(blk).get(b":status", b"")
            k5 = "status line" in str(e) and not (len(st) == 3 and st.isdigit() and int(st) >= 100)
            b.fail("adversarial.status_code_is_three_digits" if k5 else "adversarial.h1_response_well_formed", inp, f"{e}: {raw!r}")
            return "forwarded-malformed"
        if len(msgs) > 1 or left:
            b.fail("adversarial.at_most_one_h1_message", inp, f"{len(msgs)} messages + leftover {left!r}: {raw!r}")
            return "forwarded-split"
        if not msgs:
            return "rejected"
        m = msgs[0]
        if m["start"][1] >= 500 and any(k.lower() == b"server" and v.startswith(b"mitmproxy") for k, v in m["fields"]):
            return "rejected"  # mitmproxy's own error page
        ps = _pseudo(blk)
        regular = [(k, v) for k, v in blk if not k.startswith(b":")]
        try:
            want_status = int(ps.get(b":status", b"x"))  # non-canonical spellings (+200, 0200) may be normalised, the number must be kept
        except ValueError:
            want_status = None
        if m["start"][1] != want_status:
            b.fail("adversarial.status_preserved", inp, f"{m['start']} from {ps}")
        if canon_fields(m["fields"]) != canon_fields([(k, v.strip(b" \t")) for k, v in regular]):
            b.fail("adversarial.fields_are_the_block_fields", inp, f"{m['fields']} from {regular}")
        return "forwarded"
    finally:
        ex.close()


def bounded(tier, seed):
    import random
    rnd = random.Random(seed)
    b = Bounded()
    b.rule = ("(1) well-formed exchanges: request (GET|HEAD|POST x 2 authorities x 2 paths x 7 header sets incl. multiple Cookie / duplicate / empty / "
              "mixed-case fields x body none|text|HTTP-looking|empty x framing content-length|none|chunked x trailers) and response (200|204|404 x 3 "
              "header sets x 3 bodies x 3 framings x trailers) through the real HttpLayer for every pair of client/upstream protocol in {HTTP/1.1, "
              "HTTP/2}; the message decoded by the independent peer (plain hyper-h2 / strict HTTP/1 reference reader) must carry the same "
              "method, scheme, authority/Host, path, status, end-to-end fields (case-insensitive names, Cookie joined), body, trailers, and an "
              "HTTP/1 byte stream must hold exactly one message and no leftover. (2) adversarial HTTP/2 header blocks (11 injected byte strings "
              "x 3 positions x every name/value incl. pseudo-headers, plus 36 structural mutations) from an HTTP/2 client to an HTTP/1 upstream "
              "and from an HTTP/2 upstream to an HTTP/1 client, default options: nothing forwarded, or exactly one well-formed message with the "
              "block's fields. distinct = (protocol pair, request, response) / the block; non-trivial = message reached the other side")
    b.bound = "one exchange per connection; HTTP/3 only on the client side (plain aioquic H3Connection as peer, QUIC stream events fed directly); an HTTP/3 upstream is not driven"
    outcomes = {}
    for cproto, sproto, rq, rs in _well_formed_cases(tier, rnd):
        c = _concretise(cproto, sproto, rq, rs)
        if c is None:
            continue
        req, resp = c
        inp = _describe(cproto, sproto, req, resp)
        r = run_exchange(cproto, sproto, req, resp)
        b.case(repr(inp), nontrivial=r["up_request"] is not None)
        crash = [p for p in r["problems"] if p[0] == "crash"]
        if crash:
            b.fail("trailers_to_h1.no_crash" if _trailers_to_h1(cproto, sproto, req, resp) else "exchange.no_crash", inp, str(crash))
            continue
        other = [p for p in r["problems"] if p[0] not in ("upstream-bytes-rejected-by-reference-reader",)]
        if other:
            b.fail("exchange.peers_accept_the_stream", inp, str(other))
        if any(p[0] == "upstream-bytes-rejected-by-reference-reader" for p in r["problems"]):
            b.fail("h2_to_h1.request_body_is_framed" if _is_unframed_body(cproto, sproto, req) else "request.exactly_one_h1_message", inp, f"{r['problems']}: {r['up_raw']!r}")
            continue
        check_request(b, inp, cproto, sproto, req, r)
        if r["up_request"] is not None and not (_is_unframed_body(cproto, sproto, req)):
            check_response(b, inp, cproto, sproto, req, resp, r)
    for cproto in ("h2", "h3"):
        for label, blk in _adversarial_request_blocks():
            o = check_adversarial_request(b, label, blk, cproto)
            outcomes[("req", cproto, o)] = outcomes.get(("req", cproto, o), 0) + 1
            b.case(("adv-req", cproto, label), nontrivial=o == "forwarded")
    for label, blk in _adversarial_response_blocks():
        o = check_adversarial_response(b, label, blk)
        outcomes[("resp", o)] = outcomes.get(("resp", o), 0) + 1
        b.case(("adv-resp", label), nontrivial=o == "forwarded")
    # HTTP/1 messages with hop-by-hop fields towards an HTTP/2|3 peer, in every spelling of the names (all lower-case included)
    hop_sets = [[("connection", "keep-alive"), ("keep-alive", "timeout=5")], [("connection", "close")], [("proxy-connection", "keep-alive")],
                [("connection", "upgrade"), ("upgrade", "h2c")], [("transfer-encoding", "chunked")], [("connection", "x-custom"), ("x-custom", "1")]]
    spellings = {"lower": str.lower, "title": str.title, "upper": str.upper}
    for hops in hop_sets:
        for sp_name, sp in spellings.items():
            for direction in ("request", "response"):
                for cproto in (("h1",) if direction == "request" else ("h2", "h3")):
                    chunked = any(k == "transfer-encoding" for k, _ in hops)
                    hop_fields = [(sp(k).encode(), v.encode()) for k, v in hops]
                    extra = [(sp("x-keep").encode(), b"1")]
                    inp = {"kind": "hop-by-hop", "direction": direction, "client": cproto, "spelling": sp_name, "fields": [[k.decode(), v.decode()] for k, v in hop_fields]}
                    if direction == "request":
                        body = b"hello"
                        fields = [(sp("host").encode(), b"a.test")] + extra + hop_fields
                        if chunked:
                            wire = b"5\r\nhello\r\n0\r\n\r\n"
                        else:
                            fields.append((sp("content-length").encode(), b"5"))
                            wire = body
                        req = dict(method=b"POST", scheme=b"https", authority=b"a.test", path=b"/hop", headers=fields, body=body, wire_body=wire, trailers=None)
                        r = run_exchange("h1", "h2", req, dict(status=200, headers=[], body=None, trailers=None))
                        got = r["up_request"]
                    else:
                        fields = extra + hop_fields
                        body = b"abc"
                        if chunked:
                            payload = b"3\r\nabc\r\n0\r\n\r\n"
                        else:
                            fields = fields + [(sp("content-length").encode(), b"3")]
                            payload = body
                        wire = b"HTTP/1.1 200 OK\r\n" + b"".join(k + b": " + v + b"\r\n" for k, v in fields) + b"\r\n" + payload
                        req = dict(method=b"GET", scheme=b"https", authority=b"a.test", path=b"/hop", headers=[], body=None, trailers=None)
                        r = run_exchange(cproto, "h1", req, dict(status=200, headers=fields, body=body, trailers=None, wire=wire, close=False))
                        got = r["client_response"]
                    b.case(("hop-by-hop", direction, cproto, sp_name, tuple(hops)), nontrivial=got is not None)
                    if any(p_[0] == "crash" for p_ in r["problems"]):
                        b.fail("exchange.no_crash", inp, str(r["problems"]))
                        continue
                    if got is None or got.get("headers") is None:
                        b.fail("hop_by_hop.message_forwarded", inp, f"nothing arrived: {r['problems']}")
                        continue
                    names = [k for k, _ in got["headers"]]
                    if any(k.lower() in CONNECTION_SPECIFIC for k in names):
                        b.fail("hop_by_hop.connection_specific_fields_not_forwarded_to_h2", inp, str(got["headers"]))
                    if any(k != k.lower() for k in names):
                        b.fail("hop_by_hop.h2_names_lowercase", inp, str(got["headers"]))
                    if (b"x-keep", b"1") not in got["headers"]:
                        b.fail("hop_by_hop.end_to_end_field_kept", inp, str(got["headers"]))
                    if got["body"] != body or not got["ended"]:
                        b.fail("hop_by_hop.body_kept", inp, f"{got['body']!r} ended={got['ended']}")
    # HTTP/1 -> HTTP/2: field bytes that are not UTF-8 (HTTP/1 field values are opaque octets)
    for label, fields in (("non-utf8 value", [(b"x-bin", b"\xff\xfe")]), ("latin-1 value", [(b"x-l1", b"caf\xe9")]), ("utf8 host", [(b"Host", b"caf\xc3\xa9.test")]),
                          ("non-utf8 host", [(b"Host", b"\xff.test")]), ("latin-1 host", [(b"Host", b"caf\xe9.test")])):
        req = dict(method=b"GET", scheme=b"https", authority=b"a.test", path=b"/", headers=fields, body=None, trailers=None)
        inp = {"kind": "h1-to-h2-octets", "case": label, "fields": [[k.decode("latin-1"), v.decode("latin-1")] for k, v in fields]}
        r = run_exchange("h1", "h2", req, dict(status=200, headers=[], body=None, trailers=None))
        b.case(("h1-to-h2-octets", label), nontrivial=r["up_request"] is not None)
        if any(p[0] == "crash" for p in r["problems"]):
            k6 = any(k.lower() == b"host" for k, _ in fields)
            b.fail("h1_to_h2.non_utf8_host_no_crash" if k6 else "exchange.no_crash", inp, str(r["problems"]))
            continue
        got = r["up_request"]
        if got is None:
            b.fail("request.forwarded", inp, str(r["problems"]))
            continue
        for k, v in fields:
            if k.lower() == b"host":
                if _pseudo(got["headers"]).get(b":authority") != v:
                    b.fail("request.host_becomes_authority_bytes", inp, str(got["headers"]))
            elif (k.lower(), v) not in got["headers"]:
                b.fail("request.fields_preserved", inp, str(got["headers"]))
    b.outcomes = outcomes
    return b
