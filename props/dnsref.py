"""Independent reference DNS wire decoder (executable spec written from RFC 1035 §3.3, §4.1, §4.1.4 and the RDATA layouts of
RFC 1183 (RP, AFSDB, RT), RFC 2163 (PX), RFC 2535 (SIG, NXT), RFC 2782 (SRV), RFC 3403 (NAPTR)).  Shares no code with mitmproxy.

A decoded message is a plain tuple structure; names are tuples of raw label bytes (case preserved: compared byte-exact), RDATA of
name-bearing types is a tuple of ("bytes", b) / ("name", labels) parts with compression expanded, any other RDATA is
("bytes", rdata) verbatim.  Used by the T2 checks of C25-C27.
"""
from __future__ import annotations

import struct


class RefError(Exception):
    pass


MAX_HOPS = 128


def read_name(buf: bytes, pos: int, allow_pointer=True):
    """-> (labels, position after the name in the original stream, info) ; info: set of remarks"""
    labels = []
    info = set()
    end = None
    hops = 0
    seen = set()
    while True:
        if pos >= len(buf):
            raise RefError("name runs past the end")
        n = buf[pos]
        if n & 0xC0 == 0xC0:
            if not allow_pointer:
                raise RefError("pointer not allowed here")
            if pos + 1 >= len(buf):
                raise RefError("truncated pointer")
            target = ((n & 0x3F) << 8) | buf[pos + 1]
            if end is None:
                end = pos + 2
            hops += 1
            if target in seen or hops > MAX_HOPS:
                raise RefError("pointer loop / too many hops")
            seen.add(target)
            if labels and target < len(buf) and buf[target] == 0:
                info.add("labels_then_pointer_to_root")
            pos = target
            info.add("compressed")
            continue
        if n & 0xC0:
            raise RefError("reserved label type")
        if n == 0:
            if end is None:
                end = pos + 1
            return tuple(labels), end, info
        if pos + 1 + n > len(buf):
            raise RefError("label runs past the end")
        raw = buf[pos + 1:pos + 1 + n]
        if b"." in raw:
            info.add("dot_in_label")
        if b"xn--" in raw.lower():  # class remark only
            info.add("ace_label")
        if any(c >= 0x80 for c in raw):
            info.add("non_ascii_label")
        labels.append(raw)   # byte-exact (dns-0x20: resolvers verify that the case of the question is echoed)
        pos += 1 + n


# RDATA layouts: sequence of field kinds.  "n" name, "2"/"4" fixed ints, "s" character-string, "18" fixed 18 octets, "*" rest
LAYOUT = {
    2: "n", 3: "n", 4: "n", 5: "n", 7: "n", 8: "n", 9: "n", 12: "n",  # NS MD MF CNAME MB MG MR PTR
    14: "nn", 17: "nn",  # MINFO RP
    15: "2n", 18: "2n", 21: "2n",  # MX AFSDB RT
    6: "nn44444",  # SOA
    33: "222n",  # SRV
    26: "2nn",  # PX
    35: "22sssn",  # NAPTR
    24: "18n*",  # SIG
    30: "n*",  # NXT
}
NAME_BEARING = frozenset(LAYOUT)


def read_rdata(buf: bytes, typ: int, start: int, end: int, info: set):
    lay = LAYOUT.get(typ)
    raw = buf[start:end]
    if lay is None:
        return (("bytes", raw),)
    parts = []
    pos = start
    lit = b""
    try:
        for f in lay:
            if f == "n":
                labels, nxt, i2 = read_name(buf, pos)
                if nxt > end:
                    raise RefError("name crosses RDATA end")
                info |= i2
                if lit:
                    parts.append(("bytes", lit))
                    lit = b""
                parts.append(("name", labels))
                pos = nxt
            elif f == "*":
                lit += buf[pos:end]
                pos = end
            elif f == "s":
                if pos >= end:
                    raise RefError("truncated character-string")
                n = buf[pos]
                if pos + 1 + n > end:
                    raise RefError("truncated character-string")
                lit += buf[pos:pos + 1 + n]
                pos += 1 + n
            else:
                n = int(f)
                if pos + n > end:
                    raise RefError("truncated fixed field")
                lit += buf[pos:pos + n]
                pos += n
    except RefError:
        # RDATA that does not follow the type's layout: opaque (a forwarder must then leave it alone)
        info.add("rdata_not_in_layout")
        return (("bytes", raw),)
    if pos != end:
        info.add("rdata_not_in_layout")
        return (("bytes", raw),)
    if lit:
        parts.append(("bytes", lit))
    return tuple(parts)


def _layout_fields(lay):
    out = []
    i = 0
    while i < len(lay):
        if lay.startswith("18", i):
            out.append("18")
            i += 2
        else:
            out.append(lay[i])
            i += 1
    return out


for _k in list(LAYOUT):
    LAYOUT[_k] = _layout_fields(LAYOUT[_k])


def parse_message(buf: bytes, exact=True):
    """-> (message tuple, info set).  Raises RefError on malformed input."""
    info = set()
    if len(buf) < 12:
        raise RefError("short header")
    ident, flags, nq, nan, nns, nar = struct.unpack_from("!HHHHHH", buf, 0)
    header = (ident, flags >> 15, (flags >> 11) & 15, (flags >> 10) & 1, (flags >> 9) & 1, (flags >> 8) & 1, (flags >> 7) & 1, (flags >> 4) & 7, flags & 15)
    pos = 12
    qs = []
    for _ in range(nq):
        labels, pos, i2 = read_name(buf, pos)
        info |= i2
        if pos + 4 > len(buf):
            raise RefError("truncated question")
        t, c = struct.unpack_from("!HH", buf, pos)
        pos += 4
        qs.append((labels, t, c))
    secs = []
    for cnt in (nan, nns, nar):
        rrs = []
        for _ in range(cnt):
            labels, pos, i2 = read_name(buf, pos)
            info |= i2
            if pos + 10 > len(buf):
                raise RefError("truncated record header")
            t, c, ttl, rdlen = struct.unpack_from("!HHIH", buf, pos)
            pos += 10
            if pos + rdlen > len(buf):
                raise RefError("truncated RDATA")
            rd = read_rdata(buf, t, pos, pos + rdlen, info)
            if any(x >= 0xC0 for x in buf[pos:pos + rdlen]):
                info.add("rdata_has_byte>=0xc0")
            pos += rdlen
            rrs.append((labels, t, c, ttl, rd))
        secs.append(tuple(rrs))
    if exact and pos != len(buf):
        raise RefError("trailing bytes")
    return (header, tuple(qs), tuple(secs)), info


# ---- building wire messages by hand (with optional compression pointers)

def wire_name(name: str | bytes) -> bytes:
    """uncompressed wire form of a dotted name given as ASCII/IDNA text ('' = root)"""
    if isinstance(name, str):
        name = name.encode("idna") if name else b""
    out = b""
    if name:
        for lab in name.split(b"."):
            out += bytes([len(lab)]) + lab
    return out + b"\x00"


def ptr(offset: int) -> bytes:
    return struct.pack("!H", 0xC000 | offset)


def header(ident=1, flags=0x0100, nq=0, nan=0, nns=0, nar=0) -> bytes:
    return struct.pack("!HHHHHH", ident, flags, nq, nan, nns, nar)


def question(name_wire: bytes, typ=1, cls=1) -> bytes:
    return name_wire + struct.pack("!HH", typ, cls)


def rr(name_wire: bytes, typ: int, rdata: bytes, cls=1, ttl=60) -> bytes:
    return name_wire + struct.pack("!HHIH", typ, cls, ttl, len(rdata)) + rdata
