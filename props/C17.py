"""C17 — The certificate store is bounded and never serves a certificate for other names.

Contracts on mitmproxy.certs.CertStore.{expire, add_cert, asterisk_forms, get_cert}.

Class invariant Inv(CertStore) used as pre- and re-established as post-condition:
  (I1) len(expire_queue) <= STORE_CAP
  (I2) every tuple key (cn, sans) of `certs` maps to an entry that is in expire_queue
  (I3) entries in expire_queue are pairwise distinct objects with pairwise distinct certificates (dummy_cert freshness)
The wildcard rule of the store (docstring of asterisk_forms, `--certs *=...` / `*.example.com=...` in the docs): a
registered name k serves a requested name x iff k == x, or k == "*." + s where "." + s is a suffix of x, or k == "*".
"""
from pyvc.api import *

CLAIM = "other"
EXPLANATION = (
    "T1 proves, for all names (symbolic strings), all capacities and all queue lengths, the per-operation contracts that carry the "
    "statement: expire keeps len(queue) <= STORE_CAP, evicts the oldest entry and removes exactly the keys mapping to it (frame over "
    "the whole map); add_cert registers exactly CN, SAN values and the given names; asterisk_forms yields only label-suffix wildcards; "
    "get_cert returns a registered custom entry only under a key that matches a requested name by the wildcard rule, else the cached "
    "entry stored under exactly (cn, sans), else a fresh entry generated for exactly (cn, sans) which is stored and queued, and each "
    "operation re-establishes the class invariant. The heap model has concrete-size dicts, so the `certs` map in the pre-state has a "
    "bounded number of keys (<= 3 custom + <= 2 generated) and names have <= 3 dots in T1; long histories over larger stores are "
    "covered by the bounded T2 enumeration (real store, real dummy_cert, STORE_CAP patched to 2)."
)
ASSUMPTIONS = [
    "dummy_cert is summarised in the get_cert scenarios: it returns a fresh Cert object whose fingerprint differs from every other certificate in the store and which records exactly the arguments it was called with (its own contract is C16)",
    "Cert.fingerprint() (SHA-256 of the DER) is summarised as reading a ghost field `_fp`; distinct certificates have distinct fingerprints",
    "cryptography's x509.Certificate is replaced by a stub exposing subject.get_attributes_for_oid / extensions.get_extension_for_class (the two calls Cert.cn / Cert.altnames make); x509.DNSName / GeneralNames are interpreted from cryptography's source",
    "pre-state stores have at most 3 custom keys and 2 generated keys; requested names have at most 3 dots (T1); capacity and queue length are unbounded in expire.fifo_bound",
    "str(general_name.value) for IP/other general names is an opaque string (only DNS names get wildcard forms)",
]
S = "mitmproxy.certs:CertStore"
E = "mitmproxy.certs:CertStoreEntry"
C = "mitmproxy.certs:Cert"
KEY = "default-private-key"


# ---------------------------------------------------------------------------------------------
# stubs for the cryptography objects Cert.cn / Cert.altnames look at (interpreted like repository code; real objects natively)


class StubAttr:
    def __init__(self, value):
        self.value = value


class StubName:
    def __init__(self, cns):
        self.cns = cns

    def get_attributes_for_oid(self, oid):
        return [StubAttr(c) for c in self.cns]


class StubExt:
    def __init__(self, value):
        self.value = value


class StubExtensions:
    def __init__(self, san):
        self.san = san

    def get_extension_for_class(self, cls):
        from cryptography import x509

        if self.san is None:
            raise x509.ExtensionNotFound("no SAN", None)
        return StubExt(self.san)


class StubX509:
    def __init__(self, cns, san):
        self.subject = StubName(cns)
        self.extensions = StubExtensions(san)


def mk_x509(vc, cns, san):
    """stub certificate with the given CN values (list) and SAN general names (list or None)"""
    me = __name__
    return vc.new(f"{me}:StubX509", subject=vc.new(f"{me}:StubName", cns=vc.list(cns)),
                  extensions=vc.new(f"{me}:StubExtensions", san=None if san is None else vc.list(san)))


def dns(vc, value):
    return vc.new("cryptography.x509.general_name:DNSName", _value=value)


def gnames(vc, names):
    return vc.new("cryptography.x509.extensions:GeneralNames", _general_names=vc.list(names))


def mk_cert(vc, fp, cns=(), san=None, **ghost):
    return vc.new(C, _cert=mk_x509(vc, list(cns), san), _fp=fp, **ghost)


def mk_entry(vc, cert, chain_file=None):
    return vc.new(E, cert=cert, privatekey=KEY, chain_file=chain_file, chain_certs=vc.list([]))


def fingerprint_summary(vc, self_):
    return self_._fp


def items_of(vc, d):
    return list(d.items) if vc.mode == "sym" else list(d.items())


def sym_t(x):
    from pyvc.core import _z
    return _z(x)


# ---------------------------------------------------------------------------------------------
# asterisk_forms


def dotfree(vc, l):
    """requires: the label contains no dot (recorded for the structural split model in proof mode)"""
    if vc.mode == "sym":
        import z3
        from pyvc.libx_dns import assume_sep_free
        assume_sep_free(vc, l, ".")
        # the same fact in the regex form in which libx_addons' split model asks for it (decided syntactically then)
        anyc = z3.Star(z3.AllChar(z3.ReSort(z3.StringSort())))
        vc.ex.assume(z3.Not(z3.InRe(l.t, z3.Concat(anyc, z3.Re(z3.StringVal(".")), anyc))))
    else:
        vc.assume("." not in l)


def dotted(labels):
    dn = labels[0]
    for l in labels[1:]:
        dn = dn + "." + l
    return dn


@scenario("asterisk_forms.str", functions=[S + ".asterisk_forms"])
def s_forms(vc):
    n = vc.case("dots", [0, 1, 2, 3])
    labels = [vc.sym_str(f"l{i}") for i in range(n + 1)]
    for l in labels:
        dotfree(vc, l)
    dn = dotted(labels)
    out = vc.call(S + ".asterisk_forms", dn)
    vc.ensure("no_exception", out.ok)
    if not out.ok:
        return
    r = out.result
    vc.ensure("is_list_of_n_plus_1", isa(r, list) and len(r) == n + 1)
    if not (isa(r, list) and len(r) == n + 1):
        return
    vc.ensure("first_is_the_name_itself", r[0] == dn)
    for j in range(1, n + 1):
        # spec (docstring): the j-th wildcard replaces the first j labels by "*"
        vc.ensure(f"wildcard[{j}]", r[j] == "*." + dotted(labels[j:]))
        # stated independently of the label decomposition: "*" + t with t = "." + s a suffix of the name
        t = "." + dotted(labels[j:])
        vc.ensure(f"wildcard_is_label_suffix[{j}]", And(r[j] == "*" + t, endswith(dn, t)))
        vc.ensure(f"bare_star_never_included[{j}]", r[j] != "*")
    for j in range(1, n):
        vc.ensure(f"most_specific_first[{j}]", len_(r[j]) > len_(r[j + 1]))


@scenario("asterisk_forms.general_name", functions=[S + ".asterisk_forms"])
def s_forms_gn(vc):
    kind = vc.case("kind", ["dns", "other"])
    if kind == "dns":
        n = vc.case("dots", [0, 1, 2])
        labels = [vc.sym_str(f"l{i}") for i in range(n + 1)]
        for l in labels:
            dotfree(vc, l)
        name = dotted(labels)
        out = vc.call(S + ".asterisk_forms", dns(vc, name))
        vc.ensure("no_exception", out.ok)
        if not out.ok:
            return
        r = out.result
        vc.ensure("dns.same_as_str", len(r) == n + 1 and vc.eq(r[0], name))
        for j in range(1, min(len(r), n + 1)):
            vc.ensure(f"dns.wildcard[{j}]", r[j] == "*." + dotted(labels[j:]))
    else:
        # any non-DNS general name (IP address, email, URI, ...): exactly one form, no wildcards
        v = vc.sym_str("value")
        gn = vc.new("cryptography.x509.general_name:RFC822Name", _value=v)
        out = vc.call(S + ".asterisk_forms", gn)
        vc.ensure("no_exception", out.ok)
        if not out.ok:
            return
        vc.ensure("other.single_exact_form", len(out.result) == 1 and vc.eq(out.result[0], v))


# ---------------------------------------------------------------------------------------------
# expire


def seq_snapshot(vc, q):
    return SSeq(q.t, q.elem) if vc.mode == "sym" else list(q)


def seq_append(vc, q, e):
    if vc.mode == "sym":
        import z3
        return SSeq(z3.Concat(q.t, z3.Unit(sym_t(e))), q.elem)
    return list(q) + [e]


def seq_drop_first(vc, q):
    if vc.mode == "sym":
        import z3
        return SSeq(z3.SubSeq(q.t, 1, z3.Length(q.t) - 1), q.elem)
    return list(q)[1:]


def seq_equal(vc, a, b):
    if vc.mode == "sym":
        return SBool(a.t == b.t)
    return list(a) == list(b)


@scenario("expire.fifo_bound", functions=[S + ".expire"])
def s_expire(vc):
    """Generic in the entry type (entries are compared with != only): entries are integers here, the queue has symbolic
    LENGTH, the capacity is symbolic. The map has 3 keys with arbitrary (possibly equal) values."""
    q = vc.sym_seq("queue", "int")
    if vc.mode == "sym":
        q.mutable_list = True
    cap = vc.sym_int("cap", lo=0)
    vc.assume(len_(q) <= cap)  # (I1)
    keys = [vc.sym_str(f"k{i}") for i in range(3)]
    vals = [vc.sym_int(f"v{i}") for i in range(3)]
    vc.assume(And(keys[0] != keys[1], keys[0] != keys[2], keys[1] != keys[2]))
    store = vc.new(S, certs=vc.dict(list(zip(keys, vals))), expire_queue=q, STORE_CAP=cap)
    e = vc.sym_int("entry")
    q0 = seq_snapshot(vc, q)
    out = vc.call(S + ".expire", store, e)
    vc.ensure("no_exception", out.ok)
    if not out.ok:
        return
    q1 = store.expire_queue
    vc.ensure("bound.len_le_cap", len_(q1) <= cap)
    appended = seq_append(vc, q0, e)
    post = items_of(vc, store.certs)
    if vc.branch(len_(q0) + 1 > cap):
        vc.ensure("evict.fifo_oldest_dropped_newest_last", seq_equal(vc, q1, seq_drop_first(vc, appended)))
        d = appended[0]
        keep = [i for i in range(3) if not vc.branch(vals[i] == d)]
        vc.ensure("evict.exactly_the_keys_of_the_evicted_entry_removed", len(post) == len(keep))
        if len(post) == len(keep):
            for (k, v), i in zip(post, keep):
                vc.ensure(f"evict.frame[{i}]", And(k == keys[i], v == vals[i]))
    else:
        vc.ensure("noevict.appended", seq_equal(vc, q1, appended))
        vc.ensure("noevict.map_unchanged", len(post) == 3 and all(k is keys[i] or vc.mode == "native" and k == keys[i] for i, (k, v) in enumerate(post)))
        if len(post) == 3:
            for i, (k, v) in enumerate(post):
                vc.ensure(f"noevict.frame[{i}]", And(k == keys[i], v == vals[i]))


@scenario("expire.entries", functions=[S + ".expire", C + ".__eq__"])
def s_expire_entries(vc):
    """Real CertStoreEntry objects (dataclass equality -> Cert.__eq__ -> fingerprints): queue at capacity 2, a custom
    entry under a string key and a wildcard key, generated entries under tuple keys."""
    vc.summary(C + ".fingerprint", fingerprint_summary)
    fps = [vc.sym_bytes(f"fp{i}") for i in range(4)]
    # (I3) + freshness of the new certificate; the custom certificate is arbitrary but not one of the generated ones
    for i in range(4):
        for j in range(i + 1, 4):
            vc.assume(fps[i] != fps[j])
    g0, g1, new = [mk_entry(vc, mk_cert(vc, fps[i])) for i in range(3)]
    custom = mk_entry(vc, mk_cert(vc, fps[3]), chain_file="custom.pem")
    cn0, cn1 = vc.sym_str("cn0"), vc.sym_str("cn1")
    sans0, sans1 = gnames(vc, [dns(vc, cn0)]), gnames(vc, [dns(vc, cn1)])
    vc.assume(cn0 != cn1)
    k0, k1 = (cn0, sans0), (cn1, sans1)
    name = vc.sym_str("custom_name")
    vc.assume(name != "*")
    pre = [(name, custom), (k0, g0), ("*", custom), (k1, g1)]
    store = vc.new(S, certs=vc.dict(pre), expire_queue=vc.list([g0, g1]), STORE_CAP=2)
    out = vc.call(S + ".expire", store, new)
    vc.ensure("no_exception", out.ok)
    if not out.ok:
        return
    q = store.expire_queue
    vc.ensure("queue.fifo", len(q) == 2 and q[0] is g1 and q[1] is new)
    post = items_of(vc, store.certs)
    vc.ensure("map.only_keys_of_evicted_removed", len(post) == 3)
    if len(post) == 3:
        vc.ensure("map.custom_kept", And(post[0][1] is custom, vc.eq(post[0][0], name), post[1][1] is custom, vc.eq(post[1][0], "*")))
        vc.ensure("map.other_generated_kept", And(post[2][1] is g1, post[2][0][1] is sans1, vc.eq(post[2][0][0], cn1)))
    vc.ensure("inv.I2_tuple_keys_are_queued", all(any(v is x for x in q) for k, v in post if isa(k, tuple)))


# ---------------------------------------------------------------------------------------------
# add_cert


@scenario("add_cert", functions=[S + ".add_cert", C + ".cn", C + ".altnames"])
def s_add_cert(vc):
    has_cn = vc.case("has_cn", [True, False])
    nsan = vc.case("sans", [None, 0, 2])
    cn = vc.sym_str("cn")
    sv = [vc.sym_str(f"san{i}") for i in range(2)]
    san = None if nsan is None else [dns(vc, sv[i]) for i in range(nsan)]
    cert = mk_cert(vc, b"fp", [cn] if has_cn else [], san)
    entry = mk_entry(vc, cert, chain_file="c.pem")
    other = mk_entry(vc, mk_cert(vc, b"other"))
    old = vc.sym_str("old_key")
    names = [vc.sym_str("name0"), vc.sym_str("name1")]
    store = vc.new(S, certs=vc.dict([(old, other)]), expire_queue=vc.list([]), STORE_CAP=100)
    out = vc.call(S + ".add_cert", store, entry, *names)
    vc.ensure("no_exception", out.ok)
    if not out.ok:
        return
    post = items_of(vc, store.certs)
    want = ([cn] if has_cn else []) + (sv[:nsan] if nsan else []) + names
    # every key now mapping to the entry is one of: CN (if non-empty), a SAN value, a given name — and all of those are registered
    for i, w in enumerate(want):
        if i == 0 and has_cn:
            vc.ensure("registered.cn_if_nonempty", Implies(len_(cn) > 0, Or(*[And(vc.eq(k, w), v is entry) for k, v in post])))
        else:
            vc.ensure(f"registered[{i}]", Or(*[And(vc.eq(k, w), v is entry) for k, v in post]))
    for j, (k, v) in enumerate(post):
        if v is entry:
            vc.ensure(f"only_listed_names[{j}]", Or(*[vc.eq(k, w) for w in want]))
        else:
            vc.ensure(f"frame.other_entries_untouched[{j}]", And(v is other, vc.eq(k, old)))
    # the pre-existing key is still there: either untouched or (if it is one of the registered names) now mapping to the entry
    vc.ensure("frame.old_key_still_present", Or(*[vc.eq(k, old) for k, v in post]))
    vc.ensure("queue_untouched", len(store.expire_queue) == 0)


# ---------------------------------------------------------------------------------------------
# get_cert


def matches(k, x):
    """store's wildcard rule: registered name k serves requested DNS name x"""
    if is_sym(k) or is_sym(x):
        import z3
        kt, xt = sym_t(k), sym_t(x)
        return Or(k == x, And(startswith(k, "*."), SBool(z3.SuffixOf(z3.SubString(kt, 1, z3.Length(kt) - 1), xt))))
    return k == x or (k.startswith("*.") and x.endswith(k[1:]))


def mk_store(vc, ncustom, cap, queue, tuple_items):
    fps = []
    customs, ckeys = [], []
    for i in range(ncustom):
        fp = vc.sym_bytes(f"cfp{i}")
        customs.append(mk_entry(vc, mk_cert(vc, fp), chain_file=f"custom{i}.pem"))
        ckeys.append(vc.sym_str(f"ckey{i}"))
    for i in range(ncustom):
        for j in range(i + 1, ncustom):
            vc.assume(ckeys[i] != ckeys[j])
    ca = mk_cert(vc, b"ca-fp")
    store = vc.new(S, certs=vc.dict(list(zip(ckeys, customs)) + list(tuple_items)), expire_queue=vc.list(queue), STORE_CAP=cap,
                   default_privatekey=KEY, default_ca=ca, default_chain_file=None, default_chain_certs=vc.list([ca]))
    return store, ckeys, customs, ca


def dummy_cert_summary(calls):
    def f(vc, privkey, cacert, commonname, sans, organization=None, crl_url=None):
        fp = vc.fresh_bytes("newfp")
        c = vc.new(C, _cert=None, _fp=fp)
        calls.append(dict(privkey=privkey, cacert=cacert, cn=commonname, sans=sans, organization=organization, crl_url=crl_url, cert=c))
        return c
    return f


def request_names(vc, shape):
    """(cn, sans object, SAN values, `requested`). shape = (dots in the CN or None for no CN, [dots of each DNS SAN]).
    `requested` = [(guard, name)]: the names that take part in the lookup (the CN only when it is non-empty)."""
    cn_dots, san_dots = shape
    cn = None
    requested = []
    if cn_dots is not None:
        labels = [vc.sym_str(f"cn_l{i}") for i in range(cn_dots + 1)]
        for l in labels:
            dotfree(vc, l)
        cn = dotted(labels)
        requested.append((len_(cn) > 0, cn))
    sv = []
    for i, nd in enumerate(san_dots):
        labels = [vc.sym_str(f"san{i}_l{j}") for j in range(nd + 1)]
        for l in labels:
            dotfree(vc, l)
        sv.append(dotted(labels))
        requested.append((True, sv[-1]))
    sans = gnames(vc, [dns(vc, v) for v in sv])
    return cn, sans, sv, requested


def custom_serves(k, requested):
    """the registered name k serves one of the requested names (wildcard rule of the store)"""
    return Or(k == "*", *[And(g, matches(k, x)) for g, x in requested])


SHAPES = [(None, [0]), (0, []), (1, [1]), (2, []), (None, [1])]


def s_get_cert(vc, shape):
    cached = vc.case("cached", [False, True])
    vc.summary(C + ".fingerprint", fingerprint_summary)
    calls = []
    vc.summary("mitmproxy.certs:dummy_cert", dummy_cert_summary(calls))
    cn, sans, sv, requested = request_names(vc, shape)
    # one generated entry for other names is queued; optionally one for exactly the requested names
    ocn = vc.sym_str("other_cn")
    osans = gnames(vc, [dns(vc, ocn)])
    g_other = mk_entry(vc, mk_cert(vc, vc.sym_bytes("gfp0")))
    g_same = mk_entry(vc, mk_cert(vc, vc.sym_bytes("gfp1")))
    tuple_items = [((ocn, osans), g_other)]
    queue = [g_other]
    # the other generated key is for different names
    vc.assume(Not(vc.eq((ocn, osans), (cn, sans))))
    if cached:
        # key equal to the request but a distinct tuple / GeneralNames object (equality, not identity)
        cn2 = cn
        sans2 = gnames(vc, [dns(vc, v) for v in sv])
        tuple_items.append(((cn2, sans2), g_same))
        queue.append(g_same)
    cap = vc.sym_int("cap", lo=len(queue))  # (I1)
    store, ckeys, customs, ca = mk_store(vc, 2, cap, queue, tuple_items)
    org, crl = vc.opt("org", vc.sym_str("org_v")), vc.opt("crl", vc.sym_str("crl_v"))
    pre_items = items_of(vc, store.certs)
    out = vc.call(S + ".get_cert", store, cn, sans, org, crl)
    vc.ensure("no_exception", out.ok)
    if not out.ok:
        return
    r = out.result
    post = items_of(vc, store.certs)
    q = store.expire_queue
    custom_hit = [custom_serves(ckeys[i], requested) for i in range(2)]
    any_custom = Or(*custom_hit)
    is_custom = [r is customs[i] for i in range(2)]
    if any(is_custom):
        i = is_custom.index(True)
        # (a) a registered custom certificate is only served for a requested name it matches (exactly or by wildcard rule)
        vc.ensure("custom.matches_a_requested_name", custom_hit[i])
        vc.ensure("custom.nothing_generated", len(calls) == 0)
        vc.ensure("custom.store_unchanged", len(post) == len(pre_items) and all(a[1] is b[1] for a, b in zip(post, pre_items)) and len(q) == len(queue))
    elif r is g_same and cached:
        # (b) the cached entry for exactly these names
        vc.ensure("cached.no_custom_match", Not(any_custom))
        vc.ensure("cached.nothing_generated", len(calls) == 0)
        vc.ensure("cached.store_unchanged", len(post) == len(pre_items) and all(a[1] is b[1] for a, b in zip(post, pre_items)) and len(q) == len(queue))
    else:
        # (a) generated for exactly the requested names
        vc.ensure("fresh.generated_once", len(calls) == 1)
        if len(calls) != 1:
            return
        c = calls[0]
        vc.ensure("fresh.is_the_generated_cert", isa(r, _cls(E)) and r.cert is c["cert"])
        vc.ensure("fresh.exact_names", And(vc.eq(c["cn"], cn), c["sans"] is sans))
        vc.ensure("fresh.issued_by_default_ca", And(vc.eq(c["privkey"], KEY), c["cacert"] is ca._cert, vc.eq(r.privatekey, KEY)))
        vc.ensure("fresh.org_and_crl_passed", And(vc.eq(c["organization"], org), vc.eq(c["crl_url"], crl)))
        # (b) generation only when nothing usable is registered or cached
        vc.ensure("fresh.only_if_no_custom_match", Not(any_custom))
        vc.ensure("fresh.only_if_not_cached", not cached)
        # stored under exactly (cn, sans) and queued; capacity respected; oldest evicted with its keys
        stored = [(k, v) for k, v in post if v is r]
        evict = vc.branch(len(queue) + 1 > cap)
        vc.ensure("fresh.bound", len(q) <= cap)
        if not evict:
            vc.ensure("fresh.stored_under_requested_key", And(len(stored) == 1 and isa(stored[0][0], tuple), vc.eq(stored[0][0], (cn, sans)) if stored else False))
            vc.ensure("fresh.queued_last", len(q) == len(queue) + 1 and q[-1] is r)
            vc.ensure("fresh.custom_keys_kept", all(any(v is customs[i] and k is ckeys[i] for k, v in post) for i in range(2)))
        else:
            vc.ensure("fresh.evicts_oldest", len(q) == len(queue) and (len(q) == 0 or q[-1] is r) and not any(x is g_other for x in q))
            vc.ensure("fresh.evicted_keys_removed", not any(v is g_other for k, v in post))
            vc.ensure("fresh.custom_keys_kept", all(any(v is customs[i] and k is ckeys[i] for k, v in post) for i in range(2)))
        vc.ensure("inv.I2_tuple_keys_are_queued", all(any(v is x for x in q) for k, v in post if isa(k, tuple)))


for _i, _shape in enumerate(SHAPES):
    # one scenario per request shape (run in parallel): CN with 0..2 dots or none x DNS SANs with 0..1 dots
    scenario(f"get_cert[cn={_shape[0]},sans={_shape[1]}]", functions=[S + ".get_cert", S + ".asterisk_forms", S + ".expire", "mitmproxy.certs:_fix_legacy_sans"],
             z3_timeout_ms=1500)(lambda vc, _shape=_shape: s_get_cert(vc, _shape))


def empty_name_key(ckeys, sv):
    """class of KF-C17-1: a custom certificate is registered under the empty name and an empty DNS SAN is requested"""
    if not sv:
        return False
    return And(Or(*[k == "" for k in ckeys]), Or(*[x == "" for x in sv]))


def _cls(ref):
    from pyvc.vc import resolve_ref
    return resolve_ref(ref)[2]


@scenario("get_cert.repeated_request", functions=[S + ".get_cert", S + ".expire"], z3_timeout_ms=4000)
def s_repeat(vc):
    """Two requests for equal names (distinct but equal argument objects), nothing in between: same entry (capacity >= 1)."""
    shape = vc.case("request", SHAPES[:3])
    vc.summary(C + ".fingerprint", fingerprint_summary)
    calls = []
    vc.summary("mitmproxy.certs:dummy_cert", dummy_cert_summary(calls))
    cn, sans, sv, requested = request_names(vc, shape)
    sans_again = gnames(vc, [dns(vc, v) for v in sv])
    cap = vc.sym_int("cap", lo=1)
    store, ckeys, customs, ca = mk_store(vc, 1, cap, [], [])
    o1 = vc.call(S + ".get_cert", store, cn, sans)
    o2 = vc.call(S + ".get_cert", store, cn, sans_again)
    vc.ensure("no_exception", o1.ok and o2.ok)
    if not (o1.ok and o2.ok):
        return
    vc.ensure("same_entry", o1.result is o2.result)
    vc.ensure("at_most_one_generation", len(calls) <= 1)
    vc.ensure("bound", len(store.expire_queue) <= cap)


# =============================================================================================
# T2: the real CertStore (real dummy_cert, real cryptography objects) over all operation sequences up to a bound, checked
# against an executable model: FIFO cache of capacity CAP keyed by (cn, sans) + the wildcard rule for custom certificates.

_CA = None


def _ca():
    """one CA per process (key generation is slow)"""
    global _CA
    if _CA is None:
        from mitmproxy import certs
        key, ca = certs.create_ca("verif", "verif CA", 2048)
        _CA = (key, ca)
    return _CA


def rule_matches(k: str, x: str) -> bool:
    """registered name k serves requested name x (independent statement of the store's wildcard rule)"""
    if k == "*" or k == x:
        return True
    if k.startswith("*."):
        suffix = k[1:]  # ".example.com"
        return any(x[i:] == suffix for i in range(len(x)) if x[i] == ".")
    return False


def _new_store(cap):
    from mitmproxy import certs
    key, ca = _ca()
    st = certs.CertStore(key, certs.Cert(ca), None, b"", None)
    st.STORE_CAP = cap
    return st


def _check_invariant(b, st, cap, inp):
    q = st.expire_queue
    if len(q) > cap:
        b.fail("certstore.bound.queue_le_cap", inp, f"len(queue)={len(q)} cap={cap}")
    tk = [(k, v) for k, v in st.certs.items() if isinstance(k, tuple)]
    if len(tk) > cap:
        b.fail("certstore.bound.generated_keys_le_cap", inp, f"{len(tk)} generated keys, cap={cap}")
    for k, v in tk:
        if not any(v is x for x in q):
            b.fail("certstore.inv.generated_key_is_queued", inp, f"key {k!r} maps to an entry that is not in the queue")
    if len({id(x) for x in q}) != len(q):
        b.fail("certstore.inv.queue_entries_distinct", inp, "duplicate entry in expire_queue")


def _run_sequence(b, seq, names, customs, cap, kf=False):
    """seq of ("get", name index) / ("add", custom index). Returns nothing; records failures."""
    from cryptography import x509
    from mitmproxy import certs
    key, ca = _ca()
    st = _new_store(cap)
    registered = {}  # key string -> custom entry (model of the custom part of the map)
    cache = []  # model FIFO: [(key tuple, entry)]
    seen_entries = []
    inp = {"seq": [list(x) for x in seq], "cap": cap}
    sfx = "[KF-C17-1]" if kf else ""
    for op, i in seq:
        if op == "add":
            entry, extra = customs[i]
            st.add_cert(entry, *extra)
            if entry.cert.cn:
                registered[entry.cert.cn] = entry
            for a in entry.cert.altnames:
                registered[str(a.value)] = entry
            for e in extra:
                registered[e] = entry
            for k, v in registered.items():
                if st.certs.get(k) is not v:
                    b.fail("certstore.add_cert.registers_cn_sans_names", inp, f"key {k!r} not mapped to the registered entry")
        else:
            cn, sanvals = names[i]
            sans = [x509.DNSName(v) for v in sanvals]
            r = st.get_cert(cn, sans)
            req = ([cn] if cn else []) + list(sanvals)
            allowed_custom = [v for k, v in registered.items() if any(rule_matches(k, x) for x in req)]
            is_custom = any(r is v for v in registered.values())
            mkey = (cn, tuple(sanvals))
            if is_custom:
                if not any(r is v for v in allowed_custom):
                    b.fail("certstore.custom_only_for_matching_name", inp, f"request {req} served custom cert {r.cert!r}")
            else:
                # generated: exactly the requested names, issued by the CA
                got_sans = [str(a.value) for a in r.cert.altnames]
                if got_sans != list(sanvals) or (r.cert.cn or None) != (cn if cn and len(cn) < 64 else None):
                    b.fail("certstore.generated_for_exactly_requested_names", inp, f"request cn={cn!r} sans={sanvals} got cn={r.cert.cn!r} sans={got_sans}")
                if r.cert.issuer != certs.Cert(ca).subject:
                    b.fail("certstore.generated_issued_by_ca", inp, f"issuer {r.cert.issuer}")
                if allowed_custom:
                    b.fail("certstore.custom_preferred_over_generation" + sfx, inp, f"request {req}: a registered certificate matches but a generated one was served")
                hit = [e for k, e in cache if k == mkey]
                if hit:
                    if r is not hit[0]:
                        b.fail("certstore.repeated_request_same_entry" + sfx, inp, f"request {req} cached but a different certificate was returned")
                        cache = [(k, e) for k, e in cache if k != mkey]
                        cache.append((mkey, r))
                else:
                    if any(r is e for e in seen_entries):
                        b.fail("certstore.evicted_entry_not_served_again", inp, f"request {req}")
                    cache.append((mkey, r))
                    if len(cache) > cap:
                        cache.pop(0)
                seen_entries.append(r)
            if not kf:
                # model and real store agree on what is cached
                real_keys = sorted(((k[0], tuple(str(a.value) for a in k[1])) for k in st.certs if isinstance(k, tuple)), key=repr)
                if real_keys != sorted((k for k, _ in cache), key=repr):
                    b.fail("certstore.cache_contents_match_fifo_model", inp, f"real {real_keys} model {[k for k, _ in cache]}")
        if not kf:
            _check_invariant(b, st, cap, inp)
        else:
            if len(st.expire_queue) > cap:
                b.fail("certstore.bound.queue_le_cap", inp, f"len(queue)={len(st.expire_queue)}")


def bounded(tier, seed):
    import itertools
    from pathlib import Path
    from cryptography import x509
    from mitmproxy import certs

    b = Bounded()
    key, ca = _ca()
    cap = 2
    depth = 4 if tier == "quick" else 6
    names = [("a.example", ["a.example"]), ("b.example", ["b.example", "www.b.example"]), ("x.a.example", ["x.a.example"]), (None, ["c.other"])]

    def custom(cn, sanvals):
        c = certs.dummy_cert(key, ca, cn, [x509.DNSName(v) for v in sanvals])
        return certs.CertStoreEntry(c, key, Path("custom.pem"), [c])

    customs = [(custom("a.example", ["a.example"]), ()), (custom("wild", ["*.a.example"]), ("*.b.example",))]
    syms = [("get", i) for i in range(4)] + [("add", j) for j in range(2)]
    b.rule = ("operation sequences over {get_cert for 4 name sets (exact, with extra SAN, sub-domain, no CN), add_cert of 2 custom certificates (exact name; wildcard SAN + wildcard name)} "
              f"on the real CertStore with STORE_CAP={cap} and the real dummy_cert; after every operation: bound, class invariant, returned entry is custom-and-matching or generated for exactly the "
              "requested names, identity of repeated requests and cache contents equal to a FIFO model; the SANs given as list/tuple/GeneralNames/generator/map/iter; distinct = sequence; non-trivial = more distinct generated requests than the capacity or a custom registration")
    b.bound = f"all sequences of length <= {depth} over 6 operations"
    b.exhaustive = True
    for n in range(1, depth + 1):
        for seq in itertools.product(syms, repeat=n):
            _run_sequence(b, seq, names, customs, cap)
            gets = {i for op, i in seq if op == "get"}
            b.case(seq, nontrivial=len(gets) > cap or any(op == "add" for op, _ in seq))
    # star certificate and the class of KF-C17-1 (custom certificate registered under the empty name, empty DNS SAN requested)
    star = [(custom("star", ["star.example"]), ("*",))]
    for n in range(1, 4):
        for seq in itertools.product([("get", 0), ("get", 3), ("add", 0)], repeat=n):
            _run_sequence(b, seq, names, star, cap)
            b.case(("star", seq))
    empty = [(custom("e", ["e.example"]), ("",))]
    enames = [(None, [""]), ("a.example", ["a.example", ""]), ("a.example", ["a.example"])]
    for n in range(1, 5):
        for seq in itertools.product([("get", 0), ("get", 1), ("get", 2), ("add", 0)], repeat=n):
            has_kf = False
            reg = False
            for op, i in seq:
                reg = reg or op == "add"
                has_kf = has_kf or (op == "get" and reg and i in (0, 1))
            _run_sequence(b, seq, enames, empty, cap, kf=has_kf)
            b.case(("empty", seq))
    # the requested names may be given as any iterable of general names (signature Iterable[x509.GeneralName]): lists, tuples,
    # GeneralNames and one-shot iterators (generator, map, iter) must all give a certificate for exactly the requested names,
    # stored under exactly that key
    forms = {
        "list": lambda vals: [x509.DNSName(v) for v in vals],
        "tuple": lambda vals: tuple(x509.DNSName(v) for v in vals),
        "GeneralNames": lambda vals: x509.GeneralNames([x509.DNSName(v) for v in vals]),
        "generator": lambda vals: (x509.DNSName(v) for v in vals),
        "map": lambda vals: map(x509.DNSName, vals),
        "iter": lambda vals: iter([x509.DNSName(v) for v in vals]),
    }
    for fname, mk in forms.items():
        for vals in (["one.example"], ["first.example", "second.example"], ["a.example", "b.example", "c.example"], []):
            inp = {"sans_given_as": fname, "sans": vals}
            b.case(("sans-form", fname, tuple(vals)))
            try:
                st = _new_store(cap)
                r1 = st.get_cert("cn.example", mk(vals))
                got = [str(a.value) for a in r1.cert.altnames]
                if got != vals:
                    b.fail("certstore.any_iterable.generated_for_exactly_requested_names", inp, f"certificate names {got}")
                keys = [(k[0], [str(a.value) for a in k[1]]) for k in st.certs if isinstance(k, tuple)]
                if keys != [("cn.example", vals)]:
                    b.fail("certstore.any_iterable.stored_under_exactly_requested_key", inp, f"keys {keys}")
                r2 = st.get_cert("cn.example", [x509.DNSName(v) for v in vals])
                if r2 is not r1:
                    b.fail("certstore.any_iterable.repeated_request_same_entry", inp, "list form of the same names got another certificate")
                if vals:
                    other = ["different.example"] + vals[1:]
                    r3 = st.get_cert("cn.example", mk(other))
                    if r3 is r1 or [str(a.value) for a in r3.cert.altnames] != other:
                        b.fail("certstore.any_iterable.different_first_name_different_certificate", inp, f"names {[str(a.value) for a in r3.cert.altnames]} for request {other}")
                c = certs.dummy_cert(key, ca, "cn.example", mk(vals))
                if [str(a.value) for a in c.altnames] != vals:
                    b.fail("dummy_cert.any_iterable.exactly_requested_names", inp, f"{[str(a.value) for a in c.altnames]}")
            except Exception as e:
                b.fail("certstore.any_iterable.total", inp, f"{type(e).__name__}: {e}")
    # asterisk_forms against the rule on many names (incl. empty labels, leading/trailing dots, > 3 dots)
    alphabet = ["a", "bb", "", "*"]
    for n in range(1, 6):
        for labels in itertools.product(alphabet, repeat=n):
            dn = ".".join(labels)
            forms = certs.CertStore.asterisk_forms(dn)
            b.case(("forms", dn))
            if forms[0] != dn or "*" in forms[1:] or len(forms) != n:
                b.fail("asterisk_forms.shape", dn, repr(forms))
            for f in forms[1:]:
                if not (f.startswith("*.") and dn.endswith(f[1:])):
                    b.fail("asterisk_forms.label_suffix", dn, repr(forms))
            want = [dn] + ["*." + ".".join(labels[j:]) for j in range(1, n)]
            if forms != want:
                b.fail("asterisk_forms.all_label_suffixes_most_specific_first", dn, f"{forms} != {want}")
            for f in forms:
                if not rule_matches(f, dn):
                    b.fail("asterisk_forms.consistent_with_rule", dn, f)
    return b
