"""Shared pre-state builders for contracts on proxy layers. Every builder works in proof mode (symbolic objects)
and in native mode (real objects created with object.__new__ + fields), so scenarios replay on the real code.

Aliasing set up here (stated once): context.client and context.server are two distinct connection objects with
distinct ids; a flow's client_conn/server_conn alias them.
"""
from pyvc.api import *

CS = "mitmproxy.connection:ConnectionState"


def conn_state(vc, name):
    from mitmproxy.connection import ConnectionState
    return vc.sym_enum(name, ConnectionState)


def mk_client(vc, name="client", state=None, **kw):
    from mitmproxy.connection import ConnectionState
    f = dict(
        peername=("127.0.0.1", 51234), sockname=("127.0.0.1", 8080), state=state if state is not None else ConnectionState.OPEN,
        id=name + "-id", transport_protocol="tcp", error=None, tls=False, certificate_list=[], alpn=None,
        alpn_offers=[], cipher=None, cipher_list=[], tls_version=None, sni=None, timestamp_start=1.0,
        timestamp_end=None, timestamp_tls_setup=None, mitmcert=None, proxy_mode=None,
    )
    f.update(kw)
    return vc.new("mitmproxy.connection:Client", **f)


def mk_server(vc, name="server", state=None, **kw):
    from mitmproxy.connection import ConnectionState
    f = dict(
        peername=None, sockname=None, state=state if state is not None else ConnectionState.CLOSED,
        id=name + "-id", transport_protocol="tcp", error=None, tls=False, certificate_list=[], alpn=None,
        alpn_offers=[], cipher=None, cipher_list=[], tls_version=None, sni=None, timestamp_start=None,
        timestamp_end=None, timestamp_tls_setup=None, timestamp_tcp_setup=None, address=("example.com", 443), via=None,
    )
    f.update(kw)
    return vc.new("mitmproxy.connection:Server", **f)


def mk_options(vc, **kw):
    """A stand-in options object exposing exactly the given option values (unknown options => Unsupported in proof mode,
    AttributeError natively)."""
    if vc.mode == "native":
        from mitmproxy import options
        o = options.Options()
        # register the options addons normally contribute, so that plain attribute access works natively
        from mitmproxy.addons import proxyserver, proxyauth, next_layer
        for k, v in kw.items():
            if k not in o:
                o.add_option(k, type(v) if v is not None else str | None, v, "")
            else:
                o.update(**{k: v})
        return o
    return vc.new("mitmproxy.options:Options", _options=vc.dict([(k, vc.new("mitmproxy.optmanager:_Option", name=k, value=v)) for k, v in kw.items()]), **kw)


def mk_context(vc, client=None, server=None, options=None, layers=None):
    client = client if client is not None else mk_client(vc)
    server = server if server is not None else mk_server(vc)
    return vc.new("mitmproxy.proxy.context:Context", client=client, server=server, options=options, layers=vc.list(layers or []))


def flag_has(st, flag):
    """`st & flag` is non-empty, for a single-bit Flag member `flag` (symbolic or native state)."""
    if isinstance(st, SEnum):
        import z3
        return SBool((st.t / flag.value) % 2 == 1)
    return bool(st & flag)


def trace_kinds(trace):
    return [type(c).__name__ if not isinstance(c, SObj) else c.cls.__name__ for c in trace]


def is_cmd(c, clsname):
    return (c.cls.__name__ if isinstance(c, SObj) else type(c).__name__) == clsname
