"""C27 — DNS replies correspond to client queries; TCP framing ignores segmentation (RFC 1035 §4.1.1, §4.2.2; RFC 7766)."""
from pyvc.api import *
from props.prelude import *

CLAIM = "other"
M = "mitmproxy.dns:DNSMessage"
LY = "mitmproxy.proxy.layers.dns:"
L = LY + "DNSLayer"
SERVFAIL = 2


def SE():
    import struct
    return struct.error


def raised_is(out, cls):
    t = out.raised_type()
    return t is not None and issubclass(t, cls)


def raise_(vc, cls, msg="x"):
    if vc.mode == "native":
        raise cls(msg)
    vc.it.raise_(cls, msg)


def ret_(vc, v):
    return v if vc.mode == "native" else lift(v)


def fields_of(vc, o):
    return o.fields if vc.mode == "sym" else o.__dict__


def _is_method(vc, v, name):
    if vc.mode == "sym":
        return hasattr(v, "func") and v.func.qualname.endswith("." + name)
    return getattr(v, "__name__", "") == name or getattr(getattr(v, "__wrapped__", None), "__name__", "") == name


def mk_msg(vc, pfx, questions=None, **over):
    f = dict(id=vc.sym_int(pfx + "id", lo=0, hi=65535), query=vc.sym_bool(pfx + "query"), op_code=vc.sym_int(pfx + "op_code", lo=0, hi=15),
             authoritative_answer=vc.sym_bool(pfx + "aa"), truncation=vc.sym_bool(pfx + "tc"), recursion_desired=vc.sym_bool(pfx + "rd"),
             recursion_available=vc.sym_bool(pfx + "ra"), reserved=vc.sym_int(pfx + "z", lo=0, hi=7), response_code=vc.sym_int(pfx + "rcode", lo=0, hi=15),
             questions=questions if questions is not None else vc.list([vc.new("mitmproxy.dns:Question", name=vc.sym_str(pfx + "qname"), type=vc.sym_int(pfx + "qtype"), class_=vc.sym_int(pfx + "qclass"))]),
             answers=vc.list([vc.new("mitmproxy.dns:ResourceRecord", name="x", type=1, class_=1, ttl=1, data=b"\x01\x02\x03\x04")]), authorities=vc.list([]), additionals=vc.list([]), timestamp=1.0)
    f.update(over)
    return vc.new(M, **f)


# =============================================================================================
# synthesised replies

def check_reply_to(vc, rep, q, tag):
    vc.ensure(f"{tag}.same_id", rep.id == q.id)
    vc.ensure(f"{tag}.is_response", vc.eq(rep.query, False))
    vc.ensure(f"{tag}.same_opcode", rep.op_code == q.op_code)
    vc.ensure(f"{tag}.same_recursion_desired", vc.eq(rep.recursion_desired, q.recursion_desired))
    vc.ensure(f"{tag}.same_question_section", rep.questions is q.questions)
    vc.ensure(f"{tag}.flags_cleared", And(vc.eq(rep.authoritative_answer, False), vc.eq(rep.truncation, False), rep.reserved == 0))


@scenario("message.fail", functions=[M + ".fail"])
def s_fail(vc):
    """The error reply to a query keeps its id, opcode, RD flag and question section, is a response and carries the error code."""
    q = mk_msg(vc, "q_")
    code = vc.sym_int("response_code", lo=0, hi=15)
    out = vc.call(M + ".fail", q, code)
    if vc.branch(code == 0):
        vc.ensure("noerror.refused", raised_is(out, ValueError))
        return
    vc.ensure("ok", out.ok)
    if not out.ok:
        return
    r = out.result
    check_reply_to(vc, r, q, "reply")
    vc.ensure("reply.code", r.response_code == code)
    vc.ensure("reply.no_records", And(len_(r.answers) == 0, len_(r.authorities) == 0, len_(r.additionals) == 0))
    vc.ensure("reply.recursion_not_available", vc.eq(r.recursion_available, False))
    vc.ensure("query.unchanged", And(q.id == fields_of(vc, q)["id"], len_(q.answers) == 1))


@scenario("message.succeed", functions=[M + ".succeed"])
def s_succeed(vc):
    q = mk_msg(vc, "q_")
    answers = vc.list([vc.new("mitmproxy.dns:ResourceRecord", name="a", type=1, class_=1, ttl=60, data=b"\x7f\x00\x00\x01")])
    out = vc.call(M + ".succeed", q, answers)
    vc.ensure("ok", out.ok)
    if not out.ok:
        return
    r = out.result
    check_reply_to(vc, r, q, "reply")
    vc.ensure("reply.noerror", r.response_code == 0)
    vc.ensure("reply.answers", r.answers is answers)
    vc.ensure("reply.other_sections_empty", And(len_(r.authorities) == 0, len_(r.additionals) == 0))


# =============================================================================================
# the layer

def byte_array(vc, b):
    if vc.mode == "native":
        return bytearray(b)
    from pyvc import libx_dns
    return libx_dns.SByteArray(lift(b).t)


def mk_dns_layer(vc, cproto="udp", sproto="udp", server_open=True, address=("8.8.8.8", 53), flows=(), req_buf=b"", resp_buf=b"", state="state_query"):
    from mitmproxy.connection import ConnectionState
    client = mk_client(vc, transport_protocol=cproto)
    server = mk_server(vc, transport_protocol=sproto, address=address, state=ConnectionState.OPEN if server_open else ConnectionState.CLOSED,
                       timestamp_start=2.0 if server_open else None)
    ctx = mk_context(vc, client, server)
    layer = vc.new(L, context=ctx, flows=vc.dict(list(flows)), req_buf=byte_array(vc, req_buf), resp_buf=byte_array(vc, resp_buf), debug=None, _paused=None, _paused_event_queue=None)
    if state:
        layer._handle_event = vc.bound(layer, L + "." + state)
    return layer, client, server


def mk_flow(vc, client, server, request=None, response=None, error=None, with_request=True, ident="flow-id"):
    f = dict(client_conn=client, server_conn=server, response=response, live=True, error=error,
             id=ident, intercepted=False, marked="", is_replay=None, metadata=vc.dict([]), comment="", timestamp_created=1.0, _backup=None)
    if with_request:
        f["request"] = request
    return vc.new("mitmproxy.dns:DNSFlow", **f)


class PackLog:
    """Summary of pack_message (contract: C26 `pack_message`): an uninterpreted wire form per call; records (message, transport)."""

    def __init__(self):
        self.calls = []

    def __call__(self, vc, message, transport_protocol):
        i = len(self.calls)
        w = vc.sym_bytes(f"wire{i}")
        self.calls.append((message, transport_protocol, w))
        return ret_(vc, w)


def has_request(vc, flow):
    """the flow carries its query: attribute `request` is set to a message"""
    d = fields_of(vc, flow)
    return "request" in d and not isnone(d["request"])


@scenario("layer.handle_error", functions=[L + ".handle_error", M + ".fail"])
def s_handle_error(vc):
    """When no upstream answer is possible the client gets a SERVFAIL for *its* query (id, opcode, RD, question), once; the
    flow reported to dns_error carries the query and the error."""
    cproto = vc.case("client_transport", ["udp", "tcp"])
    layer, client, server = mk_dns_layer(vc, cproto, "udp")
    q = mk_msg(vc, "q_")
    flow = mk_flow(vc, client, server, request=q)
    err = vc.sym_str("err")
    packs = PackLog()
    vc.summary(LY + "pack_message", packs)
    out = vc.call(L + ".handle_error", layer, flow, err, on_yield=lambda cmd: None)
    vc.ensure("no_exception", out.ok)
    if not out.ok:
        return
    kinds = trace_kinds(out.trace)
    vc.ensure("trace", kinds == ["DnsErrorHook", "SendData"])
    if kinds != ["DnsErrorHook", "SendData"]:
        return
    vc.ensure("hook.flow", out.trace[0].flow is flow and has_request(vc, flow) and flow.request is q)
    vc.ensure("hook.error_recorded", not isnone(flow.error) and vc.eq(flow.error.msg, err))
    vc.ensure("packed_once", len(packs.calls) == 1)
    if len(packs.calls) != 1:
        return
    m, proto, w = packs.calls[0]
    check_reply_to(vc, m, q, "servfail")
    vc.ensure("servfail.code", m.response_code == SERVFAIL)
    vc.ensure("servfail.no_records", And(len_(m.answers) == 0, len_(m.authorities) == 0, len_(m.additionals) == 0))
    vc.ensure("servfail.for_the_client_transport", vc.eq(proto, cproto))
    vc.ensure("sent.to_the_client", out.trace[1].connection is client and out.trace[1].data == w)


class UnpackMessageStub:
    """Summary of DNSLayer.unpack_message for the state machine scenario: n decoded messages with arbitrary ids, or a parse error."""

    def __init__(self, vc, n):
        self.fails = vc.sym_bool("parse_error")
        self.msgs = [mk_msg(vc, f"m{i}_") for i in range(n)]
        self.calls = []

    def __call__(self, vc, self_, data, from_client):
        self.calls.append((data, from_client))
        if vc.branch(self.fails):
            raise_(vc, SE())
        return list(self.msgs) if vc.mode == "native" else vc.list(self.msgs)


@scenario("layer.state_query.data", functions=[L + ".state_query", L + ".handle_request", L + ".handle_response"])
def s_state_query(vc):
    """Data from either side (message extraction abstracted): a parse error closes that connection and ends the layer; every
    dns_request / dns_response hook is fired with a flow that carries its query; a reply goes to the client only for a flow whose
    query has the reply's id; an upstream message whose id matches no pending query is dropped (it used to be reported on a
    flow without `request` and forwarded to the client: KF-C27-1, fixed in 210d5538b)."""
    from_client = vc.case("from", ["client", "server"]) == "client"
    n = vc.case("messages", [1, 2, 0])
    pending = vc.case("pending_flows", [1, 0])
    layer, client, server = mk_dns_layer(vc, "udp", "udp")
    pre = []
    for i in range(pending):
        pq = mk_msg(vc, f"p{i}_")
        pre.append((pq.id, mk_flow(vc, client, server, request=pq, ident=f"pending{i}"), pq))
    layer.flows = vc.dict([(k, f) for k, f, _ in pre])
    stub = UnpackMessageStub(vc, n)
    vc.summary(L + ".unpack_message", stub)
    vc.summary("mitmproxy.connection:Client.__str__", lambda v, self_: "client")   # only used in the log text
    vc.summary("mitmproxy.connection:Server.__str__", lambda v, self_: "server")
    packs = PackLog()
    vc.summary(LY + "pack_message", packs)
    data = vc.sym_bytes("data")
    src = client if from_client else server
    ev = vc.new("mitmproxy.proxy.events:DataReceived", connection=src, data=data)
    at_hook = {}   # the flow's query at the moment the hook fires (a later message with the same id may replace it)

    def on_yield(cmd):
        if is_cmd(cmd, "DnsRequestHook") or is_cmd(cmd, "DnsResponseHook") or is_cmd(cmd, "DnsErrorHook"):
            at_hook[id(cmd)] = fields_of(vc, cmd.flow).get("request")

    out = vc.call(L + ".state_query", layer, ev, on_yield=on_yield)
    vc.ensure("no_exception", out.ok)
    if not out.ok:
        return
    tr = out.trace
    kinds = trace_kinds(tr)
    vc.ensure("extraction.called_once_with_the_data", len(stub.calls) == 1 and stub.calls[0][0] is data and vc.eq(stub.calls[0][1], from_client))
    h = fields_of(vc, layer).get("_handle_event")
    if vc.branch(stub.fails):
        vc.ensure("parse_error.trace", kinds == ["Log", "CloseConnection"])
        if kinds == ["Log", "CloseConnection"]:
            vc.ensure("parse_error.closes_the_sender", tr[1].connection is src)
        vc.ensure("parse_error.layer_done", _is_method(vc, h, "state_done"))
        vc.ensure("parse_error.nothing_forwarded", len(packs.calls) == 0)
        return
    vc.ensure("ok.keeps_running", _is_method(vc, h, "state_query"))
    hooks = [c for c in tr if is_cmd(c, "DnsRequestHook") or is_cmd(c, "DnsResponseHook") or is_cmd(c, "DnsErrorHook")]
    sends = [c for c in tr if is_cmd(c, "SendData")]
    # a message from the server that answers no pending query is dropped: no hook, nothing forwarded (was KF-C27-1, fixed in 210d5538b)
    solicited = [True if from_client else (bool(pre) and vc.branch(Or(*[k == m.id for k, _, _ in pre]))) for m in stub.msgs]
    kept = [m for m, s_ in zip(stub.msgs, solicited) if s_]
    vc.ensure("one_hook_per_message", len(hooks) == len(kept))
    vc.ensure("one_forward_per_message", len(sends) == len(kept) and len(packs.calls) == len(kept))
    if len(hooks) != len(kept) or len(sends) != len(kept) or len(packs.calls) != len(kept):
        return
    for i, msg in enumerate(kept):
        hk, snd, (pm, proto, w) = hooks[i], sends[i], packs.calls[i]
        vc.ensure(f"msg{i}.forwarded_message_is_the_decoded_one", pm is msg and snd.data == w)
        fl = hk.flow
        if from_client:
            vc.ensure(f"msg{i}.request_hook", is_cmd(hk, "DnsRequestHook"))
            vc.ensure(f"msg{i}.flow_carries_the_query", at_hook.get(id(hk)) is msg)
            vc.ensure(f"msg{i}.goes_to_server", snd.connection is server)
            found = [f for k, f in (layer.flows.items if vc.mode == "sym" else list(layer.flows.items())) if vc.branch(k == msg.id)]
            vc.ensure(f"msg{i}.flow_registered_under_its_id", len(found) >= 1 and found[0] is fl)
        else:
            vc.ensure(f"msg{i}.response_hook", is_cmd(hk, "DnsResponseHook"))
            rq = at_hook.get(id(hk))
            vc.ensure(f"msg{i}.reported_flow_carries_its_query", rq is not None and not isnone(rq))
            vc.ensure(f"msg{i}.goes_to_client", snd.connection is client)
            if rq is not None and not isnone(rq):
                vc.ensure(f"msg{i}.reply_id_matches_the_query", rq.id == msg.id)
                vc.ensure(f"msg{i}.flow_is_the_pending_one", any(fl is f and rq is q for _, f, q in pre))


@scenario("layer.state_query.closed", functions=[L + ".state_query"])
def s_state_closed(vc):
    """When one side closes, the other side is closed (if open), the layer ends and every flow stops being live; nothing is sent."""
    from_client = vc.case("from", ["client", "server"]) == "client"
    server_open = vc.case("server_open", [True, False])
    layer, client, server = mk_dns_layer(vc, "tcp", "tcp", server_open)
    q = mk_msg(vc, "p_")
    fl = mk_flow(vc, client, server, request=q)
    layer.flows = vc.dict([(q.id, fl)])
    src = client if from_client else server
    ev = vc.new("mitmproxy.proxy.events:ConnectionClosed", connection=src)
    out = vc.call(L + ".state_query", layer, ev, on_yield=lambda cmd: None)
    vc.ensure("no_exception", out.ok)
    if not out.ok:
        return
    kinds = trace_kinds(out.trace)
    other_open = server_open if from_client else True   # the client connection is open in this pre-state
    vc.ensure("trace", kinds == (["CloseConnection"] if other_open else []))
    if kinds == ["CloseConnection"]:
        vc.ensure("closes_the_other_side", out.trace[0].connection is (server if from_client else client))
    vc.ensure("layer_done", _is_method(vc, fields_of(vc, layer).get("_handle_event"), "state_done"))
    vc.ensure("flows_not_live", vc.eq(fl.live, False))


# =============================================================================================
# message extraction (UDP datagrams, TCP length-prefixed frames)

class UnpackLog:
    """Summary of DNSMessage.unpack (contract: C25): the decoded message is an uninterpreted function of the bytes, and whether
    decoding fails is an uninterpreted predicate of the bytes (so two runs on the same frame agree). Records every call."""

    def __init__(self):
        self.calls = []

    def fails(self, vc, data):
        if vc.mode == "native":
            return self.native_fails(data)
        import z3
        from pyvc import lib
        return SBool(lib.uf("dns_unpack_fails", z3.StringSort(), z3.BoolSort())(data.t))

    def native_fails(self, data):
        # natively the uninterpreted predicate is instantiated by an arbitrary fixed one (any instance is a valid replay)
        return bytes(data[:1]) == b"\xff"

    def __call__(self, vc, cls, data, timestamp=None):
        self.calls.append(data)
        if vc.branch(self.fails(vc, data)):
            raise_(vc, SE())
        return ("msg", bytes(data)) if vc.mode == "native" else STuple([SStr("msg"), data])


_REAL = {}


def _register_oracle():
    from pyvc import lib
    lib.UF_ORACLES.setdefault("dns_unpack_fails", lambda s: s[:1] == "\xff")


_register_oracle()
STREAMS = [b"", b"\x00", b"\x00\x03abc", b"\x00\x03abc\x00\x02de", b"\x00\x03abc\x00", b"\x00\x03abc\x00\x05d", b"\x00\x00", b"\x00\x03abc\x00\x00", b"\x00\x01\xff",
           b"\x00\x03abc\x00\x01\xff", b"\x00\x05ab", b"\x00\x03abc\x00\x02de\x00\x01f", b"abc", b"\xffx"]
# candidates must bind every symbol the uninterpreted decoder predicate is applied to (else the model is not realistic)
STREAM_CANDS = [dict(stream=x) for x in STREAMS + [b"\x00\x01a\x00\x01b\x00\x01c", b"\x00\x01a\x00\x01\xff\x00\x01c", b"\x00\x01a\x00\x01b\x00\x00"]]
DATAGRAM_CANDS = [dict(data=x) for x in STREAMS]
BUFFER_CANDS = [dict(kept=x[:k], data=x[k:]) for x in STREAMS for k in (0, 1, 2, 4, 5) if k <= len(x)]
PAYLOAD_CANDS = [dict(p1_0=1, p1_1=2, p1_2=3, p2_0=a, p2_1=5) for a in (4, 255)]


def be16_or(buf, i):
    """big-endian 16-bit value at i, or -1 if it does not lie inside buf (total in both modes)"""
    if is_sym(buf) or is_sym(i):
        return be16(buf, i)
    return buf[i] * 256 + buf[i + 1] if 0 <= i and i + 1 < len(buf) else -1


def install_unpack(vc, log):
    """replace DNSMessage.unpack (a classmethod) by the summary in both modes; returns undo()"""
    if vc.mode == "native":
        import mitmproxy.dns as D
        orig = D.DNSMessage.__dict__["unpack"]
        _REAL.setdefault("unpack", D.DNSMessage.unpack)
        D.DNSMessage.unpack = classmethod(lambda cls, data, timestamp=None: log(vc, cls, data, timestamp))
        return lambda: setattr(D.DNSMessage, "unpack", orig)
    vc.summary(M + ".unpack", log)
    return lambda: None


def msg_data(m):
    return m[1]


@scenario("extract.udp", functions=[L + ".unpack_message"], candidates=DATAGRAM_CANDS)
def s_extract_udp(vc):
    """UDP: one datagram is one message; the TCP buffers are not touched."""
    from_client = vc.case("from", ["client", "server"]) == "client"
    layer, client, server = mk_dns_layer(vc, "udp", "udp")
    data = vc.sym_bytes("data")
    log = UnpackLog()
    undo = install_unpack(vc, log)
    try:
        out = vc.call(L + ".unpack_message", layer, data, from_client)
    finally:
        undo()
    vc.ensure("decoded_once_from_the_datagram", len(log.calls) == 1 and log.calls[0] is data)
    if vc.branch(log.fails(vc, data)):
        vc.ensure("bad_datagram.parse_error", raised_is(out, SE()))
        return
    vc.ensure("ok", out.ok)
    if out.ok:
        vc.ensure("one_message", len_(out.result) == 1)
        if len_(out.result) == 1:
            vc.ensure("the_datagram", msg_data(out.result[0]) == data)
    vc.ensure("buffers_untouched", And(len_(layer.req_buf) == 0, len_(layer.resp_buf) == 0))


def run_extract(vc, layer, data, from_client, log):
    undo = install_unpack(vc, log)
    try:
        return vc.call(L + ".unpack_message", layer, data, from_client)
    finally:
        undo()


def check_frames(vc, stream, log_calls, tag):
    """the decoder was applied to consecutive length-prefixed frames of `stream`, in order; returns the offset after the last one"""
    pos = 0
    for i, d in enumerate(log_calls):
        n = be16_or(stream, pos)
        vc.ensure(f"{tag}.frame{i}.is_the_next_length_prefixed_frame", And(pos + 2 + n <= len_(stream), n > 0, d == stream[pos + 2:pos + 2 + n]))
        pos = pos + 2 + n
    return pos


@scenario("extract.tcp.frames", functions=[L + ".unpack_message"], max_unroll=3, candidates=STREAM_CANDS)
def s_extract_tcp(vc):
    """TCP (RFC 1035 §4.2.2), empty buffer: the segment is cut into two-octet-length-prefixed frames; every complete frame is
    decoded, in order; what remains (an incomplete frame) is kept for the next segment; a zero length prefix is a parse error.
    (Up to 2 complete frames per call.)"""
    from_client = vc.case("from", ["client", "server"]) == "client"
    stream = vc.sym_bytes("stream")
    layer, client, server = mk_dns_layer(vc, "tcp", "tcp")
    log = UnpackLog()
    out = run_extract(vc, layer, stream, from_client, log)
    vc.ensure("total.only_parse_error", Or(out.ok, raised_is(out, SE())))
    pos = check_frames(vc, stream, log.calls, "decode")
    buf = layer.req_buf if from_client else layer.resp_buf
    other = layer.resp_buf if from_client else layer.req_buf
    Ls = len_(stream)
    if out.ok:
        vc.ensure("ok.messages_in_order", len_(out.result) == len(log.calls))
        if len_(out.result) == len(log.calls):
            for i, d in enumerate(log.calls):
                vc.ensure(f"ok.message{i}", msg_data(out.result[i]) == d)
        vc.ensure("ok.no_complete_frame_left", Or(Ls - pos < 2, Ls - pos - 2 < be16_or(stream, pos)))
        vc.ensure("ok.next_prefix_not_zero", Or(Ls - pos < 2, be16_or(stream, pos) != 0))
        vc.ensure("ok.rest_is_kept", buf == stream[pos:])
        vc.ensure("ok.other_direction_untouched", len_(other) == 0)
    else:
        # a parse error is only legitimate for a zero length prefix or a frame the decoder rejects
        last_failed = log.fails(vc, log.calls[-1]) if log.calls else False
        zero = And(Ls - pos >= 2, be16_or(stream, pos) == 0)
        vc.ensure("error.justified", Or(last_failed, zero))


@scenario("extract.tcp.buffering", functions=[L + ".unpack_message"], max_unroll=2, candidates=BUFFER_CANDS)
def s_extract_buffering(vc):
    """Bytes kept from earlier segments and the new segment are processed exactly like their concatenation arriving at once on
    an empty buffer: same messages, same parse errors, same rest kept. With `extract.tcp.frames` (greedy framing of one stream)
    this gives independence of the segmentation by induction over the segments."""
    from_client = vc.case("from", ["client", "server"]) == "client"
    kept, data = vc.sym_bytes("kept"), vc.sym_bytes("data")
    l1, c1, s1 = mk_dns_layer(vc, "tcp", "tcp", req_buf=kept if from_client else b"", resp_buf=b"" if from_client else kept)
    l2, c2, s2 = mk_dns_layer(vc, "tcp", "tcp")
    log1, log2 = UnpackLog(), UnpackLog()
    o1 = run_extract(vc, l1, data, from_client, log1)
    o2 = run_extract(vc, l2, kept + data, from_client, log2)
    vc.ensure("same_outcome", o1.ok == o2.ok)
    vc.ensure("same_frames_decoded", len(log1.calls) == len(log2.calls))
    for i, (x, y) in enumerate(zip(log1.calls, log2.calls)):
        vc.ensure(f"same_frame{i}", x == y)
    if o1.ok and o2.ok:
        vc.ensure("same_number_of_messages", len_(o1.result) == len_(o2.result))
        b1 = l1.req_buf if from_client else l1.resp_buf
        b2 = l2.req_buf if from_client else l2.resp_buf
        vc.ensure("same_rest_kept", b1 == b2)


@scenario("extract.tcp.segmentation.two_frames", functions=[L + ".unpack_message"], max_unroll=3, candidates=PAYLOAD_CANDS)
def s_extract_split(vc):
    """Two-segment independence on a concrete shape with symbolic payloads: stream = frame(3 octets) followed by a second frame
    (2 octets) / a zero length prefix / an incomplete frame, cut at every position: feeding the two segments extracts the same
    messages in the same order and keeps the same rest as feeding the whole stream.
    Known finding KF-C27-2: when a later frame of the same segment is malformed, the messages already extracted from that
    segment are dropped (the exception discards the list), while a segmentation that delivers them earlier hands them on."""
    second = vc.case("second", ["frame", "zero_prefix", "incomplete", "rejected_frame"])
    p1 = [vc.sym_int(f"p1_{j}", lo=0, hi=255) for j in range(3)]
    p2 = [vc.sym_int(f"p2_{j}", lo=0, hi=255) for j in range(2)]
    f1 = [0, 3] + p1
    tail = {"frame": [0, 2] + p2, "rejected_frame": [0, 2] + p2, "zero_prefix": [0, 0], "incomplete": [0, 5, p2[0]]}[second]
    codes = f1 + tail
    cut = vc.case("cut", list(range(0, len(codes) + 1)))
    mk = lambda cs: from_codes([c % 256 if is_sym(c) else c for c in cs]) if cs else b""
    a, b, whole = mk(codes[:cut]), mk(codes[cut:]), mk(codes)
    log = UnpackLog()
    first_ok = Not(log.fails(vc, mk(p1)))
    vc.assume(first_ok)
    if second == "frame":
        vc.assume(Not(log.fails(vc, mk(p2))))
    if second == "rejected_frame":
        vc.assume(log.fails(vc, mk(p2)))
    l1, c1, s1 = mk_dns_layer(vc, "tcp", "tcp")
    l2, c2, s2 = mk_dns_layer(vc, "tcp", "tcp")
    items = lambda o: [msg_data(m) for m in (o.result.items if vc.mode == "sym" else o.result)]
    got1, failed1 = [], False
    o1a = run_extract(vc, l1, a, True, log)
    if o1a.ok:
        got1 += items(o1a)
        o1b = run_extract(vc, l1, b, True, log)
        if o1b.ok:
            got1 += items(o1b)
        else:
            failed1 = True
    else:
        failed1 = True
    o2 = run_extract(vc, l2, whole, True, log)
    got2 = items(o2) if o2.ok else []
    malformed = second in ("zero_prefix", "rejected_frame")
    vc.ensure("same_outcome", failed1 == (not o2.ok))
    vc.ensure("malformed_iff_parse_error", (not o2.ok) == malformed)
    K = malformed and cut >= 5        # the complete first frame arrives in an earlier segment than the malformed one
    vc.ensure_kf("same_messages_extracted", len(got1) == len(got2) and all(vc.eq(x, y) is True or vc.truthy(vc.eq(x, y)) for x, y in zip(got1, got2)), "KF-C27-2", K)
    if o2.ok and not failed1:
        vc.ensure("same_rest_kept", l1.req_buf == l2.req_buf)
        vc.ensure("first_message_is_first_frame", len(got2) >= 1 and vc.truthy(vc.eq(got2[0], mk(p1))))


# =============================================================================================
# decoding contract shared with C25: the question a flow / a reply / a SERVFAIL carries is the question that was read off the wire

QUESTION_CANDS = [dict(name0="wWw.ExAmPlE.CoM"), dict(name0="example.com"), dict(name0="A")]


@scenario("decode.question_as_sent", functions=[M + ".unpack_from"], max_unroll=2, candidates=QUESTION_CANDS)
def s_question_as_sent(vc):
    """DNSMessage.unpack_from keeps the question exactly as the name reader returned it (case included), with its type and class
    (contract text: props/C25.py _unpack_framing). fail()/succeed() reuse that question list (message.fail / message.succeed),
    so the reply's question section is the query's."""
    from props import C25
    return C25._unpack_framing(vc, [(1, 0, 0, 0)], False)


# =============================================================================================
# T2 (bounded): real DNSLayer driven sans-io over query/reply sessions, UDP and TCP with every <=2-cut segmentation

ASSUMPTIONS = [
    "T1 abstracts DNSMessage.unpack (decoded message = uninterpreted function of the frame bytes, failure = uninterpreted predicate; contract C25), pack_message (uninterpreted wire bytes; contract C26) and, in the state-machine scenario, unpack_message itself (its contract: extract.* scenarios)",
    "TCP framing loop unrolled: <= 2 complete frames per call (extract.tcp.frames) / <= 1 (extract.tcp.buffering); segmentation independence for any number of segments is the induction described in EXPLANATION",
    "layer.state_query.data: at most one pending flow and two messages per event, UDP transports (the TCP/UDP difference is confined to unpack_message / pack_message)",
    "@expect on state_query is taken as a precondition (only DataReceived / ConnectionClosed events reach it)",
]
EXPLANATION = (
    "T1 proves the mechanisms for all inputs of the stated shapes: DNSMessage.fail/succeed keep id, opcode, RD and the question section; handle_error sends exactly "
    "that SERVFAIL to the client and reports a flow carrying the query; state_query closes the sender on a parse error, fires every hook with a flow that carries its "
    "query and only answers the client on a flow whose query has the reply's id (an upstream message that answers no pending query is dropped); unpack_message cuts one stream greedily "
    "into length-prefixed frames, keeps the incomplete rest, rejects a zero prefix, and treats buffered + new bytes exactly like their concatenation. "
    "Independence of an arbitrary segmentation and correspondence over whole query/reply sessions are compositions of these lemmas (induction over segments / events) "
    "that are not mechanised; they are checked bounded in T2 on the real layer with every <=2-cut segmentation."
)


def _q(ident, name, qtype=1, flags=0x0100, opcode=0):
    from props.dnsref import header, question, wire_name
    return header(ident, flags | (opcode << 11), 1) + question(wire_name(name), qtype)


def _r(ident, name, qtype=1, rcode=0, addr=b"\x01\x02\x03\x04"):
    from props.dnsref import header, question, wire_name, rr, ptr
    return header(ident, 0x8180 | rcode, 1, 1) + question(wire_name(name), qtype) + rr(ptr(12), 1, addr)


def _frame(w):
    import struct
    return struct.pack("!H", len(w)) + w


def _deframe(data):
    import struct
    out = []
    while len(data) >= 2:
        n = struct.unpack_from("!H", data)[0]
        out.append(bytes(data[2:2 + n]))
        data = data[2 + n:]
    return out


def _run_session(proto, client_segments, server_segments, mode="forward", interleave=None):
    """Feed client segments, then server segments (or the given interleaving of ('c'|'s', bytes)). Returns the transcript."""
    from mitmproxy import flow as mflow
    from mitmproxy.connection import ConnectionState
    from mitmproxy.proxy.layers import dns as ldns
    from props import sansio
    opts = sansio.make_options()
    client = sansio.make_client()
    client.transport_protocol = proto
    ctx = sansio.context_for(opts, client)
    if mode != "no_upstream":
        ctx.server.address = ("192.0.2.53", 53)
    ctx.server.transport_protocol = proto
    top = ldns.DNSLayer(ctx)
    hooks = []

    def policy(h):
        fl = h.flow
        req = getattr(fl, "request", None)
        hooks.append(dict(name=h.name, has_request=req is not None, req=(req.id, tuple((q.name, q.type, q.class_) for q in req.questions)) if req is not None else None,
                          resp=(fl.response.id, tuple((q.name, q.type, q.class_) for q in fl.response.questions)) if getattr(fl, "response", None) else None))
        if h.name == "dns_request" and mode == "addon_response":
            from mitmproxy import dns
            fl.response = fl.request.succeed([dns.ResourceRecord.A(fl.request.questions[0].name or "x", __import__("ipaddress").IPv4Address("10.0.0.1"))])
        if h.name == "dns_request" and mode == "addon_error":
            fl.error = mflow.Error("blocked by addon")

    d = sansio.Driver(top, hook_policy=policy, open_policy=(lambda cmd: "connection refused") if mode == "upstream_fails" else None)
    d.start()
    crashed = None
    events = interleave if interleave is not None else [("c", s) for s in client_segments] + [("s", s) for s in server_segments]
    try:
        for side, seg in events:
            conn = ctx.client if side == "c" else ctx.server
            if side == "s" and ctx.server.state is ConnectionState.CLOSED:
                continue
            d.data(conn, seg)
    except Exception as e:  # the layer crashed
        crashed = f"{type(e).__name__}: {e}"
    to_client, to_server = d.bytes_to(ctx.client), d.bytes_to(ctx.server)
    done = getattr(top._handle_event, "__name__", "") == "state_done" or getattr(getattr(top._handle_event, "__wrapped__", None), "__name__", "") == "state_done"
    return dict(hooks=hooks, to_client=_deframe(to_client) if proto == "tcp" else [bytes(c) for conn, c in d.sent_chunks if conn is ctx.client],
                to_server=_deframe(to_server) if proto == "tcp" else [bytes(c) for conn, c in d.sent_chunks if conn is ctx.server],
                client_closed=any(c is ctx.client for c, _ in d.closed), done=done, crashed=crashed)


def _transcript_key(t):
    return (tuple((h["name"], h["req"], h["resp"]) for h in t["hooks"]), tuple(t["to_client"]), tuple(t["to_server"]), t["client_closed"], t["done"], t["crashed"])


def bounded(tier, seed):
    import itertools, random
    from props import dnsref, sansio
    b = Bounded()
    b.rule = ("sessions = sequences of client queries and upstream replies (matching, out of order, unsolicited id, duplicate reply, duplicated ids, reply with another question, "
              "reply before the query, no upstream, upstream connect failure, addon-set response, addon-set error) over UDP (one datagram per message, every interleaving order "
              "listed) and TCP (client stream and server stream each fed with every segmentation of <= 2 cuts, quick: <= 1 cut for streams > 40 bytes); TCP streams with zero length "
              "prefix / undecodable frame / incomplete frame after 0-2 valid frames. distinct = (session, transport, segmentation); non-trivial = at least one hook fired")
    b.bound = "<= 3 queries and <= 3 replies per session; <= 2 cuts per stream"
    A, B_, C_ = "a.example", "b.example", "c.example"
    MIX = "wWw.ExAmPlE.CoM"
    sessions = [
        ("matching", [_q(1, A)], [_r(1, A)], "forward", ""),
        ("two_out_of_order", [_q(1, A), _q(2, B_)], [_r(2, B_), _r(1, A)], "forward", ""),
        ("three", [_q(1, A), _q(2, B_), _q(3, C_, 28)], [_r(1, A), _r(3, C_, 28), _r(2, B_)], "forward", ""),
        ("nxdomain", [_q(4, A)], [_r(4, A, rcode=3)], "forward", ""),
        ("duplicate_reply", [_q(1, A)], [_r(1, A), _r(1, A)], "forward", ""),
        ("opcode_and_flags", [_q(5, A, flags=0x0000, opcode=2)], [], "no_upstream", ""),
        ("no_upstream", [_q(6, A), _q(7, B_)], [], "no_upstream", ""),
        ("upstream_fails", [_q(8, A)], [], "upstream_fails", ""),
        ("addon_response", [_q(9, A), _q(10, B_)], [], "addon_response", ""),
        ("addon_error", [_q(11, A, flags=0x0000)], [], "addon_error", ""),
        # dns-0x20: resolvers randomise the case of the query name and verify a byte-exact echo of the question section
        ("mixed_case_forward", [_q(31, MIX), _q(32, "UPPER.EXAMPLE")], [_r(32, "UPPER.EXAMPLE"), _r(31, MIX)], "forward", ""),
        ("mixed_case_no_upstream", [_q(33, MIX)], [], "no_upstream", ""),
        ("mixed_case_upstream_fails", [_q(34, MIX, flags=0x0000)], [], "upstream_fails", ""),
        ("mixed_case_addon_error", [_q(35, MIX)], [], "addon_error", ""),
        ("mixed_case_addon_response", [_q(36, MIX)], [], "addon_response", ""),
        ("unsolicited", [_q(1, A)], [_r(9, A)], "forward", "unsolicited_upstream_message"),
        ("unsolicited_then_matching", [_q(1, A)], [_r(9, B_), _r(1, A)], "forward", "unsolicited_upstream_message"),
        ("duplicated_ids", [_q(7, A), _q(7, B_)], [_r(7, A), _r(7, B_)], "forward", "duplicated_ids"),
        ("reply_other_question", [_q(1, A)], [_r(1, B_)], "forward", "upstream_reply_with_other_question"),
    ]
    def check_session(name, proto, t, queries, mode, cls, inp):
        sfx = ("." + cls) if cls else ""
        if t["crashed"]:
            b.fail("c27.layer_does_not_crash" + sfx, inp, t["crashed"])
            return
        sent = []
        for qw in queries:
            (hdr, qs, _), _i = dnsref.parse_message(qw)
            sent.append((hdr, qs))
        for h in t["hooks"]:
            if not h["has_request"]:
                b.fail("c27.reported_flow_carries_its_query" + sfx, inp, f"hook {h['name']} fired with a flow without request (response {h['resp']})")
            elif h["name"] == "dns_response" and h["resp"] is not None and (h["req"][0] != h["resp"][0] or h["req"][1] != h["resp"][1]) and mode == "forward":
                b.fail("c27.response_flow_pairs_reply_with_its_query" + sfx, inp, f"flow.request {h['req']} flow.response {h['resp']}")
        if mode == "forward":
            fwd = []
            for w in t["to_server"]:
                try:
                    (h2, q2, _s2), _i = dnsref.parse_message(w)
                    fwd.append((h2, q2))
                except dnsref.RefError as e:
                    b.fail("c27.forwarded_query_wellformed" + sfx, inp, f"{e}: {w.hex()}")
            if cls == "" and fwd != sent:
                b.fail("c27.forwarded_query_is_the_client_query" + sfx, inp, f"client sent {sent}; server received {fwd}")
        for w in t["to_client"]:
            try:
                (hdr, qs, secs), _i = dnsref.parse_message(w)
            except dnsref.RefError as e:
                b.fail("c27.reply_wellformed" + sfx, inp, f"{e}: {w.hex()}")
                continue
            match = [s for s in sent if s[0][0] == hdr[0] and s[1] == qs]
            if not match:
                b.fail("c27.reply_answers_a_client_query" + sfx, inp, f"client received id={hdr[0]} question={qs}; it sent {[(s[0][0], s[1]) for s in sent]}")
                continue
            if mode in ("no_upstream", "upstream_fails", "addon_error"):
                qh = match[0][0]
                ok = hdr[1] == 1 and hdr[8] == 2 and hdr[2] == qh[2] and hdr[5] == qh[5] and secs == ((), (), ())
                if not ok:
                    b.fail("c27.servfail_keeps_query_fields" + sfx, inp, f"query header {qh} reply header {hdr} sections {secs}")
        if mode in ("no_upstream", "upstream_fails", "addon_error", "addon_response"):
            if len(t["to_client"]) != len(queries):
                b.fail("c27.one_reply_per_query" + sfx, inp, f"{len(queries)} queries, {len(t['to_client'])} replies")
        if mode != "forward" and mode != "addon_response" and not all(h["name"] in ("dns_request", "dns_error") for h in t["hooks"]):
            b.fail("c27.error_path_hooks" + sfx, inp, str([h["name"] for h in t["hooks"]]))

    for name, queries, replies, mode, cls in sessions:
        # UDP: one datagram per message; also replies interleaved after the first query
        orders = [[("c", q) for q in queries] + [("s", r) for r in replies]]
        if len(queries) > 1 and replies:
            orders.append([("c", queries[0]), ("s", replies[-1])] + [("c", q) for q in queries[1:]] + [("s", r) for r in replies[:-1]])
        for oi, ev in enumerate(orders):
            t = _run_session("udp", None, None, mode, interleave=ev)
            inp = {"session": name, "transport": "udp", "order": oi, "class": cls or "plain"}
            b.case((name, "udp", oi), nontrivial=bool(t["hooks"]))
            if oi == 0 or not cls:
                # in the second order a reply arrives before its query was sent: it is unsolicited at that moment
                check_session(name, "udp", t, queries, mode, cls if oi == 0 else (cls or "unsolicited_upstream_message"), inp)
        # TCP: every segmentation of both streams
        cstream = b"".join(_frame(q) for q in queries)
        sstream = b"".join(_frame(r) for r in replies)
        ccuts = 2 if (tier == "thorough" or len(cstream) <= 40) else 1
        scuts = 2 if (tier == "thorough" or len(sstream) <= 40) else 1
        ref = None
        csplits = list(sansio.all_splits(cstream, ccuts))
        ssplits = list(sansio.all_splits(sstream, scuts)) if sstream else [[]]
        combos = [(cs, ssplits[0]) for cs in csplits] + [(csplits[0], ss) for ss in ssplits[1:]]
        for cs, ss in combos:
            t = _run_session("tcp", cs, ss, mode)
            inp = {"session": name, "transport": "tcp", "client_segments": [len(x) for x in cs], "server_segments": [len(x) for x in ss], "class": cls or "plain"}
            b.case((name, "tcp", tuple(len(x) for x in cs), tuple(len(x) for x in ss)), nontrivial=bool(t["hooks"]))
            if ref is None:
                ref = _transcript_key(t)
                check_session(name, "tcp", t, queries, mode, cls, inp)
            elif _transcript_key(t) != ref:
                b.fail("c27.tcp_segmentation_independent" + (("." + cls) if cls else ""), inp, f"transcript differs from the unsegmented run: {_transcript_key(t)} vs {ref}")
    # TCP streams with malformed parts
    v1, v2 = _frame(_q(21, A)), _frame(_q(22, B_))
    bad = {"zero_prefix": b"\x00\x00", "undecodable": _frame(b"abc"), "incomplete": b"\x00\x30ab"}
    for nvalid, (kind, tail) in itertools.product((0, 1, 2), bad.items()):
        stream = [b"", v1, v1 + v2][nvalid] + tail
        cls = "valid_frame_then_malformed_frame" if (nvalid > 0 and kind != "incomplete") else ""
        ref = None
        for cs in sansio.all_splits(stream, 2 if (tier == "thorough" or len(stream) <= 40) else 1):
            t = _run_session("tcp", cs, [], "forward")
            inp = {"stream": f"{nvalid} valid frames + {kind}", "client_segments": [len(x) for x in cs], "class": cls or "plain"}
            b.case(("malformed", nvalid, kind, tuple(len(x) for x in cs)), nontrivial=True)
            if t["crashed"]:
                b.fail("c27.layer_does_not_crash", inp, t["crashed"])
                continue
            if kind != "incomplete" and not (t["client_closed"] and t["done"]):
                b.fail("c27.malformed_frame_closes_the_connection", inp, f"closed={t['client_closed']} done={t['done']}")
            if kind == "incomplete" and (t["client_closed"] or len(t["to_server"]) != nvalid):
                b.fail("c27.incomplete_frame_waits", inp, f"closed={t['client_closed']} forwarded={len(t['to_server'])}")
            if ref is None:
                ref = _transcript_key(t)
            elif _transcript_key(t) != ref:
                b.fail("c27.tcp_segmentation_independent" + (("." + cls) if cls else ""), inp,
                       f"requests seen {[h['req'] for h in t['hooks']]} forwarded {len(t['to_server'])}; unsegmented run: {[h[1] for h in ref[0]]} forwarded {len(ref[2])}")
    return b
