"""C27 — DNS replies correspond to client queries; TCP framing ignores segmentation (RFC 1035 §4.1.1, §4.2.2; RFC 7766)."""
from pyvc.api import *
from props.prelude import *

CLAIM = "other"
M = "mitmproxy.dns:DNSMessage"
LY = "mitmproxy.proxy.layers.dns:"
L = LY + "DNSLayer"
SERVFAIL = 2


def SE():
    import struct
    return struct.error


def raised_is(out, cls):
    t = out.raised_type()
    return t is not None and issubclass(t, cls)


def raise_(vc, cls, msg="x"):
    if vc.mode == "native":
        raise cls(msg)
    vc.it.raise_(cls, msg)


def ret_(vc, v):
    return v if vc.mode == "native" else lift(v)


def fields_of(vc, o):
    return o.fields if vc.mode == "sym" else o.__dict__


def _is_method(vc, v, name):
    if vc.mode == "sym":
        return hasattr(v, "func") and v.func.qualname.endswith("." + name)
    return getattr(v, "__name__", "") == name or getattr(getattr(v, "__wrapped__", None), "__name__", "") == name


def mk_msg(vc, pfx, questions=None, **over):
    f = dict(id=vc.sym_int(pfx + "id", lo=0, hi=65535), query=vc.sym_bool(pfx + "query"), op_code=vc.sym_int(pfx + "op_code", lo=0, hi=15),
             authoritative_answer=vc.sym_bool(pfx + "aa"), truncation=vc.sym_bool(pfx + "tc"), recursion_desired=vc.sym_bool(pfx + "rd"),
             recursion_available=vc.sym_bool(pfx + "ra"), reserved=vc.sym_int(pfx + "z", lo=0, hi=7), response_code=vc.sym_int(pfx + "rcode", lo=0, hi=15),
             questions=questions if questions is not None else vc.list([vc.new("mitmproxy.dns:Question", name=vc.sym_str(pfx + "qname"), type=vc.sym_int(pfx + "qtype"), class_=vc.sym_int(pfx + "qclass"))]),
             answers=vc.list([vc.new("mitmproxy.dns:ResourceRecord", name="x", type=1, class_=1, ttl=1, data=b"\x01\x02\x03\x04")]), authorities=vc.list([]), additionals=vc.list([]), timestamp=1.0)
    f.update(over)
    return vc.new(M, **f)


# =============================================================================================
# synthesised replies

def check_reply_to(vc, rep, q, tag):
    vc.ensure(f"{tag}.same_id", rep.id == q.id)
    vc.ensure(f"{tag}.is_response", vc.eq(rep.query, False))
    vc.ensure(f"{tag}.same_opcode", rep.op_code == q.op_code)
    vc.ensure(f"{tag}.same_recursion_desired", vc.eq(rep.recursion_desired, q.recursion_desired))
    vc.ensure(f"{tag}.same_question_section", rep.questions is q.questions)
    vc.ensure(f"{tag}.flags_cleared", And(vc.eq(rep.authoritative_answer, False), vc.eq(rep.truncation, False), rep.reserved == 0))


@scenario("message.fail", functions=[M + ".fail"])
def s_fail(vc):
    """The error reply to a query keeps its id, opcode, RD flag and question section, is a response and carries the error code."""
    q = mk_msg(vc, "q_")
    code = vc.sym_int("response_code", lo=0, hi=15)
    out = vc.call(M + ".fail", q, code)
    if vc.branch(code == 0):
        vc.ensure("noerror.refused", raised_is(out, ValueError))
        return
    vc.ensure("ok", out.ok)
    if not out.ok:
        return
    r = out.result
    check_reply_to(vc, r, q, "reply")
    vc.ensure("reply.code", r.response_code == code)
    vc.ensure("reply.no_records", And(len_(r.answers) == 0, len_(r.authorities) == 0, len_(r.additionals) == 0))
    vc.ensure("reply.recursion_not_available", vc.eq(r.recursion_available, False))
    vc.ensure("query.unchanged", And(q.id == fields_of(vc, q)["id"], len_(q.answers) == 1))


@scenario("message.succeed", functions=[M + ".succeed"])
def s_succeed(vc):
    q = mk_msg(vc, "q_")
    answers = vc.list([vc.new("mitmproxy.dns:ResourceRecord", name="a", type=1, class_=1, ttl=60, data=b"\x7f\x00\x00\x01")])
    out = vc.call(M + ".succeed", q, answers)
    vc.ensure("ok", out.ok)
    if not out.ok:
        return
    r = out.result
    check_reply_to(vc, r, q, "reply")
    vc.ensure("reply.noerror", r.response_code == 0)
    vc.ensure("reply.answers", r.answers is answers)
    vc.ensure("reply.other_sections_empty", And(len_(r.authorities) == 0, len_(r.additionals) == 0))


# =============================================================================================
# the layer

def byte_array(vc, b):
    if vc.mode == "native":
        return bytearray(b)
    from pyvc import libx_dns
    return libx_dns.SByteArray(lift(b).t)


def mk_dns_layer(vc, cproto="udp", sproto="udp", server_open=True, address=("8.8.8.8", 53), flows=(), req_buf=b"", resp_buf=b"", state="state_query"):
    from mitmproxy.connection import ConnectionState
    client = mk_client(vc, transport_protocol=cproto)
    server = mk_server(vc, transport_protocol=sproto, address=address, state=ConnectionState.OPEN if server_open else ConnectionState.CLOSED,
                       timestamp_start=2.0 if server_open else None)
    ctx = mk_context(vc, client, server)
    layer = vc.new(L, context=ctx, flows=vc.dict(list(flows)), req_buf=byte_array(vc, req_buf), resp_buf=byte_array(vc, resp_buf), debug=None, _paused=None, _paused_event_queue=None)
    if state:
        layer._handle_event = vc.bound(layer, L + "." + state)
    return layer, client, server


def mk_flow(vc, client, server, request=None, response=None, error=None, with_request=True, ident="flow-id"):
    f = dict(client_conn=client, server_conn=server, response=response, live=True, error=error,
             id=ident, intercepted=False, marked="", is_replay=None, metadata=vc.dict([]), comment="", timestamp_created=1.0, _backup=None)
    if with_request:
        f["request"] = request
    return vc.new("mitmproxy.dns:DNSFlow", **f)


class PackLog:
    """Summary of pack_message (contract: C26 `pack_message`): an uninterpreted wire form per call; records (message, transport)."""

    def __init__(self):
        self.calls = []

    def __call__(self, vc, message, transport_protocol):
        i = len(self.calls)
        w = vc.sym_bytes(f"wire{i}")
        self.calls.append((message, transport_protocol, w))
        return ret_(vc, w)


def has_request(vc, flow):
    """the flow carries its query: attribute `request` is set to a message"""
    d = fields_of(vc, flow)
    return "request" in d and not isnone(d["request"])


@scenario("layer.handle_error", functions=[L + ".handle_error", M + ".fail"])
def s_handle_error(vc):
    """When no upstream answer is possible the client gets a SERVFAIL for *its* query (id, opcode, RD, question), once; the
    flow reported to dns_error carries the query and the error."""
    cproto = vc.case("client_transport", ["udp", "tcp"])
    layer, client, server = mk_dns_layer(vc, cproto, "udp")
    q = mk_msg(vc, "q_")
    flow = mk_flow(vc, client, server, request=q)
    err = vc.sym_str("err")
    packs = PackLog()
    vc.summary(LY + "pack_message", packs)
    out = vc.call(L + ".handle_error", layer, flow, err, on_yield=lambda cmd: None)
    vc.ensure("no_exception", out.ok)
    if not out.ok:
        return
    kinds = trace_kinds(out.trace)
    vc.ensure("trace", kinds == ["DnsErrorHook", "SendData"])
    if kinds != ["DnsErrorHook", "SendData"]:
        return
    vc.ensure("hook.flow", out.trace[0].flow is flow and has_request(vc, flow) and flow.request is q)
    vc.ensure("hook.error_recorded", not isnone(flow.error) and vc.eq(flow.error.msg, err))
    vc.ensure("packed_once", len(packs.calls) == 1)
    if len(packs.calls) != 1:
        return
    m, proto, w = packs.calls[0]
    check_reply_to(vc, m, q, "servfail")
    vc.ensure("servfail.code", m.response_code == SERVFAIL)
    vc.ensure("servfail.no_records", And(len_(m.answers) == 0, len_(m.authorities) == 0, len_(m.additionals) == 0))
    vc.ensure("servfail.for_the_client_transport", vc.eq(proto, cproto))
    vc.ensure("sent.to_the_client", out.trace[1].connection is client and out.trace[1].data == w)


class UnpackMessageStub:
    """Summary of DNSLayer.unpack_message for the state machine scenario: n decoded messages with arbitrary ids, or a parse error."""

    def __init__(self, vc, n):
        self.fails = vc.sym_bool("parse_error")
        self.msgs = [mk_msg(vc, f"m{i}_") for i in range(n)]
        self.calls = []

    def __call__(self, vc, self_, data, from_client):
        self.calls.append((data, from_client))
        if vc.branch(self.fails):
            raise_(vc, SE())
        return list(self.msgs) if vc.mode == "native" else vc.list(self.msgs)


@scenario("layer.state_query.data", functions=[L + ".state_query", L + ".handle_request", L + ".handle_response"])
def s_state_query(vc):
    """Data from either side (message extraction abstracted): a parse error closes that connection and ends the layer; every
    dns_request / dns_response hook is fired with a flow that carries its query; a reply goes to the client only for a flow whose
    query has the reply's id. Known finding KF-C27-1: an upstream message whose id matches no pending query is reported on a
    flow without `request` and forwarded to the client."""
    from_client = vc.case("from", ["client", "server"]) == "client"
    n = vc.case("messages", [1, 2, 0])
    pending = vc.case("pending_flows", [1, 0])
    layer, client, server = mk_dns_layer(vc, "udp", "udp")
    pre = []
    for i in range(pending):
        pq = mk_msg(vc, f"p{i}_")
        pre.append((pq.id, mk_flow(vc, client, server, request=pq, ident=f"pending{i}"), pq))
    layer.flows = vc.dict([(k, f) for k, f, _ in pre])
    stub = UnpackMessageStub(vc, n)
    vc.summary(L + ".unpack_message", stub)
    vc.summary("mitmproxy.connection:Client.__str__", lambda v, self_: "client")   # only used in the log text
    vc.summary("mitmproxy.connection:Server.__str__", lambda v, self_: "server")
    packs = PackLog()
    vc.summary(LY + "pack_message", packs)
    data = vc.sym_bytes("data")
    src = client if from_client else server
    ev = vc.new("mitmproxy.proxy.events:DataReceived", connection=src, data=data)
    at_hook = {}   # the flow's query at the moment the hook fires (a later message with the same id may replace it)

    def on_yield(cmd):
        if is_cmd(cmd, "DnsRequestHook") or is_cmd(cmd, "DnsResponseHook") or is_cmd(cmd, "DnsErrorHook"):
            at_hook[id(cmd)] = fields_of(vc, cmd.flow).get("request")

    out = vc.call(L + ".state_query", layer, ev, on_yield=on_yield)
    vc.ensure("no_exception", out.ok)
    if not out.ok:
        return
    tr = out.trace
    kinds = trace_kinds(tr)
    vc.ensure("extraction.called_once_with_the_data", len(stub.calls) == 1 and stub.calls[0][0] is data and vc.eq(stub.calls[0][1], from_client))
    h = fields_of(vc, layer).get("_handle_event")
    if vc.branch(stub.fails):
        vc.ensure("parse_error.trace", kinds == ["Log", "CloseConnection"])
        if kinds == ["Log", "CloseConnection"]:
            vc.ensure("parse_error.closes_the_sender", tr[1].connection is src)
        vc.ensure("parse_error.layer_done", _is_method(vc, h, "state_done"))
        vc.ensure("parse_error.nothing_forwarded", len(packs.calls) == 0)
        return
    vc.ensure("ok.keeps_running", _is_method(vc, h, "state_query"))
    hooks = [c for c in tr if is_cmd(c, "DnsRequestHook") or is_cmd(c, "DnsResponseHook") or is_cmd(c, "DnsErrorHook")]
    sends = [c for c in tr if is_cmd(c, "SendData")]
    vc.ensure("one_hook_per_message", len(hooks) == n)
    vc.ensure("one_forward_per_message", len(sends) == n and len(packs.calls) == n)
    if len(hooks) != n or len(sends) != n or len(packs.calls) != n:
        return
    for i, msg in enumerate(stub.msgs):
        hk, snd, (pm, proto, w) = hooks[i], sends[i], packs.calls[i]
        vc.ensure(f"msg{i}.forwarded_message_is_the_decoded_one", pm is msg and snd.data == w)
        fl = hk.flow
        if from_client:
            vc.ensure(f"msg{i}.request_hook", is_cmd(hk, "DnsRequestHook"))
            vc.ensure(f"msg{i}.flow_carries_the_query", at_hook.get(id(hk)) is msg)
            vc.ensure(f"msg{i}.goes_to_server", snd.connection is server)
            found = [f for k, f in (layer.flows.items if vc.mode == "sym" else list(layer.flows.items())) if vc.branch(k == msg.id)]
            vc.ensure(f"msg{i}.flow_registered_under_its_id", len(found) >= 1 and found[0] is fl)
        else:
            unsolicited = And(*[k != msg.id for k, _, _ in pre]) if pre else True   # the id matches no query the client has pending
            vc.ensure(f"msg{i}.response_hook", is_cmd(hk, "DnsResponseHook"))
            rq = at_hook.get(id(hk))
            vc.ensure_kf(f"msg{i}.reported_flow_carries_its_query", rq is not None and not isnone(rq), "KF-C27-1", unsolicited)
            vc.ensure(f"msg{i}.goes_to_client", snd.connection is client)
            if rq is not None and not isnone(rq):
                vc.ensure(f"msg{i}.reply_id_matches_the_query", rq.id == msg.id)
                vc.ensure(f"msg{i}.flow_is_the_pending_one", any(fl is f and rq is q for _, f, q in pre))


@scenario("layer.state_query.closed", functions=[L + ".state_query"])
def s_state_closed(vc):
    """When one side closes, the other side is closed (if open), the layer ends and every flow stops being live; nothing is sent."""
    from_client = vc.case("from", ["client", "server"]) == "client"
    server_open = vc.case("server_open", [True, False])
    layer, client, server = mk_dns_layer(vc, "tcp", "tcp", server_open)
    q = mk_msg(vc, "p_")
    fl = mk_flow(vc, client, server, request=q)
    layer.flows = vc.dict([(q.id, fl)])
    src = client if from_client else server
    ev = vc.new("mitmproxy.proxy.events:ConnectionClosed", connection=src)
    out = vc.call(L + ".state_query", layer, ev, on_yield=lambda cmd: None)
    vc.ensure("no_exception", out.ok)
    if not out.ok:
        return
    kinds = trace_kinds(out.trace)
    other_open = server_open if from_client else True   # the client connection is open in this pre-state
    vc.ensure("trace", kinds == (["CloseConnection"] if other_open else []))
    if kinds == ["CloseConnection"]:
        vc.ensure("closes_the_other_side", out.trace[0].connection is (server if from_client else client))
    vc.ensure("layer_done", _is_method(vc, fields_of(vc, layer).get("_handle_event"), "state_done"))
    vc.ensure("flows_not_live", vc.eq(fl.live, False))


# =============================================================================================
# message extraction (UDP datagrams, TCP length-prefixed frames)

class UnpackLog:
    """Summary of DNSMessage.unpack (contract: C25): the decoded message is an uninterpreted function of the bytes, and whether
    decoding fails is an uninterpreted predicate of the bytes (so two runs on the same frame agree). Records every call."""

    def __init__(self):
        self.calls = []

    def fails(self, vc, data):
        if vc.mode == "native":
            return self.native_fails(data)
        import z3
        from pyvc import lib
        return SBool(lib.uf("dns_unpack_fails", z3.StringSort(), z3.BoolSort())(data.t))

    def native_fails(self, data):
        import struct
        try:
            _REAL["unpack"](bytes(data))
            return False
        except struct.error:
            return True

    def __call__(self, vc, cls, data, timestamp=None):
        self.calls.append(data)
        if vc.branch(self.fails(vc, data)):
            raise_(vc, SE())
        return ("msg", bytes(data)) if vc.mode == "native" else STuple([SStr("msg"), data])


_REAL = {}


def install_unpack(vc, log):
    """replace DNSMessage.unpack (a classmethod) by the summary in both modes; returns undo()"""
    if vc.mode == "native":
        import mitmproxy.dns as D
        orig = D.DNSMessage.__dict__["unpack"]
        _REAL.setdefault("unpack", D.DNSMessage.unpack)
        D.DNSMessage.unpack = classmethod(lambda cls, data, timestamp=None: log(vc, cls, data, timestamp))
        return lambda: setattr(D.DNSMessage, "unpack", orig)
    vc.summary(M + ".unpack", log)
    return lambda: None


def msg_data(m):
    return m[1]


@scenario("extract.udp", functions=[L + ".unpack_message"])
def s_extract_udp(vc):
    """UDP: one datagram is one message; the TCP buffers are not touched."""
    from_client = vc.case("from", ["client", "server"]) == "client"
    layer, client, server = mk_dns_layer(vc, "udp", "udp")
    data = vc.sym_bytes("data")
    log = UnpackLog()
    undo = install_unpack(vc, log)
    try:
        out = vc.call(L + ".unpack_message", layer, data, from_client)
    finally:
        undo()
    vc.ensure("decoded_once_from_the_datagram", len(log.calls) == 1 and log.calls[0] is data)
    if vc.branch(log.fails(vc, data)):
        vc.ensure("bad_datagram.parse_error", raised_is(out, SE()))
        return
    vc.ensure("ok", out.ok)
    if out.ok:
        vc.ensure("one_message", len_(out.result) == 1)
        if len_(out.result) == 1:
            vc.ensure("the_datagram", msg_data(out.result[0]) == data)
    vc.ensure("buffers_untouched", And(len_(layer.req_buf) == 0, len_(layer.resp_buf) == 0))


def run_extract(vc, layer, data, from_client, log):
    undo = install_unpack(vc, log)
    try:
        return vc.call(L + ".unpack_message", layer, data, from_client)
    finally:
        undo()


def check_frames(vc, stream, log_calls, tag):
    """the decoder was applied to consecutive length-prefixed frames of `stream`, in order; returns the offset after the last one"""
    pos = 0
    for i, d in enumerate(log_calls):
        n = be16(stream, pos)
        vc.ensure(f"{tag}.frame{i}.is_the_next_length_prefixed_frame", And(pos + 2 + n <= len_(stream), n > 0, d == stream[pos + 2:pos + 2 + n]))
        pos = pos + 2 + n
    return pos


@scenario("extract.tcp.frames", functions=[L + ".unpack_message"], max_unroll=3)
def s_extract_tcp(vc):
    """TCP (RFC 1035 §4.2.2): the stream (bytes kept from earlier segments + the new segment) is cut into two-octet-length-prefixed
    frames; every complete frame is decoded, in order; what remains (an incomplete frame) is kept for the next segment; a zero
    length prefix is a parse error. (Up to 2 complete frames per call.)"""
    from_client = vc.case("from", ["client", "server"]) == "client"
    kept = vc.sym_bytes("kept")
    data = vc.sym_bytes("data")
    layer, client, server = mk_dns_layer(vc, "tcp", "tcp", req_buf=kept if from_client else b"", resp_buf=b"" if from_client else kept)
    stream = kept + data
    log = UnpackLog()
    out = run_extract(vc, layer, data, from_client, log)
    vc.ensure("total.only_parse_error", Or(out.ok, raised_is(out, SE())))
    pos = check_frames(vc, stream, log.calls, "decode")
    buf = layer.req_buf if from_client else layer.resp_buf
    other = layer.resp_buf if from_client else layer.req_buf
    Ls = len_(stream)
    if out.ok:
        vc.ensure("ok.messages_in_order", len_(out.result) == len(log.calls))
        if len_(out.result) == len(log.calls):
            for i, d in enumerate(log.calls):
                vc.ensure(f"ok.message{i}", msg_data(out.result[i]) == d)
        vc.ensure("ok.no_complete_frame_left", Or(Ls - pos < 2, Ls - pos - 2 < be16(stream, pos)))
        vc.ensure("ok.next_prefix_not_zero", Or(Ls - pos < 2, be16(stream, pos) != 0))
        vc.ensure("ok.rest_is_kept", buf == stream[pos:])
        vc.ensure("ok.other_direction_untouched", len_(other) == 0)
    else:
        # a parse error is only legitimate for a zero length prefix or a frame the decoder rejects
        last_failed = log.fails(vc, log.calls[-1]) if log.calls else False
        zero = And(Ls - pos >= 2, be16(stream, pos) == 0)
        vc.ensure("error.justified", Or(last_failed, zero))


@scenario("extract.tcp.segmentation", functions=[L + ".unpack_message"], max_unroll=3)
def s_extract_split(vc):
    """L-SEG for the TCP framing: feeding a then b extracts the same messages, in the same order, and keeps the same rest as
    feeding a+b at once (with `extract.tcp.frames`, induction over the number of segments gives independence of any segmentation).
    Known finding KF-C27-2: if a later frame of the same segment is malformed, the messages already extracted from that segment
    are dropped, while a segmentation that delivers them earlier hands them on."""
    a, b = vc.sym_bytes("a"), vc.sym_bytes("b")
    l1, c1, s1 = mk_dns_layer(vc, "tcp", "tcp")
    l2, c2, s2 = mk_dns_layer(vc, "tcp", "tcp")
    log1a, log1b, log2 = UnpackLog(), UnpackLog(), UnpackLog()
    o1a = run_extract(vc, l1, a, True, log1a)
    got1 = []          # messages handed on by the split run (those of a call that raised are lost)
    failed1 = not o1a.ok
    if o1a.ok:
        got1 += [msg_data(m) for m in (o1a.result.items if vc.mode == "sym" else o1a.result)]
        o1b = run_extract(vc, l1, b, True, log1b)
        failed1 = not o1b.ok
        if o1b.ok:
            got1 += [msg_data(m) for m in (o1b.result.items if vc.mode == "sym" else o1b.result)]
    o2 = run_extract(vc, l2, a + b, True, log2)
    got2 = [msg_data(m) for m in (o2.result.items if vc.mode == "sym" else o2.result)] if o2.ok else []
    K = (not o2.ok) and len(got1) > 0
    vc.ensure("same_outcome", failed1 == (not o2.ok))
    vc.ensure_kf("same_number_of_messages", len(got1) == len(got2), "KF-C27-2", K)
    if len(got1) == len(got2):
        for i, (x, y) in enumerate(zip(got1, got2)):
            vc.ensure(f"same_message{i}", x == y)
    if o2.ok and not failed1:
        vc.ensure("same_rest_kept", l1.req_buf == l2.req_buf)
