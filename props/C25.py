"""C25 — DNS wire encoding round-trips and decoding is total (RFC 1035 §3.1, §4.1)."""
from pyvc.api import *

CLAIM = "other"
DN = "mitmproxy.net.dns.domain_names:"
M = "mitmproxy.dns:DNSMessage"


def _struct_error():
    import struct
    return struct.error


def raised_is(out, cls):
    t = out.raised_type()
    return t is not None and issubclass(t, cls)


def idna_status(vc, b):
    """0 = bytes.decode('idna') succeeds, 1 = UnicodeDecodeError, 2 = plain UnicodeError (library behaviour)"""
    if vc.mode == "native":
        try:
            bytes(b).decode("idna")
            return 0
        except UnicodeDecodeError:
            return 1
        except UnicodeError:
            return 2
    from pyvc import libx_dns
    return SInt(libx_dns.idna_dec_status(b.t))


def idna_dec(vc, b):
    if vc.mode == "native":
        return bytes(b).decode("idna")
    from pyvc import libx_dns
    return SStr(libx_dns.idna_dec(b.t))


def idna_enc(vc, s):
    if vc.mode == "native":
        return s.encode("idna")
    from pyvc import libx_dns
    return SBytes(libx_dns.idna_enc(s.t))


def idna_enc_ok(vc, s):
    if vc.mode == "native":
        try:
            s.encode("idna")
            return True
        except UnicodeError:
            return False
    from pyvc import libx_dns
    return SBool(libx_dns.idna_enc_ok(s.t))


def join_dots(parts):
    r = None
    for p in parts:
        r = p if r is None else r + "." + p
    return r if r is not None else ""


def no_dot(vc, s):
    return Not(contains(s, "."))


def walk_labels(vc, buf, pos, maxlabels, allow_pointer=False):
    """Reference reading of a label sequence (RFC 1035 §3.1/§4.1.4) starting at pos. Returns (kind, labels, pos, K) with kind in
    'error' | 'end' (zero octet read; pos is after it) | 'pointer' (pos is at the pointer) | 'kf' (idna UnicodeError) ;
    returns None when more than maxlabels labels precede the end (outside the explored bound)."""
    L = len_(buf)
    labels = []
    for _ in range(maxlabels + 1):
        if vc.branch(pos >= L):
            return "error", labels, pos
        size = code_at(buf, pos)
        if vc.branch(size >= 192):
            if not allow_pointer:
                return "error", labels, pos
            return "pointer", labels, pos
        if vc.branch(size >= 64):
            return "error", labels, pos
        if vc.branch(size == 0):
            return "end", labels, pos + 1
        if vc.branch(pos + 1 + size > L):
            return "error", labels, pos
        raw = buf[pos + 1:pos + 1 + size]
        st = idna_status(vc, raw)
        if vc.branch(st == 2):
            return "kf", labels, pos
        if vc.branch(st == 1):
            return "error", labels, pos
        labels.append(idna_dec(vc, raw))
        pos = pos + 1 + size
    return None


@scenario("name.unpack_from", functions=[DN + "unpack_from", DN + "_unpack_label_into"], max_unroll=4)
def s_unpack_from(vc):
    """Uncompressed name at an offset: labels joined with '.', returned offset is just after the zero octet; a pointer
    octet, a truncated or oversized label is a parse error. (Loop unrolled: names of <= 3 labels.)"""
    buf = vc.sym_bytes("buf")
    off = vc.sym_int("off", lo=0)
    out = vc.call(DN + "unpack_from", buf, off)
    w = walk_labels(vc, buf, off, 3)
    if w is None:
        return
    kind, labels, pos = w
    if kind == "kf":
        vc.ensure_kf("total.only_parse_error", Or(out.ok, raised_is(out, _struct_error())), "KF-C25-1", True)
        return
    vc.ensure("total.only_parse_error", Or(out.ok, raised_is(out, _struct_error())))
    if kind == "error":
        vc.ensure("malformed.parse_error", raised_is(out, _struct_error()))
        return
    vc.ensure("wellformed.ok", out.ok)
    if out.ok:
        vc.ensure("wellformed.name", out.result[0] == join_dots(labels))
        vc.ensure("wellformed.end_offset", out.result[1] == pos)


@scenario("name.unpack", functions=[DN + "unpack"])
def s_unpack(vc):
    """unpack(buffer) accepts exactly a buffer that is one complete name: trailing bytes are a parse error."""
    buf = vc.sym_bytes("buf")
    name = vc.sym_str("name")
    end = vc.sym_int("end")
    fails = vc.sym_bool("inner_fails")
    SE = _struct_error()

    def inner(v, buffer, offset):
        if v.mode == "native":
            if fails:
                raise SE("x")
            return (name, end)
        if v.branch(fails):
            v.it.raise_(SE, "x")
        return STuple([name, end])

    vc.summary(DN + "unpack_from", inner)
    out = vc.call(DN + "unpack", buf)
    if vc.branch(fails):
        vc.ensure("inner_error.propagates", raised_is(out, SE))
    elif vc.branch(end == len_(buf)):
        vc.ensure("exact.ok", out.ok)
        if out.ok:
            vc.ensure("exact.name", out.result == name)
    else:
        vc.ensure("trailing_or_short.parse_error", raised_is(out, SE))


def split_dots(vc, name, maxparts):
    """name.split('.') with at most maxparts parts (None beyond)."""
    if vc.mode == "native":
        p = name.split(".")
        return p if len(p) <= maxparts else None
    import z3
    from pyvc.core import slen, ssub, simp
    parts = []
    start = z3.IntVal(0)
    n = slen(name.t)
    for _ in range(maxparts):
        i = z3.IndexOf(name.t, z3.StringVal("."), start)
        if not vc.branch(SBool(i >= 0)):
            parts.append(SStr(simp(ssub(name.t, simp(start), simp(n - start)))))
            return parts
        parts.append(SStr(simp(ssub(name.t, simp(start), simp(i - start)))))
        start = simp(i + 1)
    return None


@scenario("name.pack", functions=[DN + "pack"], max_unroll=3)
def s_pack(vc):
    """RFC 1035 §3.1: a name is the sequence of its labels, each as length octet + octets, ended by a zero octet;
    the empty name is the root (a single zero octet). Empty labels are refused. (Names of <= 3 labels.)"""
    name = vc.sym_str("name")
    out = vc.call(DN + "pack", name)
    if vc.branch(len_(name) == 0):
        vc.ensure("root.ok", out.ok)
        if out.ok:
            vc.ensure("root.bytes", out.result == b"\x00")
        return
    parts = split_dots(vc, name, 3)
    if parts is None:
        return
    exp = b""
    for p in parts:
        if vc.branch(Not(idna_enc_ok(vc, p))):
            vc.ensure("unencodable.refused", Or(raised_is(out, UnicodeError), raised_is(out, ValueError)))
            return
        e = idna_enc(vc, p)
        if vc.branch(len_(e) == 0):
            vc.ensure("empty_label.value_error", raised_is(out, ValueError))
            return
        if vc.branch(len_(e) >= 64):
            vc.ensure("long_label.refused", Or(raised_is(out, UnicodeError), raised_is(out, ValueError)))
            return
        exp = exp + from_codes([len_(e)]) + e
    vc.ensure("wellformed.ok", out.ok)
    if out.ok:
        vc.ensure("wellformed.bytes", out.result == exp + b"\x00")
        vc.ensure("wellformed.is_bytes", isa(out.result, bytes))


@scenario("name.roundtrip", functions=[DN + "pack", DN + "unpack", DN + "unpack_from", DN + "_unpack_label_into"], max_unroll=4)
def s_roundtrip(vc):
    """unpack(pack(n)) == n for IDNA-canonical names (every label l has dec_idna(enc_idna(l)) == l), <= 3 labels."""
    k = vc.case("labels", [0, 1, 2, 3])
    ls = [vc.sym_str(f"l{i}") for i in range(k)]
    for l in ls:
        e = idna_enc(vc, l)
        vc.assume(no_dot(vc, l))
        vc.assume(len_(l) > 0)
        vc.assume(idna_enc_ok(vc, l))
        vc.assume(And(len_(e) > 0, len_(e) < 64))
        vc.assume(idna_status(vc, e) == 0)
        vc.assume(idna_dec(vc, e) == l)
    name = join_dots(ls)
    o1 = vc.call(DN + "pack", name)
    vc.ensure("pack.ok", o1.ok)
    if not o1.ok:
        return
    o2 = vc.call(DN + "unpack", o1.result)
    vc.ensure("unpack.ok", o2.ok)
    if o2.ok:
        vc.ensure("same_name", o2.result == name)


@scenario("label.unpack", functions=[DN + "_unpack_label_into"])
def s_label(vc):
    """RFC 1035 §3.1: a label is one length octet (0..63) followed by that many octets; 0 terminates the name."""
    buf = vc.sym_bytes("buf")
    off = vc.sym_int("off", lo=0)
    pre = vc.case("labels_before", [0, 1])
    old = [vc.sym_str(f"l{i}") for i in range(pre)]
    labels = vc.list(list(old))
    out = vc.call(DN + "_unpack_label_into", labels, buf, off)
    L = len_(buf)
    if vc.branch(off >= L):
        vc.ensure("truncated.length_octet", raised_is(out, _struct_error()))
        return
    size = code_at(buf, off)
    if vc.branch(size >= 64):
        vc.ensure("oversized_or_pointer.rejected", raised_is(out, _struct_error()))
        return
    if vc.branch(size == 0):
        vc.ensure("root.ok", out.ok)
        if out.ok:
            vc.ensure("root.consumes_one", out.result == 1)
            vc.ensure("root.labels_unchanged", len_(labels) == pre)
        return
    if vc.branch(off + 1 + size > L):
        vc.ensure("truncated.label", raised_is(out, _struct_error()))
        return
    raw = buf[off + 1:off + 1 + size]
    st = idna_status(vc, raw)
    # totality: only a parse error may escape.  Known finding: a plain UnicodeError of the idna codec is not caught.
    vc.ensure_kf("total.only_parse_error", Or(out.ok, raised_is(out, _struct_error())), "KF-C25-1", st == 2)
    if vc.branch(st == 0):
        vc.ensure("label.ok", out.ok)
        if out.ok:
            vc.ensure("label.consumed", out.result == 1 + size)
            vc.ensure("label.appended_once", len_(labels) == pre + 1)
            if len_(labels) == pre + 1:
                vc.ensure("label.text", labels[pre] == idna_dec(vc, raw))
                for i in range(pre):
                    vc.ensure(f"label.frame[{i}]", labels[i] == old[i])
    elif vc.branch(st == 1):
        vc.ensure("undecodable.parse_error", raised_is(out, _struct_error()))
    # progress (termination of the label loops): a successful call consumes >= 1 octet and stays inside the buffer
    if out.ok:
        vc.ensure("progress.ge_1", out.result >= 1)
        vc.ensure("progress.in_buffer", off + out.result <= L)
