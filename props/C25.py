"""C25 — DNS wire encoding round-trips and decoding is total (RFC 1035 §3.1, §4.1, §4.1.4)."""
from pyvc.api import *

CLAIM = "other"
DN = "mitmproxy.net.dns.domain_names:"
M = "mitmproxy.dns:DNSMessage"


def SE():
    import struct
    return struct.error


def raised_is(out, cls):
    t = out.raised_type()
    return t is not None and issubclass(t, cls)


# ---- the idna codec is library behaviour: uninterpreted in proof mode (axioms in pyvc/libx_dns.py), real natively

def idna_status(vc, b):
    """0 = bytes.decode('idna') succeeds, 1 = UnicodeDecodeError, 2 = plain UnicodeError"""
    if vc.mode == "native":
        try:
            bytes(b).decode("idna")
            return 0
        except UnicodeDecodeError:
            return 1
        except UnicodeError:
            return 2
    from pyvc import libx_dns
    return SInt(libx_dns.idna_dec_status(b.t))


def idna_dec(vc, b):
    if vc.mode == "native":
        return bytes(b).decode("idna")
    from pyvc import libx_dns
    return SStr(libx_dns.idna_dec(b.t))


def idna_enc(vc, s):
    if vc.mode == "native":
        return s.encode("idna")
    from pyvc import libx_dns
    return SBytes(libx_dns.idna_enc(s.t))


def idna_enc_ok(vc, s):
    if vc.mode == "native":
        try:
            s.encode("idna")
            return True
        except UnicodeError:
            return False
    from pyvc import libx_dns
    return SBool(libx_dns.idna_enc_ok(s.t))


def join_dots(parts):
    r = None
    for p in parts:
        r = p if r is None else r + "." + p
    return r if r is not None else ""


def dotfree_label(vc, name):
    """a symbolic string without '.' (natively: taken from the model; the assumption is checked)"""
    l = vc.sym_str(name)
    if vc.mode == "native":
        vc.assume("." not in l)
    else:
        from pyvc import libx_dns
        libx_dns.assume_sep_free(vc, l, ".")
    return l


def raise_(vc, cls, msg="x"):
    if vc.mode == "native":
        raise cls(msg)
    vc.it.raise_(cls, msg)


def ret_(vc, v):
    return v if vc.mode == "native" else lift(v)


def code_or(buf, pos):
    """byte at pos, or -1 outside the buffer (total in both modes)"""
    if is_sym(buf) or is_sym(pos):
        return code_at(buf, pos)
    return buf[pos] if 0 <= pos < len(buf) else -1


def append_(vc, lst, x):
    if vc.mode == "native":
        lst.append(x)
    else:
        lst.items.append(lift(x))


# concrete inputs used only to pick counter-models / conformance samples that agree with the real idna codec
BUF_CANDS = [dict(buf=b, off=o) for b, o in [(b"\x03abc", 0), (b"\x04xn--", 0), (b"\x02\xc3\xa9", 0), (b"\x0exn--mnchen-3ya", 0), (b"\x00", 0), (b"", 0),
                                              (b"\x05ab", 0), (b"\x41", 0), (b"xx\x01a", 2), (b"\x01.", 0), (b"\xc0\x0c", 0)]]
LABEL_CANDS = [dict(l0=a, l1=b, l2=c, l3=d, l=a, t=a) for a, b, c, d in [("abc", "de", "f", "g"), ("m\u00fcnchen", "de", "", "x"), ("", "a", "b", "c"), ("a" * 64, "b", "c", "d"),
                                                                       ("a.b", "", "", ""), (".", "", "", ""), ("a", "", "c", "d"), ("a", "b", "c", ""), ("a", "b" * 70, "c", "d")]]

# =============================================================================================
# names: label step, loops over the step, pack, round trip

@scenario("label.unpack", functions=[DN + "_unpack_label_into"], candidates=BUF_CANDS)
def s_label(vc):
    """RFC 1035 §3.1: a label is one length octet (0..63) followed by that many octets; 0 terminates the name."""
    buf = vc.sym_bytes("buf")
    off = vc.sym_int("off", lo=0)
    pre = vc.case("labels_before", [0, 1])
    old = [vc.sym_str(f"l{i}") for i in range(pre)]
    labels = vc.list(list(old))
    out = vc.call(DN + "_unpack_label_into", labels, buf, off)
    L = len_(buf)
    if vc.branch(off >= L):
        vc.ensure("truncated.length_octet", raised_is(out, SE()))
        return
    size = code_at(buf, off)
    if vc.branch(size >= 64):
        vc.ensure("oversized_or_pointer.rejected", raised_is(out, SE()))
        return
    if vc.branch(size == 0):
        vc.ensure("root.ok", out.ok)
        if out.ok:
            vc.ensure("root.consumes_one", out.result == 1)
            vc.ensure("root.labels_unchanged", len_(labels) == pre)
        return
    if vc.branch(off + 1 + size > L):
        vc.ensure("truncated.label", raised_is(out, SE()))
        return
    raw = buf[off + 1:off + 1 + size]
    st = idna_status(vc, raw)
    # totality: only a parse error may escape (a plain UnicodeError of the idna codec was KF-C25-1, fixed in 3ed5b3ac7)
    vc.ensure("total.only_parse_error", Or(out.ok, raised_is(out, SE())))
    if vc.branch(st == 0):
        vc.ensure("label.ok", out.ok)
        if out.ok:
            vc.ensure("label.consumed", out.result == 1 + size)
            vc.ensure("label.appended_once", len_(labels) == pre + 1)
            if len_(labels) == pre + 1:
                vc.ensure("label.text", labels[pre] == idna_dec(vc, raw))
                for i in range(pre):
                    vc.ensure(f"label.frame[{i}]", labels[i] == old[i])
    elif vc.branch(st == 1):
        vc.ensure("undecodable.parse_error", raised_is(out, SE()))
    # progress (termination of the label loops): a successful call consumes >= 1 octet and stays inside the buffer
    if out.ok:
        vc.ensure("progress.ge_1", out.result >= 1)
        vc.ensure("progress.in_buffer", off + out.result <= L)


class StepLog:
    """Summary of _unpack_label_into = its contract proved in `label.unpack` (over-approximated: whether a non-empty
    in-range label decodes is a free boolean; the decoded text is a fresh string). Records every call."""

    def __init__(self):
        self.calls = []

    def __call__(self, vc, labels, buffer, offset):
        i = len(self.calls)
        rec = dict(labels=labels, buffer=buffer, offset=offset, outcome=None, size=None, label=None)
        self.calls.append(rec)
        if vc.branch(Or(offset < 0, offset >= len_(buffer))):
            rec["outcome"] = "raise"
            raise_(vc, SE())
        size = code_at(buffer, offset)
        rec["size"] = size
        if vc.branch(size >= 64):
            rec["outcome"] = "raise"
            raise_(vc, SE())
        if vc.branch(size == 0):
            rec["outcome"] = "end"
            return ret_(vc, 1)
        fails = vc.sym_bool(f"step{i}_fails")
        if vc.branch(Or(fails, offset + 1 + size > len_(buffer))):
            rec["outcome"] = "raise"
            raise_(vc, SE())
        lab = vc.sym_str(f"step{i}_label")
        rec["label"] = lab
        rec["outcome"] = "label"
        append_(vc, labels, lab)
        return ret_(vc, 1 + size)


def check_label_loop(vc, log, out_ok, buf, start, labels_obj=None):
    """Common part of the two name readers: the label reader is called at consecutive offsets on the same buffer and list."""
    pos = start
    labs = []
    for k, c in enumerate(log.calls):
        vc.ensure(f"loop.step{k}.offset_is_consecutive", c["offset"] == pos)
        vc.ensure(f"loop.step{k}.same_buffer_and_list", c["buffer"] is buf and c["labels"] is log.calls[0]["labels"])
        if c["outcome"] == "label":
            labs.append(c["label"])
            pos = pos + 1 + c["size"]
        elif c["outcome"] == "end":
            pos = pos + 1
        if c["outcome"] != "label":
            vc.ensure(f"loop.step{k}.is_last", k == len(log.calls) - 1)
    return pos, labs


@scenario("name.unpack_from.loop", functions=[DN + "unpack_from"], max_unroll=5)
def s_unpack_from(vc):
    """Uncompressed name at an offset (label reader abstracted by its contract): labels are read at consecutive
    offsets until the zero octet, joined with '.', the returned offset is just after the zero octet; a pointer octet or
    any failing label is a parse error. (Loop unrolled: names of <= 4 labels.)"""
    buf = vc.sym_bytes("buf")
    off = vc.sym_int("off", lo=0)
    log = StepLog()
    vc.summary(DN + "_unpack_label_into", log)
    out = vc.call(DN + "unpack_from", buf, off)
    pos, labs = check_label_loop(vc, log, out.ok, buf, off)
    last = log.calls[-1]["outcome"] if log.calls else None
    vc.ensure("total.only_parse_error", Or(out.ok, raised_is(out, SE())))
    if last == "end":
        vc.ensure("wellformed.ok", out.ok)
        if out.ok:
            vc.ensure("wellformed.name", out.result[0] == join_dots(labs))
            vc.ensure("wellformed.end_offset", out.result[1] == pos)
    elif last == "raise":
        vc.ensure("bad_label.parse_error", raised_is(out, SE()))
    else:
        # stopped without reading a terminator: only legitimate if the next octet is missing or a pointer (unsupported here)
        vc.ensure("no_terminator.parse_error", raised_is(out, SE()))
        vc.ensure("no_terminator.justified", Or(pos >= len_(buf), code_or(buf, pos) >= 192))


@scenario("name.unpack", functions=[DN + "unpack"])
def s_unpack(vc):
    """unpack(buffer) accepts exactly a buffer that is one complete name: trailing bytes are a parse error."""
    buf = vc.sym_bytes("buf")
    name = vc.sym_str("name")
    end = vc.sym_int("end")
    fails = vc.sym_bool("inner_fails")

    def inner(v, buffer, offset):
        if v.branch(fails):
            raise_(v, SE())
        return (name, end) if v.mode == "native" else STuple([name, end])

    vc.summary(DN + "unpack_from", inner)
    out = vc.call(DN + "unpack", buf)
    if vc.branch(fails):
        vc.ensure("inner_error.propagates", raised_is(out, SE()))
    elif vc.branch(end == len_(buf)):
        vc.ensure("exact.ok", out.ok)
        if out.ok:
            vc.ensure("exact.name", out.result == name)
    else:
        vc.ensure("trailing_or_short.parse_error", raised_is(out, SE()))


def mk_name(vc, k):
    ls = [dotfree_label(vc, f"l{i}") for i in range(k)]
    return ls, join_dots(ls)


@scenario("name.pack", functions=[DN + "pack"], candidates=LABEL_CANDS)
def s_pack(vc):
    """RFC 1035 §3.1: a name is the sequence of its labels, each as length octet + octets, ended by a zero octet;
    the empty name is the root (a single zero octet). Empty labels are refused. (All names with <= 2 dots.)"""
    k = vc.case("labels", [0, 1, 2, 3])
    ls, name = mk_name(vc, k)
    out = vc.call(DN + "pack", name)
    if vc.branch(len_(name) == 0):
        vc.ensure("root.ok", out.ok)
        if out.ok:
            vc.ensure("root.bytes", out.result == b"\x00")
        return
    exp = b""
    for p in ls:
        if vc.branch(Not(idna_enc_ok(vc, p))):
            vc.ensure("unencodable.refused", Or(raised_is(out, UnicodeError), raised_is(out, ValueError)))
            return
        e = idna_enc(vc, p)
        if vc.branch(len_(e) == 0):
            vc.ensure("empty_label.value_error", raised_is(out, ValueError))
            return
        if vc.branch(len_(e) >= 64):
            vc.ensure("long_label.refused", Or(raised_is(out, UnicodeError), raised_is(out, ValueError)))
            return
        exp = exp + from_codes([len_(e)]) + e
    vc.ensure("wellformed.ok", out.ok)
    if out.ok:
        vc.ensure("wellformed.bytes", out.result == exp + b"\x00")
        vc.ensure("wellformed.is_bytes", isa(out.result, bytes))


@scenario("label.roundtrip", functions=[DN + "_unpack_label_into"], candidates=LABEL_CANDS)
def s_label_roundtrip(vc):
    """Reading back an encoded label: for an IDNA-canonical label l (e = enc_idna(l), 0 < |e| < 64, dec_idna(e) == l) the
    bytes `|e| e` placed anywhere in a buffer are read as exactly l and consumed exactly. With `name.pack` (a packed name is
    the concatenation of `|e_i| e_i` and a zero octet) and `name.unpack_from.loop` (labels are read at consecutive offsets
    until the zero octet) this gives unpack(pack(n)) == n by induction on the number of labels."""
    l = vc.sym_str("l")
    e = idna_enc(vc, l)
    vc.assume(idna_enc_ok(vc, l))
    vc.assume(And(len_(e) > 0, len_(e) < 64))
    vc.assume(idna_status(vc, e) == 0)
    vc.assume(idna_dec(vc, e) == l)
    pre = vc.sym_bytes("pre")
    rest = vc.sym_bytes("rest")
    buf = pre + from_codes([len_(e) % 256]) + e + rest
    labels = vc.list([])
    out = vc.call(DN + "_unpack_label_into", labels, buf, len_(pre))
    vc.ensure("ok", out.ok)
    if out.ok:
        vc.ensure("consumed_exactly", out.result == 1 + len_(e))
        vc.ensure("one_label", len_(labels) == 1)
        if len_(labels) == 1:
            vc.ensure("same_label", labels[0] == l)


@scenario("name.roundtrip.root", functions=[DN + "pack", DN + "unpack", DN + "unpack_from", DN + "_unpack_label_into"])
def s_root_roundtrip(vc):
    o1 = vc.call(DN + "pack", "")
    vc.ensure("pack.ok", o1.ok and vc.eq(o1.result, b"\x00"))
    o2 = vc.call(DN + "unpack", b"\x00")
    vc.ensure("unpack.ok", o2.ok and vc.eq(o2.result, ""))


@scenario("name.reencode.label", functions=[DN + "pack"], candidates=LABEL_CANDS)
def s_reencode_label(vc):
    """A decoded message must re-encode to bytes that decode to the same message: the text t of ONE wire label, used as a
    (single-label) name, must be packed as one label again. Known finding: text containing '.' is split into several labels
    (or refused with ValueError 'empty labels' for '.', 'a.', '.a')."""
    t = vc.sym_str("t")
    vc.assume(len_(t) > 0)
    K = vc.branch(contains(t, "."))
    if vc.mode == "sym":
        if K:
            vc.assume(False)  # inside the recorded class: not explored symbolically (witness replayed natively)
        from pyvc import libx_dns
        libx_dns.assume_sep_free(vc, t, ".")
    out = vc.call(DN + "pack", t)
    if vc.branch(Not(idna_enc_ok(vc, t))):
        return
    e = idna_enc(vc, t)
    if vc.branch(Or(len_(e) == 0, len_(e) >= 64)):
        return
    vc.ensure_kf("single_label.accepted", out.ok, "KF-C25-2", K)
    if out.ok:
        vc.ensure_kf("single_label.bytes", out.result == from_codes([len_(e)]) + e + b"\x00", "KF-C25-2", K)


# ---- compressed names (RFC 1035 §4.1.4)

def call_top_real(vc, ref, rec_summary, *args):
    """vc.call(ref, *args) where *recursive* calls of ref are replaced by rec_summary (the callee's contract) but the
    outermost activation runs the real code."""
    from pyvc.vc import resolve_ref
    state = {"depth": 0}
    orig = resolve_ref(ref)[2] if vc.mode == "native" else None

    def wrapper(v, *a, **k):
        if state["depth"] > 0:
            return rec_summary(v, *a, **k)
        state["depth"] = 1
        try:
            if v.mode == "native":
                return orig(*a, **k)
            from pyvc import interp as I
            f = v._ifunc(ref)
            I.SRC.note_used(f.module, f.qualname, f.node)
            return v.it.run_body(f, v.it.bind_args(f, list(a), k), None, None)
        finally:
            state["depth"] = 0

    vc.summary(ref, wrapper)
    return vc.call(ref, *args)


def dict_items(vc, d):
    return list(d.items) if vc.mode == "sym" else list(d.items())


def dict_lookup(vc, d, key):
    """(found, value) with found a bool/SBool; value of the first matching entry (contract-side, no forking)"""
    found, val = False, None
    for k, v in dict_items(vc, d):
        if vc.branch(k == key):
            return True, v
    return False, None


@scenario("name.compressed.activation", functions=[DN + "unpack_from_with_compression"], max_unroll=4)
def s_compressed(vc):
    """One activation of the compressed-name reader, label reader and recursive call abstracted by their contracts.
    RFC 1035 §4.1.4: a name is labels ending in a zero octet, a pointer, or labels ending in a pointer (2 octets, top bits
    11, 14-bit offset). Termination on pointer loops: an offset that is being read is marked in the cache before any
    recursive call, at most one recursive call is made per activation, and re-entering a marked offset is a parse error
    without further recursion — so the recursion depth is bounded by the number of distinct offsets (<= 2^14 + 1)."""
    buf = vc.sym_bytes("buf")
    off = vc.sym_int("off", lo=0)
    shape = vc.case("cache", ["empty", "other_entry", "in_progress", "done"])
    k0 = vc.sym_int("k0", lo=0)
    memo_name, memo_len = vc.sym_str("memo_name"), vc.sym_int("memo_len")
    memo = (memo_name, memo_len) if vc.mode == "native" else STuple([memo_name, memo_len])
    if shape == "empty":
        entries = []
    elif shape == "other_entry":
        vc.assume(k0 != off)
        entries = [(k0, None)]
    elif shape == "in_progress":
        entries = [(off, None)]
    else:
        entries = [(off, memo)]
    cache = vc.dict(entries)
    log = StepLog()
    vc.summary(DN + "_unpack_label_into", log)
    rec_calls = []
    rec_fails = vc.sym_bool("rec_fails")
    rec_name, rec_len = vc.sym_str("rec_name"), vc.sym_int("rec_len", lo=0)

    def rec(v, buffer, target, c):
        marked = dict_lookup(v, c, off)
        rec_calls.append(dict(buffer=buffer, target=target, cache=c, marked=marked))
        if v.branch(rec_fails):
            raise_(v, SE())
        return (rec_name, rec_len) if v.mode == "native" else STuple([rec_name, rec_len])

    out = call_top_real(vc, DN + "unpack_from_with_compression", rec, buf, off, cache)
    vc.ensure("total.only_parse_error", Or(out.ok, raised_is(out, SE())))
    if shape == "in_progress":
        vc.ensure("loop.detected_as_parse_error", raised_is(out, SE()))
        vc.ensure("loop.no_further_recursion", len(rec_calls) == 0 and len(log.calls) == 0)
        return
    if shape == "done":
        vc.ensure("memo.ok", out.ok)
        if out.ok:
            vc.ensure("memo.result", And(out.result[0] == memo_name, out.result[1] == memo_len))
        vc.ensure("memo.no_reading", len(rec_calls) == 0 and len(log.calls) == 0)
        return
    pos, labs = check_label_loop(vc, log, out.ok, buf, off)
    last = log.calls[-1]["outcome"] if log.calls else None
    vc.ensure("recursion.at_most_once", len(rec_calls) <= 1)
    for r in rec_calls:
        found, val = r["marked"]
        vc.ensure("recursion.offset_marked_in_progress_before", found is True and isnone(val))
        vc.ensure("recursion.same_buffer_and_cache", r["buffer"] is buf and r["cache"] is cache)
        vc.ensure("recursion.target_in_14_bits", And(r["target"] >= 0, r["target"] < 16384))
    if last == "end":
        vc.ensure("plain.no_recursion", len(rec_calls) == 0)
        vc.ensure("plain.ok", out.ok)
        if out.ok:
            vc.ensure("plain.name", out.result[0] == join_dots(labs))
            vc.ensure("plain.length", out.result[1] == pos - off)
    elif last == "raise":
        vc.ensure("bad_label.parse_error", raised_is(out, SE()))
        vc.ensure("bad_label.no_recursion", len(rec_calls) == 0)
    else:
        # the label run stopped at pos without a terminator: must be a complete pointer, else a parse error
        L = len_(buf)
        if vc.branch(And(pos + 1 < L, code_or(buf, pos) >= 192)):
            vc.ensure("pointer.followed_once", len(rec_calls) == 1)
            if len(rec_calls) == 1:
                vc.ensure("pointer.target", rec_calls[0]["target"] == (code_or(buf, pos) - 192) * 256 + code_or(buf, pos + 1))
                if vc.branch(rec_fails):
                    vc.ensure("pointer.error_propagates", raised_is(out, SE()))
                else:
                    vc.ensure("pointer.ok", out.ok)
                    if out.ok:
                        # labels read here followed by the labels of the target name; an empty target name (root) adds none
                        exp = If(len_(rec_name) == 0, join_dots(labs), join_dots(labs + [rec_name])) if labs else rec_name
                        vc.ensure("pointer.name", out.result[0] == exp)  # root target was KF-C25-3, fixed in 51dfc2c2f
                        vc.ensure("pointer.length", out.result[1] == pos + 2 - off)
        else:
            vc.ensure("truncated_or_bad.parse_error", raised_is(out, SE()))
            vc.ensure("truncated_or_bad.no_recursion", len(rec_calls) == 0)
    if out.ok:
        found, val = dict_lookup(vc, cache, off)
        vc.ensure("memo.stored", found is True and not isnone(val) and vc.eq(val, out.result))
        if shape == "other_entry":
            f2, v2 = dict_lookup(vc, cache, k0)
            vc.ensure("memo.frame", f2 is True and isnone(v2))


# =============================================================================================
# messages (RFC 1035 §4.1.1 header, §4.1.2 question, §4.1.3 resource record)

FLAG_FIELDS = ("query", "op_code", "authoritative_answer", "truncation", "recursion_desired", "recursion_available", "reserved", "response_code")


def bit(x):
    """bool -> 0/1 in both modes"""
    return If(x, 1, 0)


def spec_flags(m):
    """RFC 1035 §4.1.1: QR(1) Opcode(4) AA TC RD RA Z(3) RCODE(4), most significant bit first; QR = 0 for a query"""
    return (bit(Not(m["query"])) * 32768 + m["op_code"] * 2048 + bit(m["authoritative_answer"]) * 1024 + bit(m["truncation"]) * 512
            + bit(m["recursion_desired"]) * 256 + bit(m["recursion_available"]) * 128 + m["reserved"] * 16 + m["response_code"])


def be(n, width):
    """big-endian bytes of a non-negative int < 256**width (both modes)"""
    return from_codes([(n // (256 ** (width - 1 - k))) % 256 for k in range(width)])


def sym_header_fields(vc, pfx=""):
    return dict(id=vc.sym_int(pfx + "id"), query=vc.sym_bool(pfx + "query"), op_code=vc.sym_int(pfx + "op_code"),
                authoritative_answer=vc.sym_bool(pfx + "aa"), truncation=vc.sym_bool(pfx + "tc"), recursion_desired=vc.sym_bool(pfx + "rd"),
                recursion_available=vc.sym_bool(pfx + "ra"), reserved=vc.sym_int(pfx + "reserved"), response_code=vc.sym_int(pfx + "rcode"))


def mk_message(vc, f, questions=(), answers=(), authorities=(), additionals=(), timestamp=None):
    return vc.new(M, timestamp=timestamp, questions=vc.list(list(questions)), answers=vc.list(list(answers)),
                  authorities=vc.list(list(authorities)), additionals=vc.list(list(additionals)), **f)


def in_range(f):
    return And(f["id"] >= 0, f["id"] <= 65535, f["op_code"] >= 0, f["op_code"] <= 15, f["reserved"] >= 0, f["reserved"] <= 7,
               f["response_code"] >= 0, f["response_code"] <= 15)


def call_packed(vc, m):
    if vc.mode == "native":
        return vc.call(lambda x: x.packed, m)
    return vc.call(M + ".packed", m)


@scenario("header.packed", functions=[M + ".packed"])
def s_header_packed(vc):
    f = sym_header_fields(vc)
    m = mk_message(vc, f)
    out = call_packed(vc, m)
    if vc.branch(in_range(f)):
        vc.ensure("in_range.ok", out.ok)
        if out.ok:
            vc.ensure("in_range.length", len_(out.result) == 12)
            vc.ensure("in_range.id", be16(out.result, 0) == f["id"])
            vc.ensure("in_range.flags", be16(out.result, 2) == spec_flags(f))
            vc.ensure("in_range.counts_zero", out.result[4:12] == b"\x00" * 8)
    else:
        vc.ensure("out_of_range.value_error", raised_is(out, ValueError))


def spec_header_fields(buf, off):
    flags = be16(buf, off + 2)
    return dict(id=be16(buf, off), query=flags < 32768, op_code=(flags // 2048) % 16, authoritative_answer=(flags // 1024) % 2 == 1,
                truncation=(flags // 512) % 2 == 1, recursion_desired=(flags // 256) % 2 == 1, recursion_available=(flags // 128) % 2 == 1,
                reserved=(flags // 16) % 8, response_code=flags % 16)


def check_header_fields(vc, msg, exp, tag):
    for k, v in exp.items():
        vc.ensure(f"{tag}.{k}", vc.eq(getattr(msg, k), v))


HEADER_CANDS = [dict(buf=bytes([0x12, 0x34, fl >> 8, fl & 255]) + bytes(8) + tail, off=0, ts=5)
                for fl in (0x0100, 0x0080, 0x8000, 0x7800, 0x0400, 0x0200, 0x0070, 0x000F, 0xFFFF, 0) for tail in (b"", b"xy")] + [dict(buf=b"\x00" * 5, off=0, ts=1)]


@scenario("header.unpack_from", functions=[M + ".unpack_from"], candidates=HEADER_CANDS)
def s_header_unpack(vc):
    buf = vc.sym_bytes("buf")
    off = vc.sym_int("off", lo=0)
    ts = vc.sym_int("ts")
    L = len_(buf)
    if vc.branch(off + 12 > L):
        out = vc.call(M + ".unpack_from", vc.const(M), buf, off, ts)
        vc.ensure("short_header.parse_error", raised_is(out, SE()))
        return
    for k in range(4):
        vc.assume(be16(buf, off + 4 + 2 * k) == 0)
    out = vc.call(M + ".unpack_from", vc.const(M), buf, off, ts)
    vc.ensure("ok", out.ok)
    if not out.ok:
        return
    vc.ensure("length", out.result[0] == off + 12)
    msg = out.result[1]
    check_header_fields(vc, msg, spec_header_fields(buf, off), "field")
    vc.ensure("timestamp", vc.eq(msg.timestamp, ts))
    vc.ensure("sections_empty", And(len_(msg.questions) == 0, len_(msg.answers) == 0, len_(msg.authorities) == 0, len_(msg.additionals) == 0))


@scenario("header.flags.spec_roundtrip", functions=[])
def s_flags_lemma(vc):
    """Glue lemma (pure arithmetic, no code): decoding the RFC 1035 flag word built from in-range fields gives the fields
    back. With `header.packed` (bytes follow the RFC layout) and `header.unpack_from` (fields are read per the RFC layout)
    this is unpack(packed(m)) == m on the header; the same statement on the real code end-to-end is `header.roundtrip`
    (thorough tier)."""
    f = sym_header_fields(vc)
    vc.assume(in_range(f))
    fl = spec_flags(f)
    vc.ensure("flags.fits_16_bits", And(fl >= 0, fl <= 65535))
    dec = dict(query=fl < 32768, op_code=(fl // 2048) % 16, authoritative_answer=(fl // 1024) % 2 == 1, truncation=(fl // 512) % 2 == 1,
               recursion_desired=(fl // 256) % 2 == 1, recursion_available=(fl // 128) % 2 == 1, reserved=(fl // 16) % 8, response_code=fl % 16)
    for k, v in dec.items():
        vc.ensure(f"decode_of_encode.{k}", Iff(v, f[k]) if k in ("query", "authoritative_answer", "truncation", "recursion_desired", "recursion_available") else v == f[k])


def _thorough():
    import os
    return os.environ.get("PYVC_TIER") == "thorough"


def s_header_roundtrip(vc):
    """unpack(packed(m)) has the same header fields as m, for every in-range value of every field (sections empty)"""
    f = sym_header_fields(vc)
    vc.assume(in_range(f))
    m = mk_message(vc, f)
    o1 = call_packed(vc, m)
    vc.ensure("pack.ok", o1.ok)
    if not o1.ok:
        return
    o2 = vc.call(M + ".unpack", vc.const(M), o1.result)
    vc.ensure("unpack.ok", o2.ok)
    if o2.ok:
        check_header_fields(vc, o2.result, f, "same")


if _thorough():
    s_header_roundtrip = scenario("header.roundtrip", functions=[M + ".packed", M + ".unpack", M + ".unpack_from"])(s_header_roundtrip)


def packname(vc, name):
    """bytes of a packed name: real domain_names.pack natively, an uninterpreted function in proof mode (its contract is `name.pack`)"""
    if vc.mode == "native":
        from mitmproxy.net.dns import domain_names
        return _ORIG["pack"](name)
    import z3
    from pyvc import lib
    return SBytes(lib.uf("packname", z3.StringSort(), z3.StringSort())(name.t))


_ORIG = {}


def _remember_originals():
    from mitmproxy.net.dns import domain_names
    for n in ("pack", "unpack_from_with_compression", "record_data_can_have_compression", "decompress_from_record_data"):
        f = getattr(domain_names, n)
        if getattr(f, "__module__", "") == domain_names.__name__:   # not a summary wrapper
            _ORIG.setdefault(n, f)


def mk_question(vc, i):
    return vc.new("mitmproxy.dns:Question", name=vc.sym_str(f"q{i}_name"), type=vc.sym_int(f"q{i}_type", lo=0, hi=65535), class_=vc.sym_int(f"q{i}_class", lo=0, hi=65535))


def mk_rr(vc, tag):
    data = vc.sym_bytes(f"{tag}_data")
    vc.assume(len_(data) <= 65535)
    return vc.new("mitmproxy.dns:ResourceRecord", name=vc.sym_str(f"{tag}_name"), type=vc.sym_int(f"{tag}_type", lo=0, hi=65535),
                  class_=vc.sym_int(f"{tag}_class", lo=0, hi=65535), ttl=vc.sym_int(f"{tag}_ttl", lo=0, hi=2 ** 32 - 1), data=data)


CONCRETE_HEADER = dict(id=0x1234, query=False, op_code=0, authoritative_answer=True, truncation=False, recursion_desired=True,
                       recursion_available=True, reserved=0, response_code=3)


@scenario("message.packed.framing", functions=[M + ".packed"])
def s_packed_framing(vc):
    """RFC 1035 §4.1: header (counts = section sizes), then questions (QNAME QTYPE QCLASS), then answer, authority and
    additional records in this order (NAME TYPE CLASS TTL RDLENGTH RDATA), RDATA copied verbatim. Names are packed by
    domain_names.pack (abstracted; contract `name.pack`). Header fields are fixed here (contract `header.packed`)."""
    _remember_originals()
    nq, nan, nns, nar = vc.case("shape", [(1, 1, 1, 1), (2, 0, 1, 0), (0, 2, 0, 0), (0, 0, 0, 0)])
    qs = [mk_question(vc, i) for i in range(nq)]
    an = [mk_rr(vc, f"an{i}") for i in range(nan)]
    ns = [mk_rr(vc, f"ns{i}") for i in range(nns)]
    ar = [mk_rr(vc, f"ar{i}") for i in range(nar)]
    m = mk_message(vc, dict(CONCRETE_HEADER), qs, an, ns, ar)
    vc.summary(DN + "pack", lambda v, name: packname(v, name))
    out = call_packed(vc, m)
    vc.ensure("ok", out.ok)
    if not out.ok:
        return
    exp = be(0x1234, 2) + be(0x8583, 2) + be(nq, 2) + be(nan, 2) + be(nns, 2) + be(nar, 2)
    vc.ensure("header", out.result[0:12] == exp)
    for q in qs:
        exp = exp + packname(vc, q.name) + be(q.type, 2) + be(q.class_, 2)
    for rr in an + ns + ar:
        exp = exp + packname(vc, rr.name) + be(rr.type, 2) + be(rr.class_, 2) + be(rr.ttl, 4) + be(len_(rr.data), 2) + rr.data
    vc.ensure("whole_message", out.result == exp)


class Recorder:
    """Summaries (callee contracts) for the helpers of DNSMessage.unpack_from; every call is recorded."""

    def __init__(self, vc):
        self.names, self.cancomp, self.decomp = [], [], []

    def read_name(self, v, buffer, offset, cache):
        i = len(self.names)
        rec = dict(buffer=buffer, offset=offset, cache=cache, fails=v.sym_bool(f"name{i}_fails"), name=v.sym_str(f"name{i}"), length=v.sym_int(f"name{i}_len", lo=1))
        self.names.append(rec)
        if v.branch(rec["fails"]):
            raise_(v, SE())
        return (rec["name"], rec["length"]) if v.mode == "native" else STuple([rec["name"], rec["length"]])

    def can_compress(self, v, record_type):
        i = len(self.cancomp)
        rec = dict(type=record_type, result=v.sym_bool(f"compressible{i}"))
        self.cancomp.append(rec)
        return ret_(v, rec["result"])

    def decompress(self, v, buffer, offset, end_data, cache):
        i = len(self.decomp)
        rec = dict(buffer=buffer, offset=offset, end=end_data, cache=cache, result=v.sym_bytes(f"decompressed{i}"))
        self.decomp.append(rec)
        return ret_(v, rec["result"])

    def install(self, vc):
        vc.summary(DN + "unpack_from_with_compression", self.read_name)
        vc.summary(DN + "record_data_can_have_compression", self.can_compress)
        vc.summary(DN + "decompress_from_record_data", self.decompress)


def be32(buf, i):
    return be16(buf, i) * 65536 + be16(buf, i + 2)


@scenario("message.unpack_from.total", functions=[M + ".unpack_from"], max_unroll=1)
def s_unpack_total(vc):
    """Arbitrary bytes (sections of <= 1 entry each): the framing code of DNSMessage.unpack_from raises nothing but the parse
    error (struct.error), given that the name reader / decompressor raise nothing else (their contracts)."""
    buf = vc.sym_bytes("buf")
    if vc.branch(len_(buf) >= 12):
        vc.assume(And(be16(buf, 8) == 0, be16(buf, 10) == 0))   # authority / additional sections: same code path (unpack_rrs) as answers
    R = Recorder(vc)
    R.install(vc)
    out = vc.call(M + ".unpack_from", vc.const(M), buf, 0, None)
    vc.ensure("total.only_parse_error", Or(out.ok, raised_is(out, SE())))
    if out.ok:
        vc.ensure("ok.consumed_within_buffer", And(out.result[0] >= 12, out.result[0] <= len_(buf)))


FRAMING_CANDS = [dict(name0="wWw.ExAmPlE.CoM", name1="MaIl.Example.ORG", name2="A.b"), dict(name0="example.com", name1="ns.example.com", name2="x")]


@scenario("message.unpack_from.framing", functions=[M + ".unpack_from"], max_unroll=2, candidates=FRAMING_CANDS)
def s_unpack_framing(vc):
    return _unpack_framing(vc, [(1, 1, 0, 0), (0, 0, 1, 1), (2, 0, 0, 0)], False)


@scenario("message.unpack_from.oversize_rdata", functions=[M + ".unpack_from"], max_unroll=2)
def s_unpack_oversize(vc):
    """Record data that no longer fits the 16-bit RDLENGTH after name expansion makes the message a parse error (it could
    never be packed again); record data within the bound never does."""
    return _unpack_framing(vc, [(0, 1, 0, 0)], True)


def _unpack_framing(vc, shapes, oversize_case):
    """RFC 1035 §4.1 read side on a buffer laid out per the RFC (name regions of arbitrary length and content, RDATA of 0 or
    3 arbitrary octets, arbitrary trailing bytes), name reader / RDATA decompression abstracted by their contracts: sections are read in order
    with the counts of the header, every field from the offset where the previous one ended, RDATA is the RDLENGTH octets
    after the record header (or their decompression for name-bearing types), the returned offset is the end of the message."""
    shape = vc.case("shape", shapes)
    parts = [be(0x1234, 2), be(0x8583, 2)] + [be(n, 2) for n in shape]   # header fields: contract `header.unpack_from`
    regions = []           # name regions in wire order
    qs, rrs = [], [[], [], []]
    for i in range(shape[0]):
        N = vc.sym_bytes(f"q{i}_name_region")
        vc.assume(len_(N) >= 1)
        t, c = vc.sym_int(f"q{i}_type", lo=0, hi=65535), vc.sym_int(f"q{i}_class", lo=0, hi=65535)
        regions.append(N)
        qs.append((t, c))
        parts += [N, be(t, 2), be(c, 2)]
    for sec in range(3):
        for i in range(shape[1 + sec]):
            tag = f"rr{sec}_{i}"
            N = vc.sym_bytes(f"{tag}_name_region")
            dl = vc.case(f"{tag}_rdlength", [3, 0])
            D = from_codes([vc.sym_int(f"{tag}_rdata{j}") % 256 for j in range(dl)]) if dl else b""
            vc.assume(len_(N) >= 1)
            t, c, ttl = vc.sym_int(f"{tag}_type", lo=0, hi=65535), vc.sym_int(f"{tag}_class", lo=0, hi=65535), vc.sym_int(f"{tag}_ttl", lo=0, hi=2 ** 32 - 1)
            regions.append(N)
            rrs[sec].append((t, c, ttl, D))
            parts += [N, be(t, 2), be(c, 2), be(ttl, 4), be(len_(D), 2), D]
    trailing = vc.sym_bytes("trailing")
    buf = concat_all(parts + [trailing])
    starts, pos = [], 12
    k = 0
    for i in range(shape[0]):
        starts.append(pos)
        pos = pos + len_(regions[k]) + 4
        k += 1
    rdata_at = []
    for sec in range(3):
        for (t, c, ttl, D) in rrs[sec]:
            starts.append(pos)
            pos = pos + len_(regions[k]) + 10
            rdata_at.append((pos, pos + len_(D)))
            pos = pos + len_(D)
            k += 1
    end = pos
    names = [vc.sym_str(f"name{i}") for i in range(len(regions))]
    calls = dict(n=[], c=[], d=[])
    comp = [vc.sym_bool(f"compressible{i}") for i in range(len(rdata_at))]
    dec = [vc.sym_bytes(f"decompressed{i}") for i in range(len(rdata_at))]
    # expanded record data that still fits the 16-bit RDLENGTH (larger results are a parse error since 44a6bf1a8: scenario
    # message.unpack_from.oversize_rdata)
    if not oversize_case:
        for d_ in dec:
            vc.assume(len_(d_) <= 0xFFFF)

    def read_name(v, buffer, offset, cache):
        i = len(calls["n"])
        calls["n"].append((buffer, offset, cache))
        if i >= len(names):
            raise_(v, SE())
        return (names[i], len(regions[i])) if v.mode == "native" else STuple([names[i], len_(regions[i])])

    def can_compress(v, record_type):
        i = len(calls["c"])
        calls["c"].append(record_type)
        return ret_(v, comp[min(i, len(comp) - 1)])

    def decompress(v, buffer, offset, end_data, cache):
        i = len(calls["d"])
        calls["d"].append((buffer, offset, end_data, cache))
        return ret_(v, dec[min(i, len(dec) - 1)])

    vc.summary(DN + "unpack_from_with_compression", read_name)
    vc.summary(DN + "record_data_can_have_compression", can_compress)
    vc.summary(DN + "decompress_from_record_data", decompress)
    out = vc.call(M + ".unpack_from", vc.const(M), buf, 0, None)
    if oversize_case:
        # a message containing such a record could never be packed again: it must not be returned
        vc.ensure("parse_error_iff_used_and_too_long", Iff(And(comp[0], len_(dec[0]) > 0xFFFF), not out.ok))
        if not out.ok:
            vc.ensure("error_is_parse_error", raised_is(out, SE()))
        return
    vc.ensure("ok", out.ok)
    if not out.ok:
        return
    vc.ensure("names.one_read_per_entry", len(calls["n"]) == len(regions))
    for i, (b, o, c) in enumerate(calls["n"][:len(regions)]):
        vc.ensure(f"name{i}.read_where_previous_field_ended", o == starts[i])
        vc.ensure(f"name{i}.whole_message_and_shared_cache", b is buf and c is calls["n"][0][2])
    vc.ensure("end_offset", out.result[0] == end)
    msg = out.result[1]
    vc.ensure("questions.count", len_(msg.questions) == len(qs))
    if len_(msg.questions) == len(qs):
        for i, (t, c) in enumerate(qs):
            q = msg.questions[i]
            vc.ensure(f"question{i}.fields", And(q.name == names[i], q.type == t, q.class_ == c))
    vc.ensure("type_table.consulted_once_per_record", len(calls["c"]) == len(rdata_at))
    k, r = shape[0], 0
    di = 0
    for sec, attr in enumerate(("answers", "authorities", "additionals")):
        lst = getattr(msg, attr)
        vc.ensure(f"{attr}.count", len_(lst) == len(rrs[sec]))
        if len_(lst) != len(rrs[sec]):
            return
        for i, (t, c, ttl, D) in enumerate(rrs[sec]):
            rr = lst[i]
            vc.ensure(f"{attr}{i}.header_fields", And(rr.name == names[k], rr.type == t, rr.class_ == c, rr.ttl == ttl))
            if r < len(calls["c"]):
                vc.ensure(f"{attr}{i}.type_table_asked_for_its_type", vc.eq(calls["c"][r], t))
            if vc.branch(comp[r]):
                vc.ensure(f"{attr}{i}.decompressed", di < len(calls["d"]))
                if di < len(calls["d"]):
                    b, o, e, c2 = calls["d"][di]
                    vc.ensure(f"{attr}{i}.decompress_args", And(b is buf, o == rdata_at[r][0], e == rdata_at[r][1], c2 is calls["n"][0][2]))
                    vc.ensure(f"{attr}{i}.data", rr.data == dec[di])
                di += 1
            else:
                vc.ensure(f"{attr}{i}.data", rr.data == D)
            k += 1
            r += 1
    vc.ensure("decompress.only_for_name_bearing_types", di == len(calls["d"]))


@scenario("message.unpack", functions=[M + ".unpack"])
def s_message_unpack(vc):
    """unpack(buffer) accepts exactly one whole message: trailing bytes after it are a parse error."""
    buf = vc.sym_bytes("buf")
    end = vc.sym_int("end")
    fails = vc.sym_bool("inner_fails")
    inner_msg = mk_message(vc, dict(CONCRETE_HEADER))
    seen = []

    def inner(v, cls, buffer, offset, timestamp=None):
        seen.append((buffer, offset))
        if v.branch(fails):
            raise_(v, SE())
        return (end, inner_msg) if v.mode == "native" else STuple([lift(end), inner_msg])

    if vc.mode == "native":
        import mitmproxy.dns as D
        orig = D.DNSMessage.__dict__["unpack_from"]
        D.DNSMessage.unpack_from = classmethod(lambda cls, *a, **k: inner(vc, cls, *a, **k))
        try:
            out = vc.call(M + ".unpack", buf)
        finally:
            D.DNSMessage.unpack_from = orig
    else:
        vc.summary(M + ".unpack_from", inner)
        out = vc.call(M + ".unpack", vc.const(M), buf)
    vc.ensure("reads_from_start", len(seen) == 1 and seen[0][0] is buf and vc.eq(seen[0][1], 0))
    if vc.branch(fails):
        vc.ensure("inner_error.propagates", raised_is(out, SE()))
    elif vc.branch(end == len_(buf)):
        vc.ensure("exact.ok", out.ok)
        if out.ok:
            vc.ensure("exact.message", out.result is inner_msg)
    else:
        vc.ensure("trailing_bytes.parse_error", raised_is(out, SE()))


# =============================================================================================
# RDATA decompression (decoding clause: "produces a message" means every compression pointer inside the record data of a
# name-bearing type is replaced by exactly the packed target name at exactly its own position)

def _c26():
    from props import C26
    return C26


RDATA_NAME_CANDS = [dict(read0_name=a, read1_name=b, before=bytes(12) + b"\x07example\x03com\x00", after=b"") for a, b in
                    [("", "example.com"), ("m\u00fcnchen.de", "admin.m\u00fcnchen.de"), ("example.com", "b.org"), ("b\u00fccher.example", ""), ("a", "")]]


@scenario("rdata.decompress.no_pointer_octets", functions=[DN + "decompress_from_record_data"], max_unroll=7)
def s_rdata_plain(vc):
    """(contract text: props/C26.py s_decompress_plain)"""
    return _c26().s_decompress_plain.fn(vc)


@scenario("rdata.decompress.one_name", functions=[DN + "decompress_from_record_data"], candidates=RDATA_NAME_CANDS, max_unroll=8)
def s_rdata_one(vc):
    """(contract text: props/C26.py s_decompress_one)"""
    return _c26().s_decompress_one.fn(vc)


@scenario("rdata.decompress.two_names", functions=[DN + "decompress_from_record_data"], candidates=RDATA_NAME_CANDS, max_unroll=10)
def s_rdata_two(vc):
    """(contract text: props/C26.py s_decompress_two)"""
    return _c26().s_decompress_two.fn(vc)


@scenario("rdata.decompress.names_between_fixed_fields", functions=[DN + "decompress_from_record_data"], candidates=RDATA_NAME_CANDS, max_unroll=9)
def s_rdata_interleaved(vc):
    """Record data laid out as [fixed][name as pointer][fixed][name as pointer][fixed] (PX: preference + two names; SOA/RP/MINFO:
    two names + fixed fields; names separated by other fields): each pointer is read at its own position in the *original*
    data and replaced, in place, by exactly the packed name the reader returned - whatever the lengths of the expanded names
    (the name text and its packed form differ in length by other than 2 for the root name and for IDN names) - and every other
    octet is unchanged and in its original order."""
    C = _c26()
    npre, nmid, npost = vc.case("layout", [(2, 0, 0), (0, 2, 0), (0, 1, 2)])
    pre, mid, post = C.lit_bytes(vc, "pre", npre), C.lit_bytes(vc, "mid", nmid), C.lit_bytes(vc, "post", npost)
    for c in pre + mid + post:
        vc.assume(c < 192)   # fixed-field octets >= 0xC0 are the recorded class KF-C26-3 (C26)
    a0, a1 = vc.sym_int("ptr1_hi", lo=192, hi=255), vc.sym_int("ptr1_lo", lo=0, hi=191)
    b0, b1 = vc.sym_int("ptr2_hi", lo=192, hi=255), vc.sym_int("ptr2_lo", lo=0, hi=191)
    prefix, suffix = vc.sym_bytes("before"), vc.sym_bytes("after")
    rd = C.Reader(vc)
    rdata = C.as_bytes(pre) + C.as_bytes([a0, a1]) + C.as_bytes(mid) + C.as_bytes([b0, b1]) + C.as_bytes(post)
    out, buf, off, cache = C.call_decompress(vc, prefix, rdata, suffix, rd)
    vc.ensure("ok", out.ok)
    if not out.ok:
        return
    vc.ensure("first_name_read", len(rd.calls) >= 1)
    if len(rd.calls) == 0:
        return
    c1 = rd.calls[0]
    vc.ensure("first_name_read_at_its_pointer", c1["offset"] == off + npre)
    if vc.branch(c1["fails"]):
        return
    vc.ensure("second_name_read", len(rd.calls) == 2)
    if len(rd.calls) != 2:
        return
    c2 = rd.calls[1]
    vc.ensure("second_name_read_at_its_pointer_in_the_original_data", c2["offset"] == off + npre + 2 + nmid)
    vc.ensure("reader.whole_message_and_cache", c2["buffer"] is buf and c2["cache"] is cache and c1["buffer"] is buf and c1["cache"] is cache)
    if vc.branch(c2["fails"]):
        return
    exp = C.as_bytes(pre) + C.packname(vc, c1["name"]) + C.as_bytes(mid) + C.packname(vc, c2["name"]) + C.as_bytes(post)
    vc.ensure("every_pointer_replaced_in_place_by_the_packed_name", out.result == exp)
    vc.ensure("result_length", len_(out.result) == npre + nmid + npost + len_(C.packname(vc, c1["name"])) + len_(C.packname(vc, c2["name"])))


# =============================================================================================
# T2 (bounded): the real DNSMessage codec on enumerated messages and byte strings

ASSUMPTIONS = [
    "the idna codec (bytes.decode('idna') / str.encode('idna')) is library behaviour: uninterpreted functions in T1 (dec_idna, enc_idna, idna_dec_status, idna_encodable; ''.encode('idna') == b''), exercised for real in T2",
    "IDNA-canonical name = every label l is non-empty, contains no '.', encodes to 1..63 octets and dec_idna(enc_idna(l)) == l",
    "T1 name/label loops are unrolled (label loops: names of <= 3-4 labels; pack: names with <= 3 labels; sections of <= 2 entries); composition to arbitrary sizes is by the induction described in EXPLANATION and checked bounded in T2",
    "message.unpack_from.framing: RDATA lengths 0 and 3, header fixed (header fields are covered by header.unpack_from); message.unpack_from.total: authority/additional counts 0 (same code path as answers)",
    "a | b on two symbolic ints is modelled as a + b - (a & b) with (a & b) = 0 derived only for disjoint bit ranges (sound over-approximation)",
    "summaries used in message-level scenarios are the contracts proved in the name-level scenarios (name reader: returns (text, length >= 1) or raises struct.error; decompress: returns bytes)",
]
EXPLANATION = (
    "T1 proves the mechanisms for all inputs: the label step (_unpack_label_into: exact consumption, progress >= 1 octet inside the buffer, "
    "only struct.error), the two label loops over an abstract step (consecutive offsets, join, end offset, "
    "pointer handling), one activation of the compressed reader with the recursive call abstracted (the offset is marked in the cache before the single "
    "recursive call, re-entry is a parse error: the termination measure), pack (exact RFC 1035 framing for names with <= 3 labels), the label round trip "
    "dec(enc(l)) read back exactly, header flag packing/unpacking against the RFC bit layout over the full field ranges plus the arithmetic glue lemma, "
    "message framing in both directions with name handling abstracted. The composition (round trip of whole messages with any number of labels/records, "
    "totality of DNSMessage.unpack on arbitrary bytes, re-encoding of decoded messages) is an induction over these lemmas that is not mechanised: it is "
    "checked bounded in T2 on the real code, together with the real idna codec."
)

T2_NAMES = ["", "a", "example.com", "münchen.de", "bücher.example", "A.b", "a-b.c_d", "x" * 63 + ".y", "*.example.org", "a.b.c.d.e.f.g", "1.0.0.127.in-addr.arpa", "例え.jp"]
NAME_BEARING_LISTED = None


def _listed_types():
    from mitmproxy.net.dns import domain_names
    return [t for t in range(0, 300) if domain_names.record_data_can_have_compression(t)]


def _mk(id=0, query=True, op=0, aa=False, tc=False, rd=False, ra=False, z=0, rcode=0, q=(), an=(), ns=(), ar=()):
    from mitmproxy import dns
    return dns.DNSMessage(id=id, query=query, op_code=op, authoritative_answer=aa, truncation=tc, recursion_desired=rd, recursion_available=ra,
                          reserved=z, response_code=rcode, questions=list(q), answers=list(an), authorities=list(ns), additionals=list(ar))


def _hdr(id=1, flags=0, q=0, an=0, ns=0, ar=0):
    import struct
    return struct.pack("!HHHHHH", id, flags, q, an, ns, ar)


def _decode(buf):
    """('msg', m) | ('parse_error', text) | ('other', exception)"""
    import struct
    from mitmproxy import dns
    try:
        return "msg", dns.DNSMessage.unpack(buf)
    except struct.error as e:
        return "parse_error", str(e)
    except BaseException as e:  # noqa: B036 - RecursionError etc. are exactly what the check is about
        return "other", e


def _label_class(buf_desc):
    return buf_desc


def bounded(tier, seed):
    import itertools, random, struct, time
    from mitmproxy import dns
    from props import dnsref
    b = Bounded()
    rnd = random.Random(seed)
    quick = tier == "quick"
    b.rule = ("A: well-formed messages (header fields over boundary values x names incl. IDN/63-octet labels/root x types x classes x TTLs x RDATA byte strings) "
              "-> packed -> unpack == message; B: byte strings (valid header + every string over a pointer/length alphabet, truncations of valid messages at every cut, "
              "trailing bytes, pointer chains and loops, labels around the idna ACE prefix) -> message or struct.error within a time budget, and decoded messages "
              "re-encode to bytes that decode to the same message; C: idna axioms used in T1 vs the real codec. distinct = distinct input; non-trivial = decodes / is well-formed")
    b.bound = "A: <= 3 records, RDATA <= 3 bytes over {00,01,0c,3f,40,c0,ff} (+ structured); B: tails <= 3 (quick) / 4 (thorough) bytes over {00,01,02,03,0c,3f,40,61,2e,c0,ff}; pointer chains <= 3000"
    listed = set(_listed_types())
    # ---------------- A: encode -> decode
    alpha = [0x00, 0x01, 0x0c, 0x3f, 0x40, 0xc0, 0xff]
    rdatas = [bytes(t) for n in range(0, 4) for t in itertools.product(alpha, repeat=n)]
    rdatas += [b"\x03www\x07example\x03com\x00", b"\x00\x0a\x04mail\x00", bytes(range(16)), b"\xc3\xa4\xc3\xb6", b"\x02\xc0\x0c", b"\xc0\x0c\x00\x01"]
    types_ = [1, 2, 5, 6, 12, 13, 15, 16, 28, 33, 41, 65, 99, 255, 65535]
    hdrs = [dict(id=i, query=qr, op=op, aa=aa, tc=tc, rd=rd, ra=ra, z=z, rcode=rc)
            for i in (0, 1, 0x1234, 65535) for qr in (True, False) for op in (0, 5, 15) for aa in (False, True) for tc in (False, True)
            for rd in (False, True) for ra in (False, True) for z in (0, 7) for rc in (0, 3, 15)]
    rnd.shuffle(hdrs)
    hdrs = hdrs[:400 if quick else len(hdrs)]
    for h in hdrs:
        m = _mk(**h, q=[dns.Question(rnd.choice(T2_NAMES), rnd.choice(types_), rnd.choice([1, 3, 255, 65535]))])
        b.case(("A.header", tuple(h.items())), nontrivial=True)
        kind, got = _decode(m.packed)
        if kind != "msg" or got != m:
            b.fail("c25.encode_decode_same_message", {"message": repr(m)}, f"decoded: {got!r}")
    combos = [(n, t, rd) for n in T2_NAMES for t in types_ for rd in rdatas]
    rnd.shuffle(combos)
    combos = combos[:12000 if quick else 60000]
    for n, t, rd in combos:
        ttl = rnd.choice([0, 1, 60, 2 ** 31, 2 ** 32 - 1])
        cls = rnd.choice([1, 255, 65535])
        rr = dns.ResourceRecord(n, t, cls, ttl, rd)
        qn = rnd.choice(T2_NAMES)
        m = _mk(id=7, query=False, rd=True, ra=True, q=[dns.Question(qn, t, cls)], an=[rr], ar=[dns.ResourceRecord(qn, 1, 1, 5, b"\x7f\x00\x00\x01")] if rd[:1] == b"\xc0" else [])
        tag = ".rdata_has_byte>=0xc0_in_type_listed_as_compressible" if (t in listed and any(x >= 0xC0 for x in rd)) else ""
        b.case(("A.rr", n, t, rd), nontrivial=True)
        kind, got = _decode(m.packed)
        if kind != "msg" or got != m:
            b.fail("c25.encode_decode_same_message" + tag, {"name": n, "type": t, "rdata": rd.hex(), "question": qn},
                   f"sent rdata {rd.hex()} decoded {(got.answers[0].data.hex() if kind == 'msg' and got.answers else got)!r}")
    # ---------------- B: decode arbitrary bytes
    def check_decode(buf, desc):
        t0 = time.time()
        kind, got = _decode(buf)
        dt = time.time() - t0
        b.case(("B", desc if isinstance(desc, (str, tuple)) else repr(desc), buf[:64]), nontrivial=kind == "msg")
        inp = {"desc": desc, "bytes": buf[:80].hex() + ("..." if len(buf) > 80 else ""), "len": len(buf)}
        # class of the INPUT (never of the outcome), from the independent reference reader: recorded findings are per class
        try:
            info = dnsref.parse_message(buf, exact=False)[1]
        except dnsref.RefError:
            info = set()
        if dt > 2.0:
            b.fail("c25.decode_terminates_quickly", inp, f"{dt:.1f}s")
        if kind == "other":
            cls = ".label_contains_xn--" if (b"xn--" in buf) else ".pointer_chain>=900" if (desc[0] == "pointer_chain" and desc[1] >= 900) else ""
            b.fail("c25.decode_total" + cls, inp, f"raised {type(got).__name__}: {str(got)[:120]}")
            return
        if kind != "msg":
            return
        cls = ".dot_in_label" if "dot_in_label" in info else ".labels_then_pointer_to_root" if "labels_then_pointer_to_root" in info else ""
        try:
            again = got.packed
        except BaseException as e:  # noqa: B036
            b.fail("c25.decoded_message_reencodes" + cls, inp, f"packed raised {type(e).__name__}: {str(e)[:120]}; names={[q.name for q in got.questions] + [r.name for r in got.answers]}")
            return
        k2, got2 = _decode(again)
        if k2 != "msg" or got2 != got:
            cls2 = ".rdata_has_byte>=0xc0_in_type_listed_as_compressible" if any(t in listed and any(x >= 0xC0 for x in r.data) for r in got.answers + got.authorities + got.additionals for t in [r.type]) else cls
            b.fail("c25.reencoded_decodes_to_same_message" + cls2, inp, f"first {got!r} second {got2!r}")

    tails_alpha = [0x00, 0x01, 0x02, 0x03, 0x0c, 0x3f, 0x40, 0x61, 0x2e, 0xc0, 0xff]
    maxlen = 3 if quick else 4
    tails = [bytes(t) for n in range(0, maxlen + 1) for t in itertools.product(tails_alpha, repeat=n)]
    rnd.shuffle(tails)
    for t in tails:
        check_decode(_hdr(q=1) + t + b"\x00\x01\x00\x01", ("q-name-tail", t.hex()))
        check_decode(_hdr(q=1) + t, ("q-raw-tail", t.hex()))
    for t in tails[:700 if quick else 5000]:
        # answer with compressed owner and TXT / MX / A rdata built from the tail
        for typ in (1, 15, 16):
            rd = t
            check_decode(_hdr(q=1, an=1, flags=0x8180) + b"\x03abc\x00\x00\x01\x00\x01" + b"\xc0\x0c" + struct.pack("!HHIH", typ, 1, 60, len(rd)) + rd, ("an-rdata", typ, t.hex()))
    # valid messages: truncations at every cut, trailing bytes
    samples = []
    for n in T2_NAMES[:8]:
        m = _mk(id=9, query=False, q=[dns.Question(n, 1, 1)], an=[dns.ResourceRecord(n, 1, 1, 60, b"\x01\x02\x03\x04"), dns.ResourceRecord.CNAME(n or "x", "target.example")],
                ns=[dns.ResourceRecord("example", 6, 1, 5, b"\x00" * 22)], ar=[dns.ResourceRecord.TXT("t.example", "hello")])
        samples.append(m.packed)
    for s in samples[:4 if quick else 8]:
        for cut in range(len(s)):
            check_decode(s[:cut], ("truncated", cut, len(s)))
        for extra in (b"\x00", b"\xc0\x0c", b"abc"):
            check_decode(s + extra, ("trailing", extra.hex()))
    # labels around the ACE prefix and with dots
    for lab in [b"xn--", b"xn--a", b"xn--0", b"xn--a-", b"xn--mnchen-3ya", b"XN--MNCHEN-3YA", b"xn--bcher-kva", b".", b"a.", b".a", b"a.b", b"a..b", b"\xe4", b"\xc3\xa4", b" ", b"\x00", b"a" * 63, b"xn--" + b"a" * 59]:
        check_decode(_hdr(q=1) + bytes([len(lab)]) + lab + b"\x03com\x00" + b"\x00\x01\x00\x01", ("label", lab.hex()))
        check_decode(_hdr(q=1) + bytes([len(lab)]) + lab + b"\x00" + b"\x00\x01\x00\x01", ("single-label", lab.hex()))
    # label length octets at the boundaries of the three ranges (RFC 1035 §4.1.4: 00xxxxxx label, 11xxxxxx pointer, 01/10 reserved)
    for n in (62, 63, 64, 65, 127, 128, 191):
        check_decode(_hdr(q=1) + bytes([n]) + b"a" * n + b"\x00" + b"\x00\x01\x00\x01", ("label-length", n))
    # pointers: loops, chains, pointer to root, forward pointers, pointer into header
    # rdata of a name-bearing type pointing at a name that decodes but cannot be packed again (label containing '.'):
    # pack() raised ValueError out of DNSMessage.unpack before aebb9788c
    for lab in (b"a.", b".", b".a", b"a.b"):
        q_ = b"\x07example\x03com\x00\x00\x01\x00\x01"
        a1 = bytes([len(lab)]) + lab + b"\x03com\x00" + struct.pack("!HHIH", 16, 1, 60, 1) + b"\x00"
        for typ in (5, 2, 12, 15):
            rd = (b"\x00\x0a" if typ == 15 else b"") + struct.pack("!H", 0xC000 | (12 + len(q_)))
            a2 = b"\xc0\x0c" + struct.pack("!HHIH", typ, 1, 60, len(rd)) + rd
            check_decode(_hdr(q=1, an=2, flags=0x8180) + q_ + a1 + a2, ("rdata-pointer-to-unpackable-name", lab.hex(), typ))
    # RDATA made of many pointers to a long name expands beyond 65535 bytes: the message decoded but could never be packed
    # again (struct.error from the 16-bit RDLENGTH) before 44a6bf1a8; now it is a parse error
    long_q = b"".join(b"\x3d" + b"a" * 61 for _ in range(4)) + b"\x00" + b"\x00\x01\x00\x01"
    for n in (200, 300):
        rd = b"\xc0\x0c" * n
        check_decode(_hdr(q=1, an=1, flags=0x8180) + long_q + b"\xc0\x0c" + struct.pack("!HHIH", 2, 1, 60, len(rd)) + rd, ("rdata-expands-beyond-65535", n))
    check_decode(_hdr(q=1) + b"\xc0\x0c" + b"\x00\x01\x00\x01", ("pointer-loop", "self"))
    check_decode(_hdr(q=1) + b"\xc0\x0e" + b"\xc0\x0c" + b"\x00\x01\x00\x01", ("pointer-loop", "two"))
    check_decode(_hdr(q=1) + b"\x01a\xc0\x0c" + b"\x00\x01\x00\x01", ("pointer-loop", "label-then-self"))
    check_decode(_hdr(q=1) + b"\xc0\x00" + b"\x00\x01\x00\x01", ("pointer", "into-header"))
    check_decode(_hdr(q=1) + b"\xff\xff" + b"\x00\x01\x00\x01", ("pointer", "out-of-range"))
    check_decode(_hdr(q=1, an=1, flags=0x8180) + b"\x00\x00\x02\x00\x01" + b"\x03www\xc0\x0c" + struct.pack("!HHIH", 1, 1, 60, 4) + b"\x01\x02\x03\x04", ("pointer-to-root-after-labels", "www"))
    check_decode(_hdr(q=1, an=1, flags=0x8180) + b"\x00\x00\x02\x00\x01" + b"\xc0\x0c" + struct.pack("!HHIH", 1, 1, 60, 4) + b"\x01\x02\x03\x04", ("pointer-to-root", "bare"))
    for n in ([10, 100, 500, 3000] if quick else [10, 100, 500, 900, 1000, 1500, 3000, 8000]):
        chain = b"".join(struct.pack("!H", 0xC000 | (18 + 2 * (i + 1))) for i in range(n)) + b"\x03end\x00"
        check_decode(_hdr(q=1) + struct.pack("!H", 0xC000 | 18) + b"\x00\x01\x00\x01" + chain if 18 + 2 * n < 16384 else b"", ("pointer_chain", n))
    # ---------------- D: record data with several compression pointers, against an independent reference decompression
    from props.dnsref import header as H_, question as Q_, rr as RR_, ptr as PTR_, wire_name as WN_
    ints5 = struct.pack("!IIIII", 2024010101, 7200, 3600, 1209600, 300)

    def expected_rdata(parts):
        return b"".join(x if k == "bytes" else b"".join(bytes([len(l)]) + l for l in x) + b"\x00" for k, x in parts)

    zones = [("ascii", WN_("example.com")), ("idn", WN_("xn--mnchen-3ya.de")), ("idn2", WN_("xn--bcher-kva.example")), ("root", b"\x00"), ("single", WN_("a")), ("long", WN_("x" * 63 + ".y"))]
    for zname, zw in zones:
        P12 = PTR_(12)
        inner = 12 + zw[0] + 1 if zw != b"\x00" and len(zw) > zw[0] + 2 else 12     # pointer to the parent domain, if there is one
        PIN = PTR_(inner)
        rdatas2 = [(6, P12 + P12 + ints5), (6, P12 + b"\x05admin" + P12 + ints5), (6, b"\x02ns" + P12 + P12 + ints5), (6, PIN + P12 + ints5), (6, P12 + PIN + ints5),
                   (14, P12 + P12), (14, P12 + b"\x01e" + PIN), (17, P12 + P12), (17, b"\x04mbox" + P12 + b"\x03txt" + P12), (26, b"\x00\x0a" + P12 + P12), (26, b"\x00\x0a" + PIN + b"\x01x" + P12)]
        for typ, rd in rdatas2:
            for extra in ([], [RR_(P12, 6, P12 + P12 + ints5)], [RR_(P12, 1, b"\x01\x02\x03\x04")]):
                wire = H_(0x4000, 0x8180, 1, 1 + len(extra)) + Q_(zw, typ) + RR_(P12, typ, rd) + b"".join(extra)
                desc = ("rdata-with-two-pointers", zname, typ, rd.hex(), len(extra))
                check_decode(wire, desc)      # totality + decode(encode(decode(b))) == decode(b)
                try:
                    ref = dnsref.parse_message(wire)[0]
                except dnsref.RefError as e:
                    b.fail("c25.generator_produces_wellformed_messages", {"desc": desc}, str(e))
                    continue
                kind, got = _decode(wire)
                if kind != "msg":
                    b.fail("c25.wellformed_message_decodes", {"desc": desc, "bytes": wire.hex()}, repr(got)[:200])
                    continue
                for i, (rr_ref, rr_got) in enumerate(zip(ref[2][0], got.answers)):
                    exp = expected_rdata(rr_ref[4])
                    if bytes(rr_got.data) != exp:
                        b.fail("c25.rdata_decompression_matches_reference", {"desc": desc, "bytes": wire.hex(), "record": i},
                               f"decoded rdata {bytes(rr_got.data).hex()} expected (every pointer replaced by its packed target, in place) {exp.hex()}")
    # ---------------- C: the T1 model of the idna codec vs the real codec
    labels = ["", "a", "abc", "A", "a-b", "münchen", "bücher", "例え", "x" * 63, "x" * 64, "a b", "_srv"]
    for l in labels:
        b.case(("C.enc", l), nontrivial=True)
        try:
            e = l.encode("idna")
        except UnicodeError:
            continue
        if l == "" and e != b"":
            b.fail("c25.idna_model.empty_encodes_to_empty", {"label": l}, repr(e))
        if l and not (0 < len(e)):
            b.fail("c25.idna_model.nonempty_encodes_nonempty", {"label": l}, repr(e))
    for raw in [bytes(t) for n in range(1, 3) for t in itertools.product(range(0, 256, 5), repeat=n)][: 1500 if quick else 100000]:
        b.case(("C.dec", raw), nontrivial=True)
        try:
            raw.decode("idna")
            st = 0
        except UnicodeDecodeError:
            st = 1
        except UnicodeError:
            st = 2
        if st == 2 and b"xn--" not in raw:
            b.fail("c25.idna_model.plain_unicode_error_only_with_ace_prefix", {"raw": raw.hex()}, "")
    b.exhaustive = False
    return b
