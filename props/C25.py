"""C25 — DNS wire encoding round-trips and decoding is total (RFC 1035 §3.1, §4.1, §4.1.4)."""
from pyvc.api import *

CLAIM = "other"
DN = "mitmproxy.net.dns.domain_names:"
M = "mitmproxy.dns:DNSMessage"


def SE():
    import struct
    return struct.error


def raised_is(out, cls):
    t = out.raised_type()
    return t is not None and issubclass(t, cls)


# ---- the idna codec is library behaviour: uninterpreted in proof mode (axioms in pyvc/libx_dns.py), real natively

def idna_status(vc, b):
    """0 = bytes.decode('idna') succeeds, 1 = UnicodeDecodeError, 2 = plain UnicodeError"""
    if vc.mode == "native":
        try:
            bytes(b).decode("idna")
            return 0
        except UnicodeDecodeError:
            return 1
        except UnicodeError:
            return 2
    from pyvc import libx_dns
    return SInt(libx_dns.idna_dec_status(b.t))


def idna_dec(vc, b):
    if vc.mode == "native":
        return bytes(b).decode("idna")
    from pyvc import libx_dns
    return SStr(libx_dns.idna_dec(b.t))


def idna_enc(vc, s):
    if vc.mode == "native":
        return s.encode("idna")
    from pyvc import libx_dns
    return SBytes(libx_dns.idna_enc(s.t))


def idna_enc_ok(vc, s):
    if vc.mode == "native":
        try:
            s.encode("idna")
            return True
        except UnicodeError:
            return False
    from pyvc import libx_dns
    return SBool(libx_dns.idna_enc_ok(s.t))


def join_dots(parts):
    r = None
    for p in parts:
        r = p if r is None else r + "." + p
    return r if r is not None else ""


def dotfree_label(vc, name):
    """a symbolic string without '.' (natively: taken from the model; the assumption is checked)"""
    l = vc.sym_str(name)
    if vc.mode == "native":
        vc.assume("." not in l)
    else:
        from pyvc import libx_dns
        libx_dns.assume_sep_free(vc, l, ".")
    return l


def raise_(vc, cls, msg="x"):
    if vc.mode == "native":
        raise cls(msg)
    vc.it.raise_(cls, msg)


def ret_(vc, v):
    return v if vc.mode == "native" else lift(v)


def code_or(buf, pos):
    """byte at pos, or -1 outside the buffer (total in both modes)"""
    if is_sym(buf) or is_sym(pos):
        return code_at(buf, pos)
    return buf[pos] if 0 <= pos < len(buf) else -1


def append_(vc, lst, x):
    if vc.mode == "native":
        lst.append(x)
    else:
        lst.items.append(lift(x))


# =============================================================================================
# names: label step, loops over the step, pack, round trip

@scenario("label.unpack", functions=[DN + "_unpack_label_into"])
def s_label(vc):
    """RFC 1035 §3.1: a label is one length octet (0..63) followed by that many octets; 0 terminates the name."""
    buf = vc.sym_bytes("buf")
    off = vc.sym_int("off", lo=0)
    pre = vc.case("labels_before", [0, 1])
    old = [vc.sym_str(f"l{i}") for i in range(pre)]
    labels = vc.list(list(old))
    out = vc.call(DN + "_unpack_label_into", labels, buf, off)
    L = len_(buf)
    if vc.branch(off >= L):
        vc.ensure("truncated.length_octet", raised_is(out, SE()))
        return
    size = code_at(buf, off)
    if vc.branch(size >= 64):
        vc.ensure("oversized_or_pointer.rejected", raised_is(out, SE()))
        return
    if vc.branch(size == 0):
        vc.ensure("root.ok", out.ok)
        if out.ok:
            vc.ensure("root.consumes_one", out.result == 1)
            vc.ensure("root.labels_unchanged", len_(labels) == pre)
        return
    if vc.branch(off + 1 + size > L):
        vc.ensure("truncated.label", raised_is(out, SE()))
        return
    raw = buf[off + 1:off + 1 + size]
    st = idna_status(vc, raw)
    # totality: only a parse error may escape.  Known finding: a plain UnicodeError of the idna codec is not caught.
    vc.ensure_kf("total.only_parse_error", Or(out.ok, raised_is(out, SE())), "KF-C25-1", st == 2)
    if vc.branch(st == 0):
        vc.ensure("label.ok", out.ok)
        if out.ok:
            vc.ensure("label.consumed", out.result == 1 + size)
            vc.ensure("label.appended_once", len_(labels) == pre + 1)
            if len_(labels) == pre + 1:
                vc.ensure("label.text", labels[pre] == idna_dec(vc, raw))
                for i in range(pre):
                    vc.ensure(f"label.frame[{i}]", labels[i] == old[i])
    elif vc.branch(st == 1):
        vc.ensure("undecodable.parse_error", raised_is(out, SE()))
    # progress (termination of the label loops): a successful call consumes >= 1 octet and stays inside the buffer
    if out.ok:
        vc.ensure("progress.ge_1", out.result >= 1)
        vc.ensure("progress.in_buffer", off + out.result <= L)


class StepLog:
    """Summary of _unpack_label_into = its contract proved in `label.unpack` (over-approximated: whether a non-empty
    in-range label decodes is a free boolean; the decoded text is a fresh string). Records every call."""

    def __init__(self):
        self.calls = []

    def __call__(self, vc, labels, buffer, offset):
        i = len(self.calls)
        rec = dict(labels=labels, buffer=buffer, offset=offset, outcome=None, size=None, label=None)
        self.calls.append(rec)
        if vc.branch(Or(offset < 0, offset >= len_(buffer))):
            rec["outcome"] = "raise"
            raise_(vc, SE())
        size = code_at(buffer, offset)
        rec["size"] = size
        if vc.branch(size >= 64):
            rec["outcome"] = "raise"
            raise_(vc, SE())
        if vc.branch(size == 0):
            rec["outcome"] = "end"
            return ret_(vc, 1)
        fails = vc.sym_bool(f"step{i}_fails")
        if vc.branch(Or(fails, offset + 1 + size > len_(buffer))):
            rec["outcome"] = "raise"
            raise_(vc, SE())
        lab = vc.sym_str(f"step{i}_label")
        rec["label"] = lab
        rec["outcome"] = "label"
        append_(vc, labels, lab)
        return ret_(vc, 1 + size)


def check_label_loop(vc, log, out_ok, buf, start, labels_obj=None):
    """Common part of the two name readers: the label reader is called at consecutive offsets on the same buffer and list."""
    pos = start
    labs = []
    for k, c in enumerate(log.calls):
        vc.ensure(f"loop.step{k}.offset_is_consecutive", c["offset"] == pos)
        vc.ensure(f"loop.step{k}.same_buffer_and_list", c["buffer"] is buf and c["labels"] is log.calls[0]["labels"])
        if c["outcome"] == "label":
            labs.append(c["label"])
            pos = pos + 1 + c["size"]
        elif c["outcome"] == "end":
            pos = pos + 1
        if c["outcome"] != "label":
            vc.ensure(f"loop.step{k}.is_last", k == len(log.calls) - 1)
    return pos, labs


@scenario("name.unpack_from.loop", functions=[DN + "unpack_from"], max_unroll=5)
def s_unpack_from(vc):
    """Uncompressed name at an offset (label reader abstracted by its contract): labels are read at consecutive
    offsets until the zero octet, joined with '.', the returned offset is just after the zero octet; a pointer octet or
    any failing label is a parse error. (Loop unrolled: names of <= 4 labels.)"""
    buf = vc.sym_bytes("buf")
    off = vc.sym_int("off", lo=0)
    log = StepLog()
    vc.summary(DN + "_unpack_label_into", log)
    out = vc.call(DN + "unpack_from", buf, off)
    pos, labs = check_label_loop(vc, log, out.ok, buf, off)
    last = log.calls[-1]["outcome"] if log.calls else None
    vc.ensure("total.only_parse_error", Or(out.ok, raised_is(out, SE())))
    if last == "end":
        vc.ensure("wellformed.ok", out.ok)
        if out.ok:
            vc.ensure("wellformed.name", out.result[0] == join_dots(labs))
            vc.ensure("wellformed.end_offset", out.result[1] == pos)
    elif last == "raise":
        vc.ensure("bad_label.parse_error", raised_is(out, SE()))
    else:
        # stopped without reading a terminator: only legitimate if the next octet is missing or a pointer (unsupported here)
        vc.ensure("no_terminator.parse_error", raised_is(out, SE()))
        vc.ensure("no_terminator.justified", Or(pos >= len_(buf), code_or(buf, pos) >= 192))


@scenario("name.unpack", functions=[DN + "unpack"])
def s_unpack(vc):
    """unpack(buffer) accepts exactly a buffer that is one complete name: trailing bytes are a parse error."""
    buf = vc.sym_bytes("buf")
    name = vc.sym_str("name")
    end = vc.sym_int("end")
    fails = vc.sym_bool("inner_fails")

    def inner(v, buffer, offset):
        if v.branch(fails):
            raise_(v, SE())
        return (name, end) if v.mode == "native" else STuple([name, end])

    vc.summary(DN + "unpack_from", inner)
    out = vc.call(DN + "unpack", buf)
    if vc.branch(fails):
        vc.ensure("inner_error.propagates", raised_is(out, SE()))
    elif vc.branch(end == len_(buf)):
        vc.ensure("exact.ok", out.ok)
        if out.ok:
            vc.ensure("exact.name", out.result == name)
    else:
        vc.ensure("trailing_or_short.parse_error", raised_is(out, SE()))


def mk_name(vc, k):
    ls = [dotfree_label(vc, f"l{i}") for i in range(k)]
    return ls, join_dots(ls)


@scenario("name.pack", functions=[DN + "pack"])
def s_pack(vc):
    """RFC 1035 §3.1: a name is the sequence of its labels, each as length octet + octets, ended by a zero octet;
    the empty name is the root (a single zero octet). Empty labels are refused. (All names with <= 3 dots.)"""
    k = vc.case("labels", [0, 1, 2, 3, 4])
    ls, name = mk_name(vc, k)
    out = vc.call(DN + "pack", name)
    if vc.branch(len_(name) == 0):
        vc.ensure("root.ok", out.ok)
        if out.ok:
            vc.ensure("root.bytes", out.result == b"\x00")
        return
    exp = b""
    for p in ls:
        if vc.branch(Not(idna_enc_ok(vc, p))):
            vc.ensure("unencodable.refused", Or(raised_is(out, UnicodeError), raised_is(out, ValueError)))
            return
        e = idna_enc(vc, p)
        if vc.branch(len_(e) == 0):
            vc.ensure("empty_label.value_error", raised_is(out, ValueError))
            return
        if vc.branch(len_(e) >= 64):
            vc.ensure("long_label.refused", Or(raised_is(out, UnicodeError), raised_is(out, ValueError)))
            return
        exp = exp + from_codes([len_(e)]) + e
    vc.ensure("wellformed.ok", out.ok)
    if out.ok:
        vc.ensure("wellformed.bytes", out.result == exp + b"\x00")
        vc.ensure("wellformed.is_bytes", isa(out.result, bytes))


@scenario("label.roundtrip", functions=[DN + "_unpack_label_into"])
def s_label_roundtrip(vc):
    """Reading back an encoded label: for an IDNA-canonical label l (e = enc_idna(l), 0 < |e| < 64, dec_idna(e) == l) the
    bytes `|e| e` placed anywhere in a buffer are read as exactly l and consumed exactly. With `name.pack` (a packed name is
    the concatenation of `|e_i| e_i` and a zero octet) and `name.unpack_from.loop` (labels are read at consecutive offsets
    until the zero octet) this gives unpack(pack(n)) == n by induction on the number of labels."""
    l = vc.sym_str("l")
    e = idna_enc(vc, l)
    vc.assume(idna_enc_ok(vc, l))
    vc.assume(And(len_(e) > 0, len_(e) < 64))
    vc.assume(idna_status(vc, e) == 0)
    vc.assume(idna_dec(vc, e) == l)
    pre = vc.sym_bytes("pre")
    rest = vc.sym_bytes("rest")
    buf = pre + from_codes([len_(e) % 256]) + e + rest
    labels = vc.list([])
    out = vc.call(DN + "_unpack_label_into", labels, buf, len_(pre))
    vc.ensure("ok", out.ok)
    if out.ok:
        vc.ensure("consumed_exactly", out.result == 1 + len_(e))
        vc.ensure("one_label", len_(labels) == 1)
        if len_(labels) == 1:
            vc.ensure("same_label", labels[0] == l)


@scenario("name.roundtrip.root", functions=[DN + "pack", DN + "unpack", DN + "unpack_from", DN + "_unpack_label_into"])
def s_root_roundtrip(vc):
    o1 = vc.call(DN + "pack", "")
    vc.ensure("pack.ok", o1.ok and vc.eq(o1.result, b"\x00"))
    o2 = vc.call(DN + "unpack", b"\x00")
    vc.ensure("unpack.ok", o2.ok and vc.eq(o2.result, ""))


@scenario("name.reencode.label", functions=[DN + "pack"])
def s_reencode_label(vc):
    """A decoded message must re-encode to bytes that decode to the same message: the text t of ONE wire label, used as a
    (single-label) name, must be packed as one label again. Known finding: text containing '.' is split into several labels
    (or refused with ValueError 'empty labels' for '.', 'a.', '.a')."""
    t = vc.sym_str("t")
    vc.assume(len_(t) > 0)
    K = vc.branch(contains(t, "."))
    if vc.mode == "sym":
        if K:
            vc.assume(False)  # inside the recorded class: not explored symbolically (witness replayed natively)
        from pyvc import libx_dns
        libx_dns.assume_sep_free(vc, t, ".")
    out = vc.call(DN + "pack", t)
    if vc.branch(Not(idna_enc_ok(vc, t))):
        return
    e = idna_enc(vc, t)
    if vc.branch(Or(len_(e) == 0, len_(e) >= 64)):
        return
    vc.ensure_kf("single_label.accepted", out.ok, "KF-C25-2", K)
    if out.ok:
        vc.ensure_kf("single_label.bytes", out.result == from_codes([len_(e)]) + e + b"\x00", "KF-C25-2", K)


# ---- compressed names (RFC 1035 §4.1.4)

def call_top_real(vc, ref, rec_summary, *args):
    """vc.call(ref, *args) where *recursive* calls of ref are replaced by rec_summary (the callee's contract) but the
    outermost activation runs the real code."""
    from pyvc.vc import resolve_ref
    state = {"depth": 0}
    orig = resolve_ref(ref)[2] if vc.mode == "native" else None

    def wrapper(v, *a, **k):
        if state["depth"] > 0:
            return rec_summary(v, *a, **k)
        state["depth"] = 1
        try:
            if v.mode == "native":
                return orig(*a, **k)
            from pyvc import interp as I
            f = v._ifunc(ref)
            I.SRC.note_used(f.module, f.qualname, f.node)
            return v.it.run_body(f, v.it.bind_args(f, list(a), k), None, None)
        finally:
            state["depth"] = 0

    vc.summary(ref, wrapper)
    return vc.call(ref, *args)


def dict_items(vc, d):
    return list(d.items) if vc.mode == "sym" else list(d.items())


def dict_lookup(vc, d, key):
    """(found, value) with found a bool/SBool; value of the first matching entry (contract-side, no forking)"""
    found, val = False, None
    for k, v in dict_items(vc, d):
        if vc.branch(k == key):
            return True, v
    return False, None


@scenario("name.compressed.activation", functions=[DN + "unpack_from_with_compression"], max_unroll=4)
def s_compressed(vc):
    """One activation of the compressed-name reader, label reader and recursive call abstracted by their contracts.
    RFC 1035 §4.1.4: a name is labels ending in a zero octet, a pointer, or labels ending in a pointer (2 octets, top bits
    11, 14-bit offset). Termination on pointer loops: an offset that is being read is marked in the cache before any
    recursive call, at most one recursive call is made per activation, and re-entering a marked offset is a parse error
    without further recursion — so the recursion depth is bounded by the number of distinct offsets (<= 2^14 + 1)."""
    buf = vc.sym_bytes("buf")
    off = vc.sym_int("off", lo=0)
    shape = vc.case("cache", ["empty", "other_entry", "in_progress", "done"])
    k0 = vc.sym_int("k0", lo=0)
    memo_name, memo_len = vc.sym_str("memo_name"), vc.sym_int("memo_len")
    memo = (memo_name, memo_len) if vc.mode == "native" else STuple([memo_name, memo_len])
    if shape == "empty":
        entries = []
    elif shape == "other_entry":
        vc.assume(k0 != off)
        entries = [(k0, None)]
    elif shape == "in_progress":
        entries = [(off, None)]
    else:
        entries = [(off, memo)]
    cache = vc.dict(entries)
    log = StepLog()
    vc.summary(DN + "_unpack_label_into", log)
    rec_calls = []
    rec_fails = vc.sym_bool("rec_fails")
    rec_name, rec_len = vc.sym_str("rec_name"), vc.sym_int("rec_len", lo=0)

    def rec(v, buffer, target, c):
        marked = dict_lookup(v, c, off)
        rec_calls.append(dict(buffer=buffer, target=target, cache=c, marked=marked))
        if v.branch(rec_fails):
            raise_(v, SE())
        return (rec_name, rec_len) if v.mode == "native" else STuple([rec_name, rec_len])

    out = call_top_real(vc, DN + "unpack_from_with_compression", rec, buf, off, cache)
    vc.ensure("total.only_parse_error", Or(out.ok, raised_is(out, SE())))
    if shape == "in_progress":
        vc.ensure("loop.detected_as_parse_error", raised_is(out, SE()))
        vc.ensure("loop.no_further_recursion", len(rec_calls) == 0 and len(log.calls) == 0)
        return
    if shape == "done":
        vc.ensure("memo.ok", out.ok)
        if out.ok:
            vc.ensure("memo.result", And(out.result[0] == memo_name, out.result[1] == memo_len))
        vc.ensure("memo.no_reading", len(rec_calls) == 0 and len(log.calls) == 0)
        return
    pos, labs = check_label_loop(vc, log, out.ok, buf, off)
    last = log.calls[-1]["outcome"] if log.calls else None
    vc.ensure("recursion.at_most_once", len(rec_calls) <= 1)
    for r in rec_calls:
        found, val = r["marked"]
        vc.ensure("recursion.offset_marked_in_progress_before", found is True and isnone(val))
        vc.ensure("recursion.same_buffer_and_cache", r["buffer"] is buf and r["cache"] is cache)
        vc.ensure("recursion.target_in_14_bits", And(r["target"] >= 0, r["target"] < 16384))
    if last == "end":
        vc.ensure("plain.no_recursion", len(rec_calls) == 0)
        vc.ensure("plain.ok", out.ok)
        if out.ok:
            vc.ensure("plain.name", out.result[0] == join_dots(labs))
            vc.ensure("plain.length", out.result[1] == pos - off)
    elif last == "raise":
        vc.ensure("bad_label.parse_error", raised_is(out, SE()))
        vc.ensure("bad_label.no_recursion", len(rec_calls) == 0)
    else:
        # the label run stopped at pos without a terminator: must be a complete pointer, else a parse error
        L = len_(buf)
        if vc.branch(And(pos + 1 < L, code_or(buf, pos) >= 192)):
            vc.ensure("pointer.followed_once", len(rec_calls) == 1)
            if len(rec_calls) == 1:
                vc.ensure("pointer.target", rec_calls[0]["target"] == (code_or(buf, pos) - 192) * 256 + code_or(buf, pos + 1))
                if vc.branch(rec_fails):
                    vc.ensure("pointer.error_propagates", raised_is(out, SE()))
                else:
                    vc.ensure("pointer.ok", out.ok)
                    if out.ok:
                        # labels read here followed by the labels of the target name; an empty target name (root) adds none
                        exp = If(len_(rec_name) == 0, join_dots(labs), join_dots(labs + [rec_name])) if labs else rec_name
                        vc.ensure_kf("pointer.name", out.result[0] == exp, "KF-C25-3", And(len_(rec_name) == 0, len(labs) > 0))
                        vc.ensure("pointer.length", out.result[1] == pos + 2 - off)
        else:
            vc.ensure("truncated_or_bad.parse_error", raised_is(out, SE()))
            vc.ensure("truncated_or_bad.no_recursion", len(rec_calls) == 0)
    if out.ok:
        found, val = dict_lookup(vc, cache, off)
        vc.ensure("memo.stored", found is True and not isnone(val) and vc.eq(val, out.result))
        if shape == "other_entry":
            f2, v2 = dict_lookup(vc, cache, k0)
            vc.ensure("memo.frame", f2 is True and isnone(v2))
