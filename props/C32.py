"""C32 — message text round-trips for every content type.

Codec behaviour (codecs.*, charset sniffing with `re`) is out of reach of contracts: the property is checked by bounded
enumeration on the real code (T2).  T1 covers only the control flow of Message.set_text / get_text relative to scripted
library outcomes (which encoding was inferred, whether encode/decode raised).
"""
from pyvc.api import *
from props.prelude import *
from props.httpstream import mk_response, mk_headers

CLAIM = "other"
EXPLANATION = ("T1 proves only the control flow of Message.set_text / get_text (which codec is asked for, the UTF-8 fallback with charset update, strict vs non-strict "
               "reading) relative to scripted outcomes of infer_content_encoding / encoding.encode / encoding.decode; the statement itself (text round-trip for every "
               "content type and charset, charset update when unrepresentable, in-body declarations, BOMs) depends on codec and regex behaviour and is checked by bounded "
               "enumeration on the real code (T2); see DESIGN.md §6 C32")
ASSUMPTIONS = [
    "T1: infer_content_encoding, encoding.encode / decode, Message.set_content / get_content are scripted (recorded arguments, chosen outcome); parse_content_type / assemble_content_type run on concrete header values",
    "T2 is the evidence for the statement: strings over a 15-character alphabet (ASCII, markup, Latin-1 incl. the characters whose Latin-1 bytes look like BOMs, CJK, astral, U+FEFF, lone surrogates, NUL, newline) up to length 2 (quick) / 3 (thorough), 7 content types x 8 charsets, bodies with in-body declarations",
]
MSG = "mitmproxy.http:Message"
CT_CASES = {"absent": None, "html_latin1": b"text/html; charset=latin-1", "unparsable": b"garbage", "param_name_mixed_case": b"text/plain; Charset=latin-1"}


def hfields(vc, msg):
    h = msg.data.headers
    if vc.mode == "sym":
        return [[x.items[0].concrete(), x.items[1].concrete()] for x in h.fields["fields"].items]
    return [list(x) for x in h.fields]


def enc_utf8_se(vc, text):
    if vc.mode == "native" or not is_sym(text):
        return text.encode("utf8", "surrogateescape")
    import z3
    from pyvc import lib
    return SBytes(lib.uf("encode_utf-8_surrogateescape", z3.StringSort(), z3.StringSort())(text.t))


def dec_utf8_se(vc, content):
    if vc.mode == "native" or not is_sym(content):
        return content.decode("utf8", "surrogateescape")
    import z3
    from pyvc import lib
    return SStr(lib.uf("decode_utf-8_surrogateescape", z3.StringSort(), z3.StringSort())(content.t))


@scenario("set_text.control_flow", functions=[MSG + ".set_text"], candidates=[{"text": "\udc80x"}, {"text": "a"}])
def s_set_text(vc):
    ct = vc.case("content_type", list(CT_CASES))
    encode_fails = vc.case("encode_raises_value_error", [False, True])
    fields = [(b"X-First", b"1")] + ([(b"Content-Type", CT_CASES[ct])] if CT_CASES[ct] else [])
    msg = mk_response(vc, headers=mk_headers(vc, fields), content=b"old")
    text = vc.sym_str("text")
    log = []

    def infer(v, content_type, content=b""):
        log.append(("infer", content_type, content))
        return v.lift("x-inferred")

    def encode(v, value, e, errors="strict"):
        log.append(("encode", value, e))
        if encode_fails:
            v.raise_(ValueError, "cannot encode")
        return v.lift(b"<encoded>")

    def set_content(v, self_, value):
        log.append(("set_content", value))
        return NONE if v.mode == "sym" else None

    vc.summary("mitmproxy.net.http.headers:infer_content_encoding", infer)
    vc.summary("mitmproxy.net.encoding:encode", encode)
    vc.summary(MSG + ".set_content", set_content)
    out = vc.call(MSG + ".set_text", msg, text)
    vc.ensure("no_exception", out.ok)
    if not out.ok:
        return
    want_ct = (CT_CASES[ct] or b"").decode()
    infers = [x for x in log if x[0] == "infer"]
    vc.ensure("encoding_inferred_from_header_only", len(infers) == 1 and vc.eq(infers[0][1], want_ct) is not False and vc.eq(infers[0][2], b"") is not False)
    encs = [x for x in log if x[0] == "encode"]
    vc.ensure("encoded_once_with_inferred_codec", And(len(encs) == 1, vc.eq(encs[0][1], text) if encs else False, vc.eq(encs[0][2], "x-inferred") if encs else False))
    sets = [x for x in log if x[0] == "set_content"]
    vc.ensure("content_assigned_once", len(sets) == 1)
    post = hfields(vc, msg)
    if not encode_fails:
        vc.ensure("ok.content_is_the_encoded_text", vc.eq(sets[0][1], b"<encoded>") if sets else False)
        vc.ensure("ok.headers_untouched", post == [list(f) for f in fields])
    else:
        # not representable: UTF-8 with surrogateescape, and the declared charset says so
        vc.ensure("fallback.content_is_utf8_surrogateescape", vc.eq(sets[0][1], enc_utf8_se(vc, text)) if sets else False)
        want = {"absent": b"text/plain; charset=utf-8", "html_latin1": b"text/html; charset=utf-8", "unparsable": b"text/plain; charset=utf-8"}.get(ct)
        cts = [f for f in post if f[0].lower() == b"content-type"]
        vc.ensure("fallback.charset_declared_utf8_type_kept", len(cts) == 1 and (want is None or cts[0][1] == want))
        # the declaration must be one the reader honours: the charset parameter as the (real) header parser reports it
        from mitmproxy.net.http import headers as _H
        parsed = _H.parse_content_type(cts[0][1].decode()) if len(cts) == 1 else None
        vc.ensure("fallback.reader_finds_charset_utf8", parsed is not None and parsed[2].get("charset") == "utf-8")
        vc.ensure("fallback.media_type_kept", parsed is not None and (parsed[0], parsed[1]) == {"absent": ("text", "plain"), "html_latin1": ("text", "html"), "unparsable": ("text", "plain"), "param_name_mixed_case": ("text", "plain")}[ct])
        vc.ensure("fallback.other_headers_untouched", [f for f in post if f[0].lower() != b"content-type"] == [[b"X-First", b"1"]])


@scenario("set_text.none", functions=[MSG + ".set_text", MSG + ".get_text"])
def s_text_none(vc):
    msg = mk_response(vc, headers=mk_headers(vc, [(b"Content-Type", b"text/plain")]), content=b"old")
    out = vc.call(MSG + ".set_text", msg, None)
    vc.ensure("none.content_none", out.ok and isnone(msg.data.content))
    out2 = vc.call(MSG + ".get_text", msg)
    vc.ensure("none.reads_back_none", out2.ok and isnone(out2.result))


@scenario("get_text.control_flow", functions=[MSG + ".get_text"])
def s_get_text(vc):
    ct = vc.case("content_type", list(CT_CASES))
    strict = vc.case("strict", [True, False])
    decode_fails = vc.case("decode_raises_value_error", [False, True])
    fields = [(b"Content-Type", CT_CASES[ct])] if CT_CASES[ct] else []
    msg = mk_response(vc, headers=mk_headers(vc, fields), content=b"raw")
    content = vc.sym_bytes("content")
    log = []

    def infer(v, content_type, content_=b""):
        log.append(("infer", content_type, content_))
        return v.lift("x-inferred")

    def decode(v, value, e, errors="strict"):
        log.append(("decode", value, e))
        if decode_fails:
            v.raise_(ValueError, "cannot decode")
        return v.lift("<decoded>")

    def get_content(v, self_, strict_=True):
        log.append(("get_content", strict_))
        return content

    vc.summary("mitmproxy.net.http.headers:infer_content_encoding", infer)
    vc.summary("mitmproxy.net.encoding:decode", decode)
    vc.summary(MSG + ".get_content", get_content)
    out = vc.call(MSG + ".get_text", msg, strict)
    gets = [x for x in log if x[0] == "get_content"]
    vc.ensure("content_read_once_with_same_strictness", len(gets) == 1 and vc.eq(gets[0][1], strict) is not False)
    infers = [x for x in log if x[0] == "infer"]
    want_ct = (CT_CASES[ct] or b"").decode()
    vc.ensure("encoding_inferred_from_header_and_body", And(len(infers) == 1, vc.eq(infers[0][1], want_ct) if infers else False, vc.eq(infers[0][2], content) if infers else False))
    decs = [x for x in log if x[0] == "decode"]
    vc.ensure("decoded_once_with_inferred_codec", And(len(decs) == 1, vc.eq(decs[0][1], content) if decs else False, vc.eq(decs[0][2], "x-inferred") if decs else False))
    if not decode_fails:
        vc.ensure("ok.returns_decoded_text", out.ok and vc.eq(out.result, "<decoded>") is not False)
    elif strict:
        vc.ensure("strict.value_error", (not out.ok) and issubclass(out.raised_type(), ValueError))
    else:
        vc.ensure("lenient.surrogate_escaped_utf8", And(out.ok, vc.eq(out.result, dec_utf8_se(vc, content)) if out.ok else False))


# =============================================================================================
# T2 (bounded): the statement itself, on the real code

ALPHA = ["a", "<", "é", "ÿ", "þ", "ï", "»", "¿", "日", "😀", "﻿", "\udc80", "\udcff", "\x00", "\n"]
TYPES = [None, "text/plain", "text/html", "application/xml", "text/css", "application/json", "application/javascript"]
CHARSETS = [None, "latin-1", "utf-8", "utf-16", "utf-32", "gb2312", "ascii", "bogus"]
DECLS = {
    "text/html": ['<meta charset="latin-1">', "<meta charset=utf-8>", '<meta charset="utf-16">', '<META http-equiv="Content-Type" content="text/html; charset=gb2312">'],
    "application/xml": ['<?xml version="1.0" encoding="latin-1"?>', '<?xml version="1.0" encoding="utf-8"?>'],
    "text/css": ['@charset "latin-1";', '@charset "utf-8";'],
}
BOMS = (b"\x00\x00\xfe\xff", b"\xff\xfe\x00\x00", b"\xfe\xff", b"\xff\xfe", b"\xef\xbb\xbf")


def _has_surrogate(s):
    return any(0xD800 <= ord(c) <= 0xDFFF for c in s)


def bounded(tier, seed):
    import itertools

    from mitmproxy.net.http import headers as H
    from mitmproxy.test import tutils

    b = Bounded()
    maxlen = 2 if tier == "quick" else 3
    strs = [""] + ["".join(t) for n in range(1, maxlen + 1) for t in itertools.product(ALPHA, repeat=n)]
    b.rule = (f"message.text = s; message.text == s for every string of length <= {maxlen} over a 15-character alphabet (ASCII, markup, Latin-1 incl. BOM look-alikes, CJK, "
              "astral, U+FEFF, lone surrogates = surrogate-escaped bytes, NUL, newline) x content types {none, text/plain, html, xml, css, json, javascript} x charsets "
              "{absent, latin-1, utf-8, utf-16, utf-32, gb2312, ascii, bogus}, plus bodies that declare a charset in-body (<meta>, <?xml?>, @charset) followed by "
              "non-ASCII text; also: charset parameter becomes utf-8 exactly when s is not representable in the declared charset; infer_content_encoding never raises; "
              "distinct = (content type, charset, s); non-trivial = s contains a non-ASCII character")
    b.bound = f"strings of length <= {maxlen} over 15 characters; declarations x 6 tails"
    b.exhaustive = True

    def representable(s, cs):
        if cs is None:
            return None
        try:
            s.encode("gb18030" if cs.lower() == "gb2312" else cs)      # mitmproxy reads and writes gb2312 through its superset GB 18030
            return True
        except LookupError:
            return False
        except UnicodeError:
            return False

    hdrs = []
    for ct in TYPES:
        for cs in CHARSETS:
            if ct is None and cs is not None:
                continue
            hdrs.append((None if ct is None else (ct if cs is None else f"{ct}; charset={cs}"), ct, cs))
    # parameter names are case-insensitive (RFC 9110 5.6.6); extra parameters; other media types without a utf-8 default
    hdrs += [("text/plain; Charset=latin-1", "text/plain", "latin-1"), ("text/plain; CHARSET=ascii", "text/plain", "ascii"),
             ("text/csv; Charset=latin-1", "text/csv", "latin-1"), ("text/plain; format=flowed; charset=latin-1", "text/plain", "latin-1"),
             ("application/x-www-form-urlencoded; Charset=ascii", "application/x-www-form-urlencoded", "ascii"),
             ("application/xhtml+xml; charset=latin-1", "text/html", "latin-1"),
             # XHTML served as XML, no charset parameter: the HTML rule applies (an XML declaration in the text is not a
             # charset declaration for the reader: utf8 unless a <meta> says otherwise)
             ("application/xhtml+xml", "xhtml", None), ("application/xhtml+xml; version=1", "xhtml", None)]
    if True:
        for h, ct, cs in hdrs:
            tails = ["", "a", "é", "日", "😀", "ÿþ"]
            # (text, has in-body declaration, declaration is one the reader honours for this type = KF-C32-5 class)
            bodies = [(s, False, False) for s in strs] + [(d + t, True, True) for d in DECLS.get(ct, []) for t in tails]
            if ct == "xhtml":
                bodies += [(d + t, True, True) for d in DECLS["text/html"] for t in tails]
                bodies += [(d + "<html>" + t, True, False) for d in DECLS["application/xml"] for t in tails]
            for s, declared, honoured in bodies:
                m = tutils.tresp()
                m.headers.pop("content-type", None)
                if h:
                    m.headers["content-type"] = h
                inp = {"content_type": h, "text": s.encode("utf-8", "surrogatepass").hex(), "repr": ascii(s)}
                b.case((h, s), nontrivial=any(ord(c) > 127 for c in s))
                try:
                    m.text = s
                except Exception as e:
                    b.fail("text.set_total", inp, repr(e))
                    continue
                raw = m.raw_content
                after = m.headers.get("content-type")
                rep = representable(s, cs)
                if rep is False and "charset=utf-8" not in (after or ""):
                    odd_case = h is not None and "charset=" in h.lower() and "charset=" not in h
                    b.fail("text.charset_parameter_name_matched_case_sensitively[KF-C32-6]" if odd_case else "text.charset_updated_when_unrepresentable", inp, f"content-type {after!r}")
                if rep is True and after != h:
                    b.fail("text.header_untouched_when_representable", inp, f"content-type {after!r}")
                try:
                    g = m.text
                    err = None
                except Exception as e:
                    g, err = None, e
                if err is None and g == s:
                    continue
                # classify the deviation (each class of the recorded findings has its own check name)
                if err is not None and _has_surrogate(s):
                    name = "text.surrogate_escaped_text_unreadable_strict[KF-C32-3]"
                elif err is None and s.startswith("﻿") and g == s[1:]:
                    name = "text.leading_bom_character_lost[KF-C32-1]"
                elif err is None and g == "﻿" + s and (cs or "").lower() in ("utf-16", "utf-32"):
                    name = "text.bom_codec_reads_back_extra_bom[KF-C32-2]"
                elif declared and honoured and cs is None:
                    name = "text.in_body_declaration_overrides_codec_used_for_writing[KF-C32-5]"
                elif declared:
                    name = "text.header_charset_wins_over_in_body_declaration" if cs is not None else "text.in_body_text_is_no_declaration_for_this_type"
                elif raw is not None and raw.startswith(BOMS) and not s.startswith("﻿"):
                    name = "text.body_bytes_look_like_a_bom[KF-C32-4]"
                else:
                    name = "text.round_trip"
                b.fail(name, inp, f"read back {ascii(g)} ({type(err).__name__ if err else 'no error'}); raw {raw[:24]!r}; content-type {after!r}")
                if err is not None:
                    # the lenient reader must still work
                    try:
                        m.get_text(strict=False)
                    except Exception as e:
                        b.fail("text.lenient_read_total", inp, repr(e))
    # infer_content_encoding is total
    for ct in ["", "text/html", "text/html; charset=", "text/css", "application/xml", "x", "text/plain; charset=\udc80", ";;;", "a/b; =; charset"]:
        for body in [b"", b"\xff\xfe", b"\xef\xbb\xbf", b"<meta charset=''>", b"<meta charset=\xff>", b"<?xml encoding=''?>", b'@charset "";', b'@charset "\xff";', b"<meta charset=" + b"x" * 50]:
            b.case(("infer", ct, body))
            try:
                r = H.infer_content_encoding(ct, body)
                if not isinstance(r, str) or not r:
                    b.fail("infer.returns_codec_name", {"content_type": ascii(ct), "body": body.hex()}, repr(r))
            except Exception as e:
                b.fail("infer.total", {"content_type": ascii(ct), "body": body.hex()}, repr(e))
    return b


# ---------------------------------------------------------------------------------------------
# T1: which in-body rule infer_content_encoding applies (content types naming both "html" and "xml" are HTML first)

INFER = "mitmproxy.net.http.headers:infer_content_encoding"
XML_DECL = b'<?xml version="1.0" encoding="latin-1"?>'
META = b'<meta charset="koi8-r">'
INFER_TABLE = [
    # (content type, body, codec the reader must choose)
    ("application/xhtml+xml", XML_DECL + b"<html/>", "utf8"),            # XHTML: the HTML rule decides (no <meta> => utf8)
    ("application/xhtml+xml", XML_DECL + b"<html>" + META, "koi8-r"),
    ("application/xhtml+xml", b"<html/>", "utf8"),
    ("text/html", XML_DECL + b"<html/>", "utf8"),
    ("text/html", META, "koi8-r"),
    ("application/xml", XML_DECL + b"<a/>", "latin-1"),
    ("application/xml", b"<a>" + META + b"</a>", "utf8"),
    ("application/xhtml+xml; charset=ascii", XML_DECL + META, "ascii"),   # a declared charset wins over both
    ("text/css", b'@charset "latin-1";a{}', "latin-1"),
    ("application/json", XML_DECL, "utf8"),
]


class ConcreteMatch:
    """re.Match of a search on concrete arguments (evaluated by the real `re`)"""

    def group(self, i=0):
        return self.groups[i]


def install_concrete_re(vc):
    """proof mode: re.search / re.match on all-concrete arguments are evaluated by the real library (exact)"""
    if vc.mode != "sym":
        return
    import re

    def mk(fn):
        def model(v, pattern, string, flags=0):
            p, s_, f = pattern.concrete(), string.concrete(), (flags.concrete() if hasattr(flags, "concrete") else int(flags))
            if p is None or s_ is None or f is None:
                raise Unsupported("re on symbolic arguments in this scenario")
            m = fn(p, s_, f)
            if m is None:
                return NONE
            return v.new("props.C32:ConcreteMatch", groups=tuple([m.group(0)] + list(m.groups())))
        return model

    vc.summary("re:search", mk(re.search))
    vc.summary("re:match", mk(re.match))


@scenario("infer_content_encoding.in_body_rule", functions=[INFER, "mitmproxy.net.http.headers:parse_content_type"])
def s_infer(vc):
    i = vc.case("row", list(range(len(INFER_TABLE))))
    ct, body, want = INFER_TABLE[i]
    install_concrete_re(vc)
    out = vc.call(INFER, ct, body)
    vc.ensure("no_exception", out.ok)
    if out.ok:
        r = out.result.concrete() if hasattr(out.result, "concrete") else out.result
        vc.ensure("codec_chosen_by_the_rule_for_this_type", r == want)
