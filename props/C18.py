"""C18 — ALPN negotiation with the client is consistent with offers and upstream."""
from pyvc.api import *

CLAIM = "proof"
F = "mitmproxy.addons.tlsconfig:alpn_select_callback"
HTTP1 = (b"http/1.1", b"http/1.0", b"http/0.9")
HTTP_ALL = (b"h3", b"h2") + HTTP1


def _no():
    from OpenSSL import SSL
    return SSL.NO_OVERLAPPING_PROTOCOLS


def in_const(x, consts):
    return Or(*[x == c for c in consts])


def inv_no_earlier_http(it, env, idx):
    """loop invariant of `for alpn in options`: no option before position idx is in http_alpns"""
    import z3
    from pyvc.core import _b
    options, http_alpns = env["options"], env["http_alpns"]
    k = z3.Int("k$inv")
    return SBool(z3.ForAll([k], z3.Implies(z3.And(k >= 0, k < idx.t), z3.Not(_b(contains(http_alpns, options[SInt(k)]))))))


@scenario("alpn_select_callback", functions=[F])
def s_alpn(vc):
    options = vc.sym_seq("options", "bytes")
    client_alpn = vc.opt("client_alpn", vc.sym_bytes("client_alpn_v"))
    server_alpn = vc.opt("server_alpn", vc.sym_bytes("server_alpn_v"))
    http2 = vc.sym_bool("http2")
    app = vc.dict([("client_alpn", client_alpn), ("server_alpn", server_alpn), ("http2", http2)])
    conn = vc.new("OpenSSL.SSL:Connection", _app_data=app)
    vc.invariant(F, 1, inv_no_earlier_http)
    out = vc.call(F, conn, options)
    vc.ensure("no_exception", out.ok)
    if not out.ok:
        return
    r = out.result
    none = is_const(r, _no())
    c_none, s_none = isnone(client_alpn), isnone(server_alpn)
    cv, sv = (client_alpn.alts[1][1], server_alpn.alts[1][1]) if vc.mode == "sym" else (client_alpn, server_alpn)
    if none:
        # "none" is always allowed by clauses 1-4; clause 5 (client preference) says none only if nothing acceptable
        vc.ensure("none.only_if_no_http_offer",
                  Implies(And(c_none, Or(s_none, And(Not(s_none), sv != b"", Not(contains(options, sv))))),
                          _no_http_option(vc, options, http2)))
        return
    vc.ensure("offered", contains(options, r))                                        # clause 1
    vc.ensure("client_alpn.forced", Implies(Not(c_none), r == cv))                    # secure-web-proxy / forced ALPN
    # clause 2 (a forced client ALPN — clause 4 / addon override — takes precedence, so it is stated for client_alpn None)
    K = And(Not(s_none), sv != b"", Not(contains(options, sv)))
    vc.ensure_kf("upstream_known", Implies(And(c_none, Not(s_none)), r == sv), "KF-C18-1", K)
    vc.ensure("no_h2_when_disabled", Implies(And(Not(http2), c_none, Or(s_none, sv != b"h2")), r != b"h2"))   # clause 3
    vc.ensure("http_only_by_default", Implies(And(c_none, Or(s_none, r != sv)), in_const(r, HTTP_ALL)))


from props.prelude import *


class TlsStub:
    """pyOpenSSL SSL.Connection stand-in for a completed handshake (trusted library contract: do_handshake returns,
    get_alpn_proto_negotiated returns the negotiated protocol, b'' if none was negotiated)."""

    def bio_write(self, data):
        return None

    def do_handshake(self):
        return None

    def get_peer_cert_chain(self):
        return None

    def get_peer_certificate(self):
        return None

    def get_alpn_proto_negotiated(self):
        return self.negotiated

    def get_cipher_name(self):
        return "TLS_AES_256_GCM_SHA384"

    def get_protocol_version_name(self):
        return "TLSv1.3"


TL = "mitmproxy.proxy.layers.tls:TLSLayer"


@scenario("handshake_done.upstream_alpn_recorded_exactly", functions=[TL + ".receive_handshake_data"])
def s_record_alpn(vc):
    """'The upstream protocol is known' is what alpn_select_callback reads as server_alpn: after a completed handshake the
    connection's alpn must be exactly what was negotiated — in particular *b''* (known: nothing negotiated, to be mirrored
    to the client as 'none') must stay distinguishable from None (unknown)."""
    side = vc.case("side", ["server", "client"])
    negotiated = vc.sym_bytes("negotiated")
    client = mk_client(vc)
    server = mk_server(vc)
    ctx = mk_context(vc, client, server)
    tls = vc.new("props.C18:TlsStub", negotiated=negotiated)
    conn = server if side == "server" else client
    lay = vc.new("mitmproxy.proxy.layers.tls:ServerTLSLayer" if side == "server" else "mitmproxy.proxy.layers.tls:ClientTLSLayer",
                 context=ctx, conn=conn, tunnel_connection=conn, tls=tls, debug=None, _paused=None, _paused_event_queue=None,
                 client_hello_parsed=True)
    vc.summary(TL + ".receive_data", lambda v, self_, data: v.gen([]))
    out = vc.call(TL + ".receive_handshake_data", lay, vc.sym_bytes("data"))
    vc.ensure("no_exception", out.ok)
    if not out.ok:
        return
    vc.ensure("handshake_reported_done", vc.eq(out.result, (True, None)))
    vc.ensure("alpn_not_unknown", not isnone(conn.alpn))
    if not isnone(conn.alpn):
        vc.ensure("alpn_is_exactly_negotiated", conn.alpn == negotiated)
    kinds = trace_kinds(out.trace)
    vc.ensure("established_hook_for_this_side", kinds == (["TlsEstablishedServerHook"] if side == "server" else ["TlsEstablishedClientHook"]))


CTL = "mitmproxy.proxy.layers.tls:ClientTLSLayer"


@scenario("client_tls_layer.init.outer_session_forgotten", functions=[CTL + ".__init__"])
def s_client_tls_init(vc):
    """TLS-over-TLS (secure web proxy, then CONNECT and an inner handshake on the same client connection): the inner
    ClientTLSLayer must forget the outer session's attributes. alpn_select_callback returns a pinned client.alpn *before* it
    looks at the upstream protocol, so an ALPN left over from the outer connection would be handed to the inner client even
    when the upstream protocol is known and different ("that protocol or none")."""
    outer_tls = vc.case("client_has_outer_tls", [True, False])
    outer_alpn = vc.opt("outer_alpn", vc.sym_bytes("outer_alpn_v"))
    outer_sni = vc.opt("outer_sni", vc.sym_str("outer_sni_v"))
    offers = [vc.sym_bytes("outer_offer")]
    client = mk_client(vc, tls=outer_tls, alpn=outer_alpn, sni=outer_sni, alpn_offers=vc.list(offers), cipher="TLS_AES_128_GCM_SHA256",
                       tls_version="TLSv1.3", timestamp_tls_setup=2.0, cipher_list=vc.list(["TLS_AES_128_GCM_SHA256"]))
    server = mk_server(vc)
    ctx = mk_context(vc, client, server, layers=[1, 2])
    out = vc.call(CTL + ".__init__", vc.new(CTL), ctx)
    vc.ensure("no_exception", out.ok)
    if not out.ok:
        return
    if outer_tls:
        vc.ensure("outer.alpn_forgotten", isnone(client.alpn))
        vc.ensure("outer.sni_forgotten", isnone(client.sni))
        off = client.alpn_offers.items if vc.mode == "sym" else client.alpn_offers
        vc.ensure("outer.alpn_offers_forgotten", len(off) == 0)
        vc.ensure("outer.tls_version_and_cipher_forgotten", isnone(client.tls_version) and isnone(client.cipher))
    else:
        vc.ensure("no_outer_tls.alpn_untouched", vc.eq(client.alpn, outer_alpn))
        vc.ensure("no_outer_tls.sni_untouched", vc.eq(client.sni, outer_sni))


@scenario("tls_start_server.upstream_offers_respect_http2_switch", functions=["mitmproxy.addons.tlsconfig:TlsConfig.tls_start_server"])
def s_upstream_offers(vc):
    """Clause 3 across the two functions that cooperate on it: alpn_select_callback mirrors a known upstream protocol without
    looking at the http2 option (contract above: r != h2 unless the upstream negotiated h2), so 'HTTP/2 is never selected when
    http2 is disabled' also needs: the offer list TlsConfig.tls_start_server derives for the upstream handshake never contains
    h2 when http2 is disabled, contains only protocols the client offered, and is exactly what is handed to OpenSSL.
    Offer lists of length 0..3 with arbitrary (symbolic) protocols; the upstream's own offer list not preset by an addon."""
    from props.C15 import set_ctx_options, _entries, A, NT
    from props.tlsstub import mk_fake_ssl_module, patch_global
    http2 = vc.sym_bool("http2")
    n = vc.case("client_offers", [0, 1, 2, 3])
    offers = [vc.sym_bytes("offer%d" % i) for i in range(n)]
    for o in offers:
        vc.assume(len_(o) > 0)
    set_ctx_options(vc, mk_options(vc, ssl_insecure=True, http2=http2, ciphers_server=None, tls_version_server_min="TLS1_2", tls_version_server_max="UNBOUNDED",
                                   client_certs=None, tls_ecdh_curve_server=None, ssl_verify_upstream_trusted_confdir=None, ssl_verify_upstream_trusted_ca=None))
    fake, trace = mk_fake_ssl_module(vc, 1)
    patch_global(vc, A, "SSL", fake)
    vc.summary(NT + ":create_proxy_server_context", lambda v, **kw: v.ghost("ssl-context", 1))
    client = mk_client(vc, sni="client.example", alpn_offers=vc.list(offers))
    server = mk_server(vc, address=("example.com", 443), sni="example.com", alpn_offers=vc.list([]), cipher_list=vc.list([]))
    ctx = mk_context(vc, client, server)
    data = vc.new("mitmproxy.tls:TlsData", conn=server, context=ctx, ssl_conn=None, is_dtls=False)
    addon = vc.new(A + ":TlsConfig")
    out = vc.call(A + ":TlsConfig.tls_start_server", addon, data)
    vc.ensure("no_exception", out.ok)
    if not out.ok:
        return
    got = list(server.alpn_offers.items) if vc.mode == "sym" else list(server.alpn_offers)
    for i, g in enumerate(got):
        vc.ensure("no_h2_offered_upstream_when_disabled", Implies(Not(http2), g != b"h2"))
        vc.ensure("only_protocols_the_client_offered", Or(*[g == o for o in offers]) if offers else False)
    # nothing but h2 is dropped, and order is kept: the offers are the client's, minus h2 when http2 is disabled
    keep = [o for o in offers if vc.branch(Or(http2, o != b"h2"))]
    vc.ensure("offers_are_the_clients_minus_h2", len(got) == len(keep) and And(*[g == k for g, k in zip(got, keep)]))
    sent = _entries(vc, trace, "set_alpn_protos")
    if got:
        handed = sent[0][1] if sent else None
        hl = (list(handed.items) if vc.mode == "sym" else list(handed)) if handed is not None else None
        vc.ensure("exactly_these_offers_handed_to_openssl", len(sent) == 1 and hl is not None and len(hl) == len(got) and And(*[a == b for a, b in zip(hl, got)]))
    else:
        vc.ensure("no_alpn_extension_without_offers", len(sent) == 0)


class ClientFakeConn:
    """pyOpenSSL SSL.Connection stand-in for TlsConfig.tls_start_client: records what it is configured with"""

    def __bool__(self):
        return True

    def use_certificate(self, cert):
        self.trace.append(("use_certificate", cert))

    def use_privatekey(self, key):
        self.trace.append(("use_privatekey", key))

    def set_app_data(self, data):
        self.app_data = data
        self.trace.append(("set_app_data", data))

    def set_accept_state(self):
        self.trace.append(("set_accept_state",))


class ClientFakeSSL:
    def Connection(self, ctx):
        self.conn.trace.append(("Connection", ctx))
        return self.conn


class CertStub:
    def to_cryptography(self):
        return self.x509


STACKS = {
    # layer stack (classes, top first) at the time tls_start_client fires -> is this the outer connection of a secure web proxy?
    "empty": ([], False),
    "regular.outer.as_built_by_next_layer": (["modes:HttpProxy", "tls:ClientTLSLayer", "http:HttpLayer"], True),
    "regular.outer.tls_layer_only": (["modes:HttpProxy", "tls:ClientTLSLayer"], True),
    "regular.inner.plain_proxy": (["modes:HttpProxy", "http:HttpLayer", "http:HttpStream", "tls:ServerTLSLayer", "tls:ClientTLSLayer"], False),
    "regular.inner.plain_proxy.no_server_tls": (["modes:HttpProxy", "http:HttpLayer", "http:HttpStream", "tls:ClientTLSLayer"], False),
    "regular.inner.secure_proxy": (["modes:HttpProxy", "tls:ClientTLSLayer", "http:HttpLayer", "http:HttpStream", "tls:ServerTLSLayer", "tls:ClientTLSLayer"], False),
    "regular.inner.secure_proxy.no_server_tls": (["modes:HttpProxy", "tls:ClientTLSLayer", "http:HttpLayer", "http:HttpStream", "tls:ClientTLSLayer"], False),
    "reverse": (["modes:ReverseProxy", "tls:ServerTLSLayer", "tls:ClientTLSLayer"], False),
    "reverse.two_layers": (["modes:ReverseProxy", "tls:ClientTLSLayer"], False),
    "transparent": (["modes:TransparentProxy", "tls:ServerTLSLayer", "tls:ClientTLSLayer", "http:HttpLayer"], False),
    "socks5": (["modes:Socks5Proxy", "tls:ServerTLSLayer", "tls:ClientTLSLayer"], False),
}


def _layer_ref(short):
    mod, cls = short.split(":")
    return {"modes": "mitmproxy.proxy.layers.modes", "tls": "mitmproxy.proxy.layers.tls", "http": "mitmproxy.proxy.layers.http"}[mod] + ":" + cls


@scenario("tls_start_client.forces_http11_exactly_on_the_outer_connection_of_a_secure_web_proxy", functions=["mitmproxy.addons.tlsconfig:TlsConfig.tls_start_client"])
def s_start_client(vc):
    """Clause 4 on the real TlsConfig.tls_start_client, over the layer stacks that the real next_layer / HTTP layers build
    (the shapes are asserted against the real NextLayer._setup_explicit_http_proxy in the bounded part): the AppData the ALPN
    callback will see pins client_alpn to http/1.1 exactly when the handshake is the outer one of a regular-mode (secure web)
    proxy; otherwise it is client.alpn (None unless an addon chose a protocol); server_alpn and http2 are passed through."""
    from props.C15 import set_ctx_options, A, NT
    from props.tlsstub import patch_global
    name = vc.case("layer_stack", sorted(STACKS))
    shape, outer = STACKS[name]
    http2 = vc.sym_bool("http2")
    calpn = vc.opt("client.alpn", vc.sym_bytes("client.alpn_v"))
    salpn = vc.opt("server.alpn", vc.sym_bytes("server.alpn_v"))
    set_ctx_options(vc, mk_options(vc, http2=http2, ciphers_client=None, tls_version_client_min="TLS1_2", tls_version_client_max="UNBOUNDED",
                                   add_upstream_certs_to_client_chain=False, tls_ecdh_curve_client=None, request_client_cert=False))
    trace = vc.list([])
    conn = vc.new("props.C18:ClientFakeConn", trace=trace, app_data=None)
    patch_global(vc, A, "SSL", vc.new("props.C18:ClientFakeSSL", conn=conn))
    vc.summary(NT + ":create_client_proxy_context", lambda v, **kw: v.ghost("ssl-context", 1))
    entry = vc.new("mitmproxy.certs:CertStoreEntry", cert=vc.new("props.C18:CertStub", x509="x509"), privatekey="key", chain_file=None, chain_certs=[])
    vc.summary(A + ":TlsConfig.get_cert", lambda v, self_, c: entry)
    # AppData is a TypedDict: calling it builds a plain dict of its keyword arguments
    built = []
    vc.summary(A + ":AppData", lambda v, **kw: built.append(kw) or v.dict([(k, kw[k]) for k in ("client_alpn", "server_alpn", "http2")]))
    client = mk_client(vc, alpn=calpn, cipher_list=vc.list(["ECDHE-RSA-AES128-GCM-SHA256"]))
    server = mk_server(vc, alpn=salpn)
    ctx = mk_context(vc, client, server)
    ctx.layers = vc.list([vc.new(_layer_ref(x)) for x in shape])
    data = vc.new("mitmproxy.tls:TlsData", conn=client, context=ctx, ssl_conn=None, is_dtls=False)
    addon = vc.new(A + ":TlsConfig", certstore=vc.new("props.C18:CertStub", dhparams=None))
    out = vc.call(A + ":TlsConfig.tls_start_client", addon, data)
    vc.ensure("no_exception", out.ok)
    if not out.ok:
        return
    vc.ensure("connection_handed_out", data.ssl_conn is conn)
    vc.ensure("app_data_set", len(built) == 1 and not isnone(conn.app_data))
    if len(built) != 1:
        return
    ad = built[0]
    if outer:
        vc.ensure("outer_connection_of_secure_web_proxy.http11_forced", ad["client_alpn"] == b"http/1.1")
    else:
        vc.ensure("every_other_handshake.client_alpn_is_the_clients_own", vc.eq(ad["client_alpn"], calpn))
    vc.ensure("upstream_alpn_and_http2_passed_through", And(vc.eq(ad["server_alpn"], salpn), vc.eq(ad["http2"], http2)))


def bounded(tier, seed):
    """All offer lists up to length 3 over 7 protocol classes x forced/upstream ALPN states x http2, on the real callback."""
    import itertools
    from OpenSSL import SSL
    from mitmproxy.addons import tlsconfig

    b = Bounded()
    protos = [b"h2", b"http/1.1", b"http/1.0", b"h3", b"spdy/3", b"", b"foo"]
    states = [None, b"", b"h2", b"http/1.1", b"foo"]
    maxlen = 3 if tier == "quick" else 4
    b.rule = "alpn_select_callback on every offer list (<= %d protocols over 7 classes incl. empty and unknown) x client_alpn in 5 states x server_alpn in 5 states x http2; distinct = argument tuple; non-trivial = non-empty offers" % maxlen
    b.bound = f"offer lists of length <= {maxlen}"
    b.exhaustive = True

    class Conn:
        def __init__(self, d):
            self.d = d

        def get_app_data(self):
            return self.d

    for n in range(0, maxlen + 1):
        for offers in itertools.product(protos, repeat=n):
            for ca in states:
                for sa in states:
                    for http2 in (True, False):
                        r = tlsconfig.alpn_select_callback(Conn(dict(client_alpn=ca, server_alpn=sa, http2=http2)), list(offers))
                        b.case((offers, ca, sa, http2), nontrivial=n > 0)
                        inp = {"offers": [o.decode() for o in offers], "client_alpn": None if ca is None else ca.decode(), "server_alpn": None if sa is None else sa.decode(), "http2": http2}
                        none = r is SSL.NO_OVERLAPPING_PROTOCOLS
                        if not none and r not in offers:
                            b.fail("alpn.offered", inp, repr(r))
                        if ca is not None and not none and r != ca:
                            b.fail("alpn.forced", inp, repr(r))
                        if ca is None and sa is not None and not none and r != sa:
                            if sa != b"" and sa not in offers:
                                b.fail("alpn.upstream_known[KF-C18-1]", inp, repr(r))
                            else:
                                b.fail("alpn.upstream_known", inp, repr(r))
                        if not http2 and ca is None and sa != b"h2" and r == b"h2":
                            b.fail("alpn.no_h2_when_disabled", inp, repr(r))
                        if none and ca is None and (sa is None or (sa != b"" and sa not in offers)):
                            acc = (b"h3", b"h2", b"http/1.1", b"http/1.0", b"http/0.9") if http2 else (b"http/1.1", b"http/1.0", b"http/0.9")
                            if any(o in acc for o in offers):
                                b.fail("alpn.none_only_if_nothing_acceptable", inp, "none although an HTTP protocol was offered")
    _bounded_app_data(b)
    return b


def _bounded_app_data(b):
    """Clause 4 (secure web proxy outer connection => only HTTP/1.1) on the real TlsConfig.tls_start_client with *real* layer
    stacks: every shape of STACKS is built from the real layer classes in a real Context (the shape the real
    NextLayer._setup_explicit_http_proxy builds for a TLS client of a regular proxy is asserted to be the one the T1 scenario
    calls 'regular.outer.as_built_by_next_layer'); the AppData handed to the callback has client_alpn = b'http/1.1' iff the
    handshake is the outer one, else client.alpn. (The repository's own test mocks the stack as [HttpProxy, 123].)"""
    import asyncio
    from mitmproxy.addons import tlsconfig, next_layer
    from mitmproxy.test import taddons
    from mitmproxy.proxy import context as pctx
    from mitmproxy.proxy.layers import modes, http, tls as ptls
    from mitmproxy.proxy.layers.http import HTTPMode
    from mitmproxy.proxy.mode_specs import ProxyMode
    from mitmproxy import connection, tls

    def build(ctx, shape):
        """instantiate the stack top-down; a fork at HttpStream as the HTTP layer does"""
        cur, last = ctx, None
        for short in shape:
            mod, cls = short.split(":")
            if cls == "HttpLayer":
                last = http.HttpLayer(cur, HTTPMode.regular if shape[0] == "modes:HttpProxy" else HTTPMode.transparent)
            elif cls == "HttpStream":
                cur = cur.fork()
                last = http.HttpStream(cur, 1)
            else:
                last = getattr({"modes": modes, "tls": ptls}[mod], cls)(cur)
        return cur

    async def run():
        import tempfile

        ta = tlsconfig.TlsConfig()
        with taddons.context(ta) as tctx, tempfile.TemporaryDirectory() as confdir:
            tctx.configure(ta, confdir=confdir)
            # the stack the real next_layer builds for a TLS ClientHello on a regular proxy
            c = connection.Client(peername=("127.0.0.1", 1), sockname=("127.0.0.1", 8080), timestamp_start=1.0)
            c.proxy_mode = ProxyMode.parse("regular")
            ctx = pctx.Context(c, tctx.options)
            modes.HttpProxy(ctx)
            hello = bytes.fromhex("1603010200010001fc0303") + bytes(600)
            top = next_layer.NextLayer._setup_explicit_http_proxy(ctx, hello)
            real = [type(x).__module__.rsplit(".", 1)[-1].lstrip("_").replace("base", "http") + ":" + type(x).__name__ for x in top.context.layers]
            real = [("http:" + r.split(":")[1]) if r.split(":")[1] in ("HttpLayer", "HttpStream") else r for r in real]
            b.case(("stack.as_built",))
            if real != STACKS["regular.outer.as_built_by_next_layer"][0] or not isinstance(top, ptls.ClientTLSLayer):
                b.fail("alpn.appdata.stack_shape_of_next_layer", {"built": real}, "the T1 scenario's 'as built by next_layer' stack is not what next_layer builds")
            for name in sorted(STACKS):
                shape, outer = STACKS[name]
                for calpn in (None, b"h2", b"http/1.1"):
                    for salpn in (None, b"", b"h2"):
                        for http2 in (True, False):
                            tctx.configure(ta, http2=http2)
                            c = connection.Client(peername=("127.0.0.1", 1), sockname=("127.0.0.1", 8080), timestamp_start=1.0)
                            ctx = pctx.Context(c, tctx.options)
                            ctx.server.address = ("example.com", 443)
                            ctx.server.alpn = salpn
                            cur = build(ctx, shape)
                            c.alpn = calpn
                            c.sni = "example.com"
                            ts = tls.TlsData(cur.client, context=cur)
                            ta.tls_start_client(ts)
                            ad = ts.ssl_conn.get_app_data()
                            inp = {"stack": name, "layers": shape, "client.alpn": calpn and calpn.decode(), "server.alpn": salpn if salpn is None else salpn.decode(), "http2": http2}
                            b.case(("appdata", name, calpn, salpn, http2))
                            want = b"http/1.1" if outer else calpn
                            if ad["client_alpn"] != want:
                                b.fail("alpn.appdata.forced_http11_on_secure_web_proxy", inp, repr(ad))
                            if ad["server_alpn"] != salpn or ad["http2"] != http2:
                                b.fail("alpn.appdata.passthrough", inp, repr(ad))

    asyncio.run(run())


def _no_http_option(vc, options, http2):
    """no element of options is an acceptable HTTP ALPN"""
    if vc.mode == "native":
        acc = HTTP_ALL if http2 else HTTP1
        return not any(o in acc for o in options)
    import z3
    from pyvc.core import _b
    k = z3.Int("k$post")
    e = options[SInt(k)]
    acc = If(http2, in_const(e, HTTP_ALL), in_const(e, HTTP1))
    return SBool(z3.ForAll([k], z3.Implies(z3.And(k >= 0, k < z3.Length(options.t)), z3.Not(_b(acc)))))
