"""C18 — ALPN negotiation with the client is consistent with offers and upstream."""
from pyvc.api import *

CLAIM = "proof"
F = "mitmproxy.addons.tlsconfig:alpn_select_callback"
HTTP1 = (b"http/1.1", b"http/1.0", b"http/0.9")
HTTP_ALL = (b"h3", b"h2") + HTTP1


def _no():
    from OpenSSL import SSL
    return SSL.NO_OVERLAPPING_PROTOCOLS


def in_const(x, consts):
    return Or(*[x == c for c in consts])


def inv_no_earlier_http(it, env, idx):
    """loop invariant of `for alpn in options`: no option before position idx is in http_alpns"""
    import z3
    from pyvc.core import _b
    options, http_alpns = env["options"], env["http_alpns"]
    k = z3.Int("k$inv")
    return SBool(z3.ForAll([k], z3.Implies(z3.And(k >= 0, k < idx.t), z3.Not(_b(contains(http_alpns, options[SInt(k)]))))))


@scenario("alpn_select_callback", functions=[F])
def s_alpn(vc):
    options = vc.sym_seq("options", "bytes")
    client_alpn = vc.opt("client_alpn", vc.sym_bytes("client_alpn_v"))
    server_alpn = vc.opt("server_alpn", vc.sym_bytes("server_alpn_v"))
    http2 = vc.sym_bool("http2")
    app = vc.dict([("client_alpn", client_alpn), ("server_alpn", server_alpn), ("http2", http2)])
    conn = vc.new("OpenSSL.SSL:Connection", _app_data=app)
    vc.invariant(F, 1, inv_no_earlier_http)
    out = vc.call(F, conn, options)
    vc.ensure("no_exception", out.ok)
    if not out.ok:
        return
    r = out.result
    none = is_const(r, _no())
    c_none, s_none = isnone(client_alpn), isnone(server_alpn)
    cv, sv = (client_alpn.alts[1][1], server_alpn.alts[1][1]) if vc.mode == "sym" else (client_alpn, server_alpn)
    if none:
        # "none" is always allowed by clauses 1-4; clause 5 (client preference) says none only if nothing acceptable
        vc.ensure("none.only_if_no_http_offer",
                  Implies(And(c_none, Or(s_none, And(Not(s_none), sv != b"", Not(contains(options, sv))))),
                          _no_http_option(vc, options, http2)))
        return
    vc.ensure("offered", contains(options, r))                                        # clause 1
    vc.ensure("client_alpn.forced", Implies(Not(c_none), r == cv))                    # secure-web-proxy / forced ALPN
    # clause 2 (a forced client ALPN — clause 4 / addon override — takes precedence, so it is stated for client_alpn None)
    K = And(Not(s_none), sv != b"", Not(contains(options, sv)))
    vc.ensure_kf("upstream_known", Implies(And(c_none, Not(s_none)), r == sv), "KF-C18-1", K)
    vc.ensure("no_h2_when_disabled", Implies(And(Not(http2), c_none, Or(s_none, sv != b"h2")), r != b"h2"))   # clause 3
    vc.ensure("http_only_by_default", Implies(And(c_none, Or(s_none, r != sv)), in_const(r, HTTP_ALL)))


from props.prelude import *


class TlsStub:
    """pyOpenSSL SSL.Connection stand-in for a completed handshake (trusted library contract: do_handshake returns,
    get_alpn_proto_negotiated returns the negotiated protocol, b'' if none was negotiated)."""

    def bio_write(self, data):
        return None

    def do_handshake(self):
        return None

    def get_peer_cert_chain(self):
        return None

    def get_peer_certificate(self):
        return None

    def get_alpn_proto_negotiated(self):
        return self.negotiated

    def get_cipher_name(self):
        return "TLS_AES_256_GCM_SHA384"

    def get_protocol_version_name(self):
        return "TLSv1.3"


TL = "mitmproxy.proxy.layers.tls:TLSLayer"


@scenario("handshake_done.upstream_alpn_recorded_exactly", functions=[TL + ".receive_handshake_data"])
def s_record_alpn(vc):
    """'The upstream protocol is known' is what alpn_select_callback reads as server_alpn: after a completed handshake the
    connection's alpn must be exactly what was negotiated — in particular *b''* (known: nothing negotiated, to be mirrored
    to the client as 'none') must stay distinguishable from None (unknown)."""
    side = vc.case("side", ["server", "client"])
    negotiated = vc.sym_bytes("negotiated")
    client = mk_client(vc)
    server = mk_server(vc)
    ctx = mk_context(vc, client, server)
    tls = vc.new("props.C18:TlsStub", negotiated=negotiated)
    conn = server if side == "server" else client
    lay = vc.new("mitmproxy.proxy.layers.tls:ServerTLSLayer" if side == "server" else "mitmproxy.proxy.layers.tls:ClientTLSLayer",
                 context=ctx, conn=conn, tunnel_connection=conn, tls=tls, debug=None, _paused=None, _paused_event_queue=None,
                 client_hello_parsed=True)
    vc.summary(TL + ".receive_data", lambda v, self_, data: v.gen([]))
    out = vc.call(TL + ".receive_handshake_data", lay, vc.sym_bytes("data"))
    vc.ensure("no_exception", out.ok)
    if not out.ok:
        return
    vc.ensure("handshake_reported_done", vc.eq(out.result, (True, None)))
    vc.ensure("alpn_not_unknown", not isnone(conn.alpn))
    if not isnone(conn.alpn):
        vc.ensure("alpn_is_exactly_negotiated", conn.alpn == negotiated)
    kinds = trace_kinds(out.trace)
    vc.ensure("established_hook_for_this_side", kinds == (["TlsEstablishedServerHook"] if side == "server" else ["TlsEstablishedClientHook"]))


CTL = "mitmproxy.proxy.layers.tls:ClientTLSLayer"


@scenario("client_tls_layer.init.outer_session_forgotten", functions=[CTL + ".__init__"])
def s_client_tls_init(vc):
    """TLS-over-TLS (secure web proxy, then CONNECT and an inner handshake on the same client connection): the inner
    ClientTLSLayer must forget the outer session's attributes. alpn_select_callback returns a pinned client.alpn *before* it
    looks at the upstream protocol, so an ALPN left over from the outer connection would be handed to the inner client even
    when the upstream protocol is known and different ("that protocol or none")."""
    outer_tls = vc.case("client_has_outer_tls", [True, False])
    outer_alpn = vc.opt("outer_alpn", vc.sym_bytes("outer_alpn_v"))
    outer_sni = vc.opt("outer_sni", vc.sym_str("outer_sni_v"))
    offers = [vc.sym_bytes("outer_offer")]
    client = mk_client(vc, tls=outer_tls, alpn=outer_alpn, sni=outer_sni, alpn_offers=vc.list(offers), cipher="TLS_AES_128_GCM_SHA256",
                       tls_version="TLSv1.3", timestamp_tls_setup=2.0, cipher_list=vc.list(["TLS_AES_128_GCM_SHA256"]))
    server = mk_server(vc)
    ctx = mk_context(vc, client, server, layers=[1, 2])
    out = vc.call(CTL + ".__init__", vc.new(CTL), ctx)
    vc.ensure("no_exception", out.ok)
    if not out.ok:
        return
    if outer_tls:
        vc.ensure("outer.alpn_forgotten", isnone(client.alpn))
        vc.ensure("outer.sni_forgotten", isnone(client.sni))
        off = client.alpn_offers.items if vc.mode == "sym" else client.alpn_offers
        vc.ensure("outer.alpn_offers_forgotten", len(off) == 0)
        vc.ensure("outer.tls_version_and_cipher_forgotten", isnone(client.tls_version) and isnone(client.cipher))
    else:
        vc.ensure("no_outer_tls.alpn_untouched", vc.eq(client.alpn, outer_alpn))
        vc.ensure("no_outer_tls.sni_untouched", vc.eq(client.sni, outer_sni))


def bounded(tier, seed):
    """All offer lists up to length 3 over 7 protocol classes x forced/upstream ALPN states x http2, on the real callback."""
    import itertools
    from OpenSSL import SSL
    from mitmproxy.addons import tlsconfig

    b = Bounded()
    protos = [b"h2", b"http/1.1", b"http/1.0", b"h3", b"spdy/3", b"", b"foo"]
    states = [None, b"", b"h2", b"http/1.1", b"foo"]
    maxlen = 3 if tier == "quick" else 4
    b.rule = "alpn_select_callback on every offer list (<= %d protocols over 7 classes incl. empty and unknown) x client_alpn in 5 states x server_alpn in 5 states x http2; distinct = argument tuple; non-trivial = non-empty offers" % maxlen
    b.bound = f"offer lists of length <= {maxlen}"
    b.exhaustive = True

    class Conn:
        def __init__(self, d):
            self.d = d

        def get_app_data(self):
            return self.d

    for n in range(0, maxlen + 1):
        for offers in itertools.product(protos, repeat=n):
            for ca in states:
                for sa in states:
                    for http2 in (True, False):
                        r = tlsconfig.alpn_select_callback(Conn(dict(client_alpn=ca, server_alpn=sa, http2=http2)), list(offers))
                        b.case((offers, ca, sa, http2), nontrivial=n > 0)
                        inp = {"offers": [o.decode() for o in offers], "client_alpn": None if ca is None else ca.decode(), "server_alpn": None if sa is None else sa.decode(), "http2": http2}
                        none = r is SSL.NO_OVERLAPPING_PROTOCOLS
                        if not none and r not in offers:
                            b.fail("alpn.offered", inp, repr(r))
                        if ca is not None and not none and r != ca:
                            b.fail("alpn.forced", inp, repr(r))
                        if ca is None and sa is not None and not none and r != sa:
                            if sa != b"" and sa not in offers:
                                b.fail("alpn.upstream_known[KF-C18-1]", inp, repr(r))
                            else:
                                b.fail("alpn.upstream_known", inp, repr(r))
                        if not http2 and ca is None and sa != b"h2" and r == b"h2":
                            b.fail("alpn.no_h2_when_disabled", inp, repr(r))
                        if none and ca is None and (sa is None or (sa != b"" and sa not in offers)):
                            acc = (b"h3", b"h2", b"http/1.1", b"http/1.0", b"http/0.9") if http2 else (b"http/1.1", b"http/1.0", b"http/0.9")
                            if any(o in acc for o in offers):
                                b.fail("alpn.none_only_if_nothing_acceptable", inp, "none although an HTTP protocol was offered")
    _bounded_app_data(b)
    return b


def _bounded_app_data(b):
    """Clause 4 (secure web proxy outer connection => only HTTP/1.1) on the real TlsConfig.tls_start_client: the AppData handed
    to the callback has client_alpn = b'http/1.1' iff the layer stack is [HttpProxy, <tls layer>], else client.alpn."""
    import asyncio
    from mitmproxy.addons import tlsconfig
    from mitmproxy.test import taddons
    from mitmproxy.proxy import context as pctx
    from mitmproxy.proxy.layers import modes
    from mitmproxy import connection, tls

    async def run():
        import tempfile

        ta = tlsconfig.TlsConfig()
        with taddons.context(ta) as tctx, tempfile.TemporaryDirectory() as confdir:
            tctx.configure(ta, confdir=confdir)
            for outer in (True, False):
                for calpn in (None, b"h2", b"http/1.1"):
                    for salpn in (None, b"", b"h2"):
                        for http2 in (True, False):
                            tctx.configure(ta, http2=http2)
                            c = connection.Client(peername=("127.0.0.1", 1), sockname=("127.0.0.1", 8080), timestamp_start=1.0)
                            c.alpn = calpn
                            ctx = pctx.Context(c, tctx.options)
                            ctx.server.alpn = salpn
                            ctx.layers = [modes.HttpProxy(ctx), 123] if outer else [modes.ReverseProxy(ctx), 123]
                            ts = tls.TlsData(ctx.client, context=ctx)
                            ta.tls_start_client(ts)
                            ad = ts.ssl_conn.get_app_data()
                            inp = {"outer": outer, "client.alpn": calpn and calpn.decode(), "server.alpn": salpn if salpn is None else salpn.decode(), "http2": http2}
                            b.case(("appdata", outer, calpn, salpn, http2))
                            want = b"http/1.1" if outer else calpn
                            if ad["client_alpn"] != want:
                                b.fail("alpn.appdata.forced_http11_on_secure_web_proxy", inp, repr(ad))
                            if ad["server_alpn"] != salpn or ad["http2"] != http2:
                                b.fail("alpn.appdata.passthrough", inp, repr(ad))

    asyncio.run(run())


def _no_http_option(vc, options, http2):
    """no element of options is an acceptable HTTP ALPN"""
    if vc.mode == "native":
        acc = HTTP_ALL if http2 else HTTP1
        return not any(o in acc for o in options)
    import z3
    from pyvc.core import _b
    k = z3.Int("k$post")
    e = options[SInt(k)]
    acc = If(http2, in_const(e, HTTP_ALL), in_const(e, HTTP1))
    return SBool(z3.ForAll([k], z3.Implies(z3.And(k >= 0, k < z3.Length(options.t)), z3.Not(_b(acc)))))
