"""C18 — ALPN negotiation with the client is consistent with offers and upstream."""
from pyvc.api import *

CLAIM = "proof"
F = "mitmproxy.addons.tlsconfig:alpn_select_callback"
HTTP1 = (b"http/1.1", b"http/1.0", b"http/0.9")
HTTP_ALL = (b"h3", b"h2") + HTTP1


def _no():
    from OpenSSL import SSL
    return SSL.NO_OVERLAPPING_PROTOCOLS


def in_const(x, consts):
    return Or(*[x == c for c in consts])


def inv_no_earlier_http(it, env, idx):
    """loop invariant of `for alpn in options`: no option before position idx is in http_alpns"""
    import z3
    from pyvc.core import _b
    options, http_alpns = env["options"], env["http_alpns"]
    k = z3.Int("k$inv")
    return SBool(z3.ForAll([k], z3.Implies(z3.And(k >= 0, k < idx.t), z3.Not(_b(contains(http_alpns, options[SInt(k)]))))))


@scenario("alpn_select_callback", functions=[F])
def s_alpn(vc):
    options = vc.sym_seq("options", "bytes")
    client_alpn = vc.opt("client_alpn", vc.sym_bytes("client_alpn_v"))
    server_alpn = vc.opt("server_alpn", vc.sym_bytes("server_alpn_v"))
    http2 = vc.sym_bool("http2")
    app = vc.dict([("client_alpn", client_alpn), ("server_alpn", server_alpn), ("http2", http2)])
    conn = vc.new("OpenSSL.SSL:Connection", _app_data=app)
    vc.invariant(F, 1, inv_no_earlier_http)
    out = vc.call(F, conn, options)
    vc.ensure("no_exception", out.ok)
    if not out.ok:
        return
    r = out.result
    none = is_const(r, _no())
    c_none, s_none = isnone(client_alpn), isnone(server_alpn)
    cv, sv = (client_alpn.alts[1][1], server_alpn.alts[1][1]) if vc.mode == "sym" else (client_alpn, server_alpn)
    if none:
        # "none" is always allowed by clauses 1-4; clause 5 (client preference) says none only if nothing acceptable
        vc.ensure("none.only_if_no_http_offer",
                  Implies(And(c_none, Or(s_none, And(Not(s_none), sv != b"", Not(contains(options, sv))))),
                          _no_http_option(vc, options, http2)))
        return
    vc.ensure("offered", contains(options, r))                                        # clause 1
    vc.ensure("client_alpn.forced", Implies(Not(c_none), r == cv))                    # secure-web-proxy / forced ALPN
    # clause 2 (a forced client ALPN — clause 4 / addon override — takes precedence, so it is stated for client_alpn None)
    K = And(Not(s_none), sv != b"", Not(contains(options, sv)))
    vc.ensure_kf("upstream_known", Implies(And(c_none, Not(s_none)), r == sv), "KF-C18-1", K)
    vc.ensure("no_h2_when_disabled", Implies(And(Not(http2), c_none, Or(s_none, sv != b"h2")), r != b"h2"))   # clause 3
    vc.ensure("http_only_by_default", Implies(And(c_none, Or(s_none, r != sv)), in_const(r, HTTP_ALL)))


def _no_http_option(vc, options, http2):
    """no element of options is an acceptable HTTP ALPN"""
    if vc.mode == "native":
        acc = HTTP_ALL if http2 else HTTP1
        return not any(o in acc for o in options)
    import z3
    from pyvc.core import _b
    k = z3.Int("k$post")
    e = options[SInt(k)]
    acc = If(http2, in_const(e, HTTP_ALL), in_const(e, HTTP1))
    return SBool(z3.ForAll([k], z3.Implies(z3.And(k >= 0, k < z3.Length(options.t)), z3.Not(_b(acc)))))
