"""C26 — Forwarded DNS messages keep their meaning (RFC 1035 §3.3 RDATA layouts, §4.1.4 compression)."""
from pyvc.api import *
from props.prelude import *

CLAIM = "other"
DN = "mitmproxy.net.dns.domain_names:"
M = "mitmproxy.dns:DNSMessage"
LY = "mitmproxy.proxy.layers.dns:"
L = LY + "DNSLayer"

# Types whose RDATA is *defined* to contain domain names (RFC 1035 §3.3: NS MD MF CNAME SOA MB MG MR PTR MINFO MX;
# RFC 1183: RP AFSDB RT; RFC 2163: PX; RFC 2535: SIG NXT; RFC 2782: SRV; RFC 3403: NAPTR).  TXT, HINFO, A, AAAA, unknown: no names.
NAME_BEARING = (2, 3, 4, 5, 6, 7, 8, 9, 12, 14, 15, 17, 18, 21, 24, 26, 30, 33, 35)


def SE():
    import struct
    return struct.error


def raised_is(out, cls):
    t = out.raised_type()
    return t is not None and issubclass(t, cls)


def raise_(vc, cls, msg="x"):
    if vc.mode == "native":
        raise cls(msg)
    vc.it.raise_(cls, msg)


def ret_(vc, v):
    return v if vc.mode == "native" else lift(v)


_ORIG = {}


def _register_oracle():
    from pyvc import lib

    def real_pack(name):
        _remember_originals()
        try:
            return _ORIG["pack"](name)
        except Exception:
            return b""

    lib.UF_ORACLES.setdefault("packname", real_pack)


NAME_CANDS = [dict(read0_name=a, read1_name=b, before=bytes(12) + b"\x07example\x03com\x00", after=b"") for a, b in
              [("example.com", "b.org"), ("", "example.com"), ("m\u00fcnchen.de", "a"), ("a", "")]]


def _remember_originals():
    from mitmproxy.net.dns import domain_names
    for n in ("pack", "unpack_from_with_compression"):
        f = getattr(domain_names, n)
        if getattr(f, "__module__", "") == domain_names.__name__:
            _ORIG.setdefault(n, f)


_register_oracle()


def packname(vc, name):
    """bytes of a packed name: the real domain_names.pack natively, an uninterpreted function in proof mode (contract: C25 `name.pack`)"""
    if vc.mode == "native":
        return _ORIG["pack"](name)
    import z3
    from pyvc import lib
    return SBytes(lib.uf("packname", z3.StringSort(), z3.StringSort())(name.t))


# =============================================================================================
# the type table

@scenario("type_table", functions=[DN + "record_data_can_have_compression"])
def s_type_table(vc):
    """RDATA may only be rewritten (compression expanded) for the types whose RDATA is defined to contain domain names.
    Known finding: TXT and HINFO (character-strings, no names) are listed."""
    t = vc.sym_int("record_type", lo=0, hi=65535)
    out = vc.call(DN + "record_data_can_have_compression", t)
    vc.ensure("total", out.ok)
    if not out.ok:
        return
    member = Or(*[t == x for x in NAME_BEARING])
    vc.ensure("true_only_for_name_bearing_types", Implies(vc.eq(out.result, True), member))  # TXT/HINFO were KF-C26-1, fixed in c43b4c657
    vc.ensure("true_for_every_name_bearing_type", Implies(member, vc.eq(out.result, True)))
    vc.ensure("is_bool", isa(out.result, bool))


# =============================================================================================
# RDATA decompression

class Reader:
    """Summary of unpack_from_with_compression as it is used by decompress_from_record_data (called at an octet >= 0xC0):
    its contract (C25 `name.compressed.activation`): a pointer there is 2 octets long -> (name, 2), or struct.error."""

    def __init__(self, vc, names=None):
        self.calls = []
        self.names = names or {}

    def __call__(self, vc, buffer, offset, cache):
        i = len(self.calls)
        fails = vc.sym_bool(f"read{i}_fails")
        name = vc.sym_str(f"read{i}_name")
        self.calls.append(dict(buffer=buffer, offset=offset, cache=cache, fails=fails, name=name))
        if vc.branch(fails):
            raise_(vc, SE())
        return (name, 2) if vc.mode == "native" else STuple([name, SInt(2)])


def lit_bytes(vc, tag, n):
    """n symbolic octets (each an int 0..255)"""
    return [vc.sym_int(f"{tag}{j}", lo=0, hi=255) for j in range(n)]


def as_bytes(codes):
    if not codes:
        return b""
    return from_codes([c % 256 for c in codes])


def any_ge_c0(codes):
    return Or(*[c >= 192 for c in codes]) if codes else False


def call_decompress(vc, prefix, rdata, suffix, reader):
    _remember_originals()
    buf = prefix + rdata + suffix
    off = len_(prefix)
    end = off + len_(rdata)
    cache = vc.dict([])
    vc.summary(DN + "unpack_from_with_compression", reader)
    vc.summary(DN + "pack", lambda v, name: packname(v, name))
    out = vc.call(DN + "decompress_from_record_data", buf, off, end, cache)
    return out, buf, off, cache


@scenario("decompress.no_pointer_octets", functions=[DN + "decompress_from_record_data"], max_unroll=7)
def s_decompress_plain(vc):
    """RDATA without any octet >= 0xC0 is returned byte for byte (lengths 0..6), wherever it sits in the message."""
    n = vc.case("rdlength", [0, 1, 2, 3, 6])
    codes = lit_bytes(vc, "d", n)
    for c in codes:
        vc.assume(c < 192)
    prefix, suffix = vc.sym_bytes("before"), vc.sym_bytes("after")
    rd = Reader(vc)
    out, buf, off, cache = call_decompress(vc, prefix, as_bytes(codes), suffix, rd)
    vc.ensure("ok", out.ok)
    if out.ok:
        vc.ensure("unchanged", out.result == as_bytes(codes))
        vc.ensure("is_bytes", isa(out.result, bytes))
    vc.ensure("no_name_reading", len(rd.calls) == 0)


@scenario("decompress.one_name", functions=[DN + "decompress_from_record_data"], candidates=NAME_CANDS, max_unroll=8)
def s_decompress_one(vc):
    """RDATA laid out as [fixed fields] [a name given as a compression pointer] [fixed fields] (MX, SRV, CNAME, ...): the
    result is the fixed fields unchanged with the pointer replaced by the uncompressed name.
    Known finding KF-C26-3: fixed-field octets >= 0xC0 are themselves tried as pointers."""
    npre, npost = vc.case("layout", [(0, 0), (2, 0), (6, 0), (0, 3), (2, 2)])
    pre, post = lit_bytes(vc, "pre", npre), lit_bytes(vc, "post", npost)
    p0 = vc.sym_int("ptr_hi", lo=192, hi=255)
    p1 = vc.sym_int("ptr_lo", lo=0, hi=255)
    prefix, suffix = vc.sym_bytes("before"), vc.sym_bytes("after")
    K = Or(any_ge_c0(pre), any_ge_c0(post))
    if vc.mode == "sym" and vc.branch(K):
        vc.assume(False)  # inside the recorded class: witness replayed natively
    rd = Reader(vc)
    rdata = as_bytes(pre) + as_bytes([p0, p1]) + as_bytes(post)
    out, buf, off, cache = call_decompress(vc, prefix, rdata, suffix, rd)
    vc.ensure("ok", out.ok)
    if not out.ok:
        return
    vc.ensure_kf("first_name_read_is_at_the_pointer", len(rd.calls) >= 1 and vc.truthy(rd.calls[0]["offset"] == off + npre), "KF-C26-3", K)
    if len(rd.calls) == 0 or not vc.truthy(rd.calls[0]["offset"] == off + npre):
        return
    c = rd.calls[0]
    vc.ensure("reader.whole_message_and_cache", c["buffer"] is buf and c["cache"] is cache)
    if vc.branch(c["fails"]):
        # not a readable pointer (malformed message): the octets are left alone; if the second octet is >= 0xC0 it may be tried too
        if vc.branch(p1 < 192):
            vc.ensure_kf("unreadable_pointer.no_other_read", len(rd.calls) == 1, "KF-C26-3", K)
            vc.ensure_kf("unreadable_pointer.left_alone", out.result == rdata, "KF-C26-3", K)
        return
    vc.ensure_kf("pointer_consumed_whole.no_other_read", len(rd.calls) == 1, "KF-C26-3", K)
    vc.ensure_kf("pointer_replaced_by_uncompressed_name", out.result == as_bytes(pre) + packname(vc, c["name"]) + as_bytes(post), "KF-C26-3", K)


@scenario("decompress.two_names", functions=[DN + "decompress_from_record_data"], candidates=NAME_CANDS, max_unroll=10)
def s_decompress_two(vc):
    """RDATA with two names, both given as pointers, followed by fixed fields (SOA: MNAME RNAME + 5 x 32 bit; MINFO, RP):
    both pointers are replaced by the uncompressed names, in place.
    Known finding KF-C26-2: the splice position of the second name is advanced by len(text of the first name) instead of
    the growth of the packed data (len(packed) - 2): wrong whenever these differ (root name, IDN names)."""
    npost = vc.case("fixed_octets", [0, 4])
    post = lit_bytes(vc, "post", npost)
    a0, a1 = vc.sym_int("ptr1_hi", lo=192, hi=255), vc.sym_int("ptr1_lo", lo=0, hi=191)
    b0, b1 = vc.sym_int("ptr2_hi", lo=192, hi=255), vc.sym_int("ptr2_lo", lo=0, hi=191)
    for c in post:
        vc.assume(c < 192)
    prefix, suffix = vc.sym_bytes("before"), vc.sym_bytes("after")
    rd = Reader(vc)
    rdata = as_bytes([a0, a1, b0, b1]) + as_bytes(post)
    out, buf, off, cache = call_decompress(vc, prefix, rdata, suffix, rd)
    vc.ensure("ok", out.ok)
    if not out.ok or len(rd.calls) == 0:
        return
    c1 = rd.calls[0]
    vc.ensure("first_name_read_at_its_pointer", c1["offset"] == off)
    if vc.branch(c1["fails"]):
        return
    vc.ensure("second_name_read", len(rd.calls) == 2)
    if len(rd.calls) != 2:
        return
    c2 = rd.calls[1]
    vc.ensure("second_name_read_at_its_pointer", c2["offset"] == off + 2)
    if vc.branch(c2["fails"]):
        return
    n1, n2 = c1["name"], c2["name"]
    vc.ensure("both_pointers_replaced", out.result == packname(vc, n1) + packname(vc, n2) + as_bytes(post))  # was KF-C26-2, fixed in b4aa97775


# =============================================================================================
# the layer sends pack_message(message just decoded)

def set_packed(vc, wire):
    """DNSMessage.packed abstracted: the given bytes (its contract is C25). Returns an undo function for native mode."""
    if vc.mode == "native":
        import mitmproxy.dns as D
        orig = D.DNSMessage.__dict__["packed"]
        D.DNSMessage.packed = property(lambda self: wire)
        return lambda: setattr(D.DNSMessage, "packed", orig)
    vc.summary(M + ".packed", lambda v, self_: wire)
    return lambda: None


@scenario("pack_message", functions=[LY + "pack_message"])
def s_pack_message(vc):
    """RFC 1035 §4.2: over UDP the message is sent as is; over TCP it is prefixed with a two-octet length."""
    wire = vc.sym_bytes("wire")
    proto = vc.case("transport", ["udp", "tcp"])
    msg = vc.new(M, id=1)
    undo = set_packed(vc, wire)
    try:
        out = vc.call(LY + "pack_message", msg, proto)
    finally:
        undo()
    if proto == "udp":
        vc.ensure("udp.ok", out.ok)
        if out.ok:
            vc.ensure("udp.as_is", out.result == wire)
        return
    if vc.branch(len_(wire) > 65535):
        vc.ensure("tcp.too_long.error", raised_is(out, SE()))
        return
    vc.ensure("tcp.ok", out.ok)
    if out.ok:
        vc.ensure("tcp.length_prefix", And(len_(out.result) == len_(wire) + 2, be16(out.result, 0) == len_(wire)))
        vc.ensure("tcp.message_follows", out.result[2:] == wire)


def mk_dns_layer(vc, cproto="udp", sproto="udp", server_open=True, address=("8.8.8.8", 53)):
    from mitmproxy.connection import ConnectionState
    client = mk_client(vc, transport_protocol=cproto)
    server = mk_server(vc, transport_protocol=sproto, address=address, state=ConnectionState.OPEN if server_open else ConnectionState.CLOSED,
                       timestamp_start=2.0 if server_open else None)
    ctx = mk_context(vc, client, server)
    layer = vc.new(L, context=ctx, flows=vc.dict([]), req_buf=bytearray(), resp_buf=bytearray(), debug=None, _paused=None, _paused_event_queue=None)
    return layer, client, server


def mk_flow(vc, client, server, request=None, response=None, error=None):
    return vc.new("mitmproxy.dns:DNSFlow", client_conn=client, server_conn=server, request=request, response=response, live=True, error=error,
                  id="flow-id", intercepted=False, marked="", is_replay=None, metadata=vc.dict([]), comment="", timestamp_created=1.0, _backup=None)


class PackLog:
    """Summary of pack_message: an uninterpreted wire form per call; records (message, transport)."""

    def __init__(self):
        self.calls = []

    def __call__(self, vc, message, transport_protocol):
        i = len(self.calls)
        w = vc.sym_bytes(f"wire{i}")
        self.calls.append((message, transport_protocol, w))
        return ret_(vc, w)


@scenario("layer.forward_request", functions=[L + ".handle_request"])
def s_forward_request(vc):
    """A query no addon modifies is sent to the server as pack_message(the decoded query, server transport); nothing else is sent."""
    cproto = vc.case("client_transport", ["udp", "tcp"])
    sproto = vc.case("server_transport", ["udp", "tcp"])
    server_open = vc.case("server_connected", [True, False])
    layer, client, server = mk_dns_layer(vc, cproto, sproto, server_open)
    flow = mk_flow(vc, client, server)
    msg = vc.new(M, id=vc.sym_int("id", lo=0, hi=65535))
    packs = PackLog()
    vc.summary(LY + "pack_message", packs)
    out = vc.call(L + ".handle_request", layer, flow, msg, on_yield=lambda cmd: None)
    vc.ensure("no_exception", out.ok)
    if not out.ok:
        return
    kinds = trace_kinds(out.trace)
    vc.ensure("trace", kinds == ["DnsRequestHook"] + ([] if server_open else ["OpenConnection"]) + ["SendData"])
    if kinds[-1:] != ["SendData"]:
        return
    send = out.trace[-1]
    vc.ensure("hook.flow_carries_the_query", out.trace[0].flow is flow and flow.request is msg)
    vc.ensure("packed_once", len(packs.calls) == 1)
    if len(packs.calls) == 1:
        m, proto, w = packs.calls[0]
        vc.ensure("packed.the_decoded_message", m is msg)
        vc.ensure("packed.for_the_server_transport", vc.eq(proto, sproto))
        vc.ensure("sent.exactly_the_packed_bytes", send.data == w)
    vc.ensure("sent.to_the_server", send.connection is server)


@scenario("layer.forward_response", functions=[L + ".handle_response"])
def s_forward_response(vc):
    """A response no addon modifies is sent to the client as pack_message(the decoded response, client transport)."""
    cproto = vc.case("client_transport", ["udp", "tcp"])
    sproto = vc.case("server_transport", ["udp", "tcp"])
    layer, client, server = mk_dns_layer(vc, cproto, sproto, True)
    req = vc.new(M, id=vc.sym_int("id", lo=0, hi=65535))
    flow = mk_flow(vc, client, server, request=req)
    msg = vc.new(M, id=req.id)
    packs = PackLog()
    vc.summary(LY + "pack_message", packs)
    out = vc.call(L + ".handle_response", layer, flow, msg, on_yield=lambda cmd: None)
    vc.ensure("no_exception", out.ok)
    if not out.ok:
        return
    kinds = trace_kinds(out.trace)
    vc.ensure("trace", kinds == ["DnsResponseHook", "SendData"])
    if kinds != ["DnsResponseHook", "SendData"]:
        return
    send = out.trace[1]
    vc.ensure("hook.flow_carries_query_and_response", out.trace[0].flow is flow and flow.response is msg and flow.request is req)
    vc.ensure("packed_once", len(packs.calls) == 1)
    if len(packs.calls) == 1:
        m, proto, w = packs.calls[0]
        vc.ensure("packed.the_decoded_message", m is msg)
        vc.ensure("packed.for_the_client_transport", vc.eq(proto, cproto))
        vc.ensure("sent.exactly_the_packed_bytes", send.data == w)
    vc.ensure("sent.to_the_client", send.connection is client)


# =============================================================================================
# decoding contracts shared with C25 (the forwarded meaning rests on them): the same contract functions, run as C26 obligations

def _c25():
    from props import C25
    return C25


FRAMING_CANDS = [dict(name0="wWw.ExAmPlE.CoM", name1="MaIl.Example.ORG", name2="A.b"), dict(name0="example.com", name1="ns.example.com", name2="x")]


@scenario("decode.compressed_name", functions=[DN + "unpack_from_with_compression"], max_unroll=4)
def s_compressed_name(vc):
    """Expanding a compressed name (RFC 1035 §4.1.4): the pointer target is the full 14-bit offset, labels read before the
    pointer are followed by the labels of the target (contract text: props/C25.py s_compressed)."""
    return _c25().s_compressed.fn(vc)


@scenario("decode.records_as_read", functions=[M + ".unpack_from"], max_unroll=2, candidates=FRAMING_CANDS)
def s_records_as_read(vc):
    """Decoding keeps what was sent: question and owner names exactly as the name reader returned them (case included), type,
    class, TTL unchanged, RDATA verbatim unless the TYPE is name-bearing - whatever the CLASS - in which case it is the
    decompressed RDATA (contract text: props/C25.py _unpack_framing)."""
    return _c25()._unpack_framing(vc, [(1, 1, 0, 0)], False)


# =============================================================================================
# T2 (bounded): real DNSLayer driven sans-io; meaning compared by the independent reference decoder props/dnsref.py

ASSUMPTIONS = [
    "T1 abstracts domain_names.pack (uninterpreted packname, contract C25 name.pack), unpack_from_with_compression (returns (name, 2) at a pointer or raises struct.error, contract C25 name.compressed.activation), DNSMessage.packed and pack_message (uninterpreted wire bytes) where stated in the scenario",
    "decompression scenarios cover RDATA layouts [<=6 fixed octets][pointer][<=3 fixed octets] and [pointer][pointer][0|4 fixed octets] with fully symbolic octets, anywhere in a message; longer RDATA and names given as labels+pointer are covered bounded in T2",
    "which RDATA octets are 'part of a name' is type-specific (RFC layouts); T1 states it per layout, T2 per type via the reference decoder",
]
EXPLANATION = (
    "T1 proves, for all inputs of the stated shapes, the mechanisms the statement names: the type table against the RFC list of name-bearing types, "
    "RDATA without pointer-like octets is copied verbatim, a name given as a pointer is replaced in place by its uncompressed form with the surrounding "
    "fixed fields unchanged, two consecutive names are both expanded, pack_message framing, and that the layer sends exactly pack_message(decoded message) "
    "to the other side when no addon intervenes. That the re-encoded message *means* the same to an independent decoder is the composition of these with "
    "C25 (decode/encode) over whole messages; it is checked bounded in T2 by driving the real DNSLayer and comparing reference decodings."
)


def _forward(query_wire, response_wire, cproto, sproto):
    """Drive a fresh DNSLayer: client sends query_wire, (optionally) server answers response_wire. Returns what each side received."""
    import struct
    from mitmproxy.proxy.layers import dns as ldns
    from props import sansio
    opts = sansio.make_options()
    client = sansio.make_client()
    client.transport_protocol = cproto
    ctx = sansio.context_for(opts, client)
    ctx.server.address = ("192.0.2.53", 53)
    ctx.server.transport_protocol = sproto
    top = ldns.DNSLayer(ctx)
    d = sansio.Driver(top)
    d.start()
    frame = (lambda w, p: struct.pack("!H", len(w)) + w if p == "tcp" else w)
    d.data(ctx.client, frame(query_wire, cproto))
    to_server = d.bytes_to(ctx.server)
    to_client = b""
    if response_wire is not None:
        # the layer frames/deframes by the *client's* transport for both directions
        d.data(ctx.server, frame(response_wire, cproto))
        to_client = d.bytes_to(ctx.client)
    return to_server, to_client, d


def _deframe(data, proto):
    import struct
    if proto != "tcp":
        return [data] if data else []
    out = []
    while len(data) >= 2:
        n = struct.unpack_from("!H", data)[0]
        out.append(data[2:2 + n])
        data = data[2 + n:]
    return out


def dnsref_layout():
    from props import dnsref
    return dict(dnsref.LAYOUT)


def _cases(tier, rnd):
    """(class, query wire, response wire or None). class '' = no recorded finding applies; otherwise the recorded input class."""
    import struct
    from props.dnsref import header, question, rr, ptr, wire_name
    cases = []
    qnames = ["example.com", "a", "", "WWW.Example.ORG", "xn--mnchen-3ya.de", "x" * 63 + ".y", "_sip._tcp.example.net", "a.b.c.d.e.f"]
    qtypes = [1, 28, 16, 15, 6, 255, 65]
    for n in qnames:
        for t in qtypes:
            cases.append(("", header(0x1000 + len(cases), 0x0100, 1) + question(wire_name(n), t), None))
    Q = wire_name("example.com")   # at offset 12; "com" label at offset 20
    IDN = wire_name("xn--mnchen-3ya.de")
    P = ptr(12)

    def resp(qname_wire, records, ident=0x2222, qtype=1, extra_sections=(0, 0)):
        nan = len(records) - sum(extra_sections)
        return (header(ident, 0x0100, 1) + question(qname_wire, qtype),
                header(ident, 0x8180, 1, nan, *extra_sections) + question(qname_wire, qtype) + b"".join(records))

    plain = [
        rr(P, 1, b"\x5d\xb8\xd8\x22"), rr(P, 28, bytes(range(16))), rr(P, 16, b"\x05hello\x05world"), rr(P, 16, b"\x04\xc3\xa4\xc3\xb6"[:5]),
        rr(P, 5, b"\x03www" + P), rr(P, 5, wire_name("www.example.com")), rr(P, 2, b"\x03ns1" + ptr(20)), rr(P, 12, b"\x04host" + P),
        rr(P, 15, b"\x00\x0a\x04mail" + P), rr(P, 15, b"\x00\x14" + P), rr(P, 33, b"\x00\x01\x00\x02\x01\xbb\x03sip" + P),
        rr(P, 6, b"\x02ns" + P + b"\x0ahostmaster" + P + struct.pack("!IIIII", 2024010101, 7200, 3600, 1209600, 300)),
        rr(P, 6, P + P + struct.pack("!IIIII", 1, 2, 3, 4, 5)), rr(P, 14, b"\x01r" + P + b"\x01e" + P), rr(P, 17, b"\x05admin" + P + b"\x04info" + P),
        rr(P, 18, b"\x00\x01\x03afs" + P), rr(P, 35, b"\x00\x64\x00\x0a\x01u\x07E2U+sip\x00\x04repl" + P),
        rr(P, 65280, b"\x01\x02\x03"), rr(P, 99, b"\x0bv=spf1 -all"), rr(P, 13, b"\x03CPU\x02OS"), rr(P, 257, b"\x00\x05issueca.example"),
        rr(P, 65, b"\x00\x01\x00\x00\x01\x00\x03\x02h2"), rr(P, 41, b"", cls=4096, ttl=0), rr(P, 48, bytes([1, 1, 3, 8]) + bytes(range(40, 72))),
    ]
    for r in plain:
        cases.append(("",) + resp(Q, [r]))
    cases.append(("",) + resp(Q, plain[:6]))
    cases.append(("",) + resp(Q, [plain[0], plain[11], plain[2]], extra_sections=(1, 1)))
    cases.append(("",) + resp(wire_name("WWW.Example.ORG"), [rr(P, 5, b"\x03CDN" + ptr(16))]))
    cases.append(("",) + resp(IDN, [rr(P, 5, b"\x03www" + P)]))          # IDN owner, one compressed name: fine
    cases.append(("",) + resp(IDN, [rr(P, 1, b"\x01\x02\x03\x04")]))
    # ---- generated: every name-bearing layout x name encodings (uncompressed / pointer / labels+pointer) x fixed-field values < 0xC0
    import itertools
    name_forms = [wire_name("ns.example.com"), P, b"\x03sub" + P, b"\x01a\x01b" + ptr(20)]
    fixed_vals = {"2": [b"\x00\x0a", b"\xbf\x7f"], "4": [b"\x00\x00\x0e\x10", b"\x7f\xbf\x00\x01"], "18": [bytes([0, 1, 8, 2]) + b"\x00\x00\x0e\x10" + b"\x65\x00\x00\x00" + b"\x64\x00\x00\x00" + b"\x12\x34"],
                  "s": [b"\x03abc", b"\x00"], "*": [b"\x01\x02\x03", b""]}
    gen = []
    for typ, lay in sorted(dnsref_layout().items()):
        nn = sum(1 for f in lay if f == "n")
        for forms in itertools.product(range(len(name_forms)), repeat=nn):
            for fv in (0, 1):
                rd, k = b"", 0
                for f in lay:
                    if f == "n":
                        rd += name_forms[forms[k]]
                        k += 1
                    else:
                        vals = fixed_vals[f]
                        rd += vals[fv % len(vals)]
                gen.append(rr(P, typ, rd))
    rnd.shuffle(gen)
    for r in gen:
        cases.append(("",) + resp(Q, [r]))
    for i in range(0, min(len(gen), 120 if tier == "quick" else len(gen)), 4):
        cases.append(("",) + resp(Q, gen[i:i + 4]))
    # a compression pointer whose second octet is >= 0xC0 (target at offset 197): must be expanded like any other pointer
    pad = rr(P, 16, b"\x9b" + b"x" * 155)
    assert len(header(1, 0, 1) + question(Q, 1) + pad) == 197
    cases.append(("", header(0x2223, 0x0100, 1) + question(Q, 1),
                  header(0x2223, 0x8180, 1, 3) + question(Q, 1) + pad + rr(wire_name("t.example.org"), 1, b"\x01\x02\x03\x04") + rr(P, 5, ptr(197))))
    cases.append(("", header(0x2224, 0x0100, 1) + question(Q, 1),
                  header(0x2224, 0x8180, 1, 3) + question(Q, 1) + pad + rr(wire_name("t.example.org"), 1, b"\x01\x02\x03\x04") + rr(P, 15, b"\x00\x05\x02mx" + ptr(197))))
    # pointer c0 c0 (target 192) followed by a label of length 0x0c: the second pointer octet plus the next octet look like a pointer to offset 12
    pad2 = rr(P, 16, b"\x96" + b"x" * 150)
    assert len(header(1, 0, 1) + question(Q, 1) + pad2) == 192
    cases.append(("", header(0x2225, 0x0100, 1) + question(Q, 1),
                  header(0x2225, 0x8180, 1, 3) + question(Q, 1) + pad2 + rr(wire_name("t.example.org"), 1, b"\x01\x02\x03\x04") + rr(P, 14, ptr(192) + b"\x0cabcdefghijkl\x00")))
    # a message longer than 1 KiB with compression pointers whose targets lie beyond offset 1024 (all 14 offset bits matter)
    big = [rr(P, 16, b"".join(b"\xb4" + bytes([0x61 + (i % 26)]) * 180 for i in range(k, k + 2))) for k in (0, 2, 4)]   # 3 TXT records, > 1 KiB
    base = header(1, 0, 1) + question(Q, 1) + b"".join(big)
    assert len(base) > 1024
    far = len(base)   # owner name written out here: offset >= 1024
    glue = rr(wire_name("ns1.other-dns.net"), 1, b"\xc6\x33\x64\x01")
    far2 = far + 4    # 'other-dns.net' inside that owner name
    for tail_records in ([rr(P, 2, ptr(far))], [rr(ptr(far), 28, bytes(range(16)))], [rr(P, 15, b"\x00\x0a\x02mx" + ptr(far2))],
                         [rr(P, 6, ptr(far) + b"\x05admin" + ptr(far2) + struct.pack("!IIIII", 1, 2, 3, 4, 5))], [rr(b"\x03www" + ptr(far2), 5, ptr(far))]):
        for ident in (0x2230,):
            cases.append(("", header(ident, 0x0100, 1) + question(Q, 1),
                          header(ident, 0x8180, 1, 4 + len(tail_records)) + question(Q, 1) + b"".join(big) + glue + b"".join(tail_records)))
    # classes other than IN (CH, HS, mDNS cache-flush bit, ANY, NONE): name expansion depends on the TYPE only
    other = wire_name("ns2.elsewhere.net")
    for cls_ in (3, 4, 0x8001, 255, 254):
        o_at = len(header(1, 0, 1) + question(Q, 1)) + len(rr(P, 16, b"\x02hi", cls=cls_))
        first = rr(P, 16, b"\x02hi", cls=cls_) + rr(other, 1, b"\x01\x02\x03\x04", cls=cls_)
        for typ, rd in ((2, ptr(o_at)), (5, b"\x03www" + ptr(o_at + 4)), (12, ptr(o_at)), (15, b"\x00\x05" + ptr(o_at)), (33, b"\x00\x01\x00\x02\x01\xbb" + ptr(o_at)),
                        (6, ptr(o_at) + b"\x04root" + ptr(o_at + 4) + struct.pack("!IIIII", 1, 2, 3, 4, 5))):
            cases.append(("", header(0x2240, 0x0100, 1) + question(Q, typ, cls_),
                          header(0x2240, 0x8180, 1, 3) + question(Q, typ, cls_) + first + rr(P, typ, rd, cls=cls_)))
    # upper-/mixed-case names (dns-0x20): the case of every label is forwarded as sent, in queries, owner names and RDATA names
    MIX = wire_name("wWw.ExAmPlE.CoM")
    cases.append(("", header(0x2250, 0x0100, 1) + question(MIX, 1), header(0x2250, 0x8180, 1, 2) + question(MIX, 1) + rr(P, 5, b"\x03CdN" + ptr(16)) + rr(wire_name("CDN.ExAmPlE.CoM"), 1, b"\x01\x02\x03\x04")))
    cases.append(("", header(0x2251, 0x0100, 1) + question(MIX, 15), header(0x2251, 0x8180, 1, 1) + question(MIX, 15) + rr(P, 15, b"\x00\x0a" + wire_name("MaIl.Example.COM"))))
    # ---- recorded classes
    k1 = "txt_or_hinfo_rdata_with_octet>=0xc0"          # KF-C26-1
    cases.append((k1,) + resp(Q, [rr(P, 16, b"\x02\xc0\x0c")]))
    cases.append((k1,) + resp(Q, [rr(P, 16, b"\x03a\xc0\x0c")]))
    cases.append((k1,) + resp(Q, [rr(P, 13, b"\x02\xc0\x0c\x01x")]))
    k2 = "two_compressed_names_first_root_or_idn"        # KF-C26-2
    cases.append((k2,) + resp(IDN, [rr(P, 6, P + b"\x05admin" + P + struct.pack("!IIIII", 1, 2, 3, 4, 5))], qtype=6))
    cases.append((k2,) + resp(b"\x00", [rr(P, 6, P + P + struct.pack("!IIIII", 1, 2, 3, 4, 5))], qtype=6))
    cases.append((k2,) + resp(IDN, [rr(P, 14, P + P)]))
    k3 = "fixed_field_octet>=0xc0_in_name_bearing_type"  # KF-C26-3
    cases.append((k3,) + resp(Q, [rr(P, 15, b"\xc0\x0c\x04mail" + P)]))
    cases.append((k3,) + resp(Q, [rr(P, 6, Q + b"\x05admin" + Q + struct.pack("!IIIII", 0xC00C0000, 2, 3, 4, 5))]))
    cases.append((k3,) + resp(Q, [rr(P, 33, b"\x00\x01\xc0\x0c\x01\xbb\x03sip" + P)]))
    cases.append((k3,) + resp(Q, [rr(P, 24, bytes([0, 1, 8, 2]) + struct.pack("!III", 3600, 0xC00C0000, 5) + b"\x12\x34" + Q + b"\x01\x02\x03")]))
    k4 = "label_contains_dot"                            # KF-C25-2 seen through forwarding
    cases.append((k4, header(0x3333, 0x0100, 1) + question(b"\x03a.b\x03com\x00"), None))
    cases.append((k4, header(0x3334, 0x0100, 1) + question(b"\x01.\x00"), None))
    k5 = "labels_then_pointer_to_root"                   # KF-C25-3 seen through forwarding
    cases.append((k5,) + resp(b"\x00", [rr(b"\x03www" + P, 1, b"\x01\x02\x03\x04")], qtype=2))
    k6 = "label_with_invalid_ace_form"                   # KF-C25-1 seen through forwarding
    cases.append((k6, header(0x3335, 0x0100, 1) + question(b"\x04xn--\x03com\x00"), None))
    return cases


def bounded(tier, seed):
    import random
    from props import dnsref
    b = Bounded()
    rnd = random.Random(seed)
    b.rule = ("hand-built wire messages (queries over names incl. IDN/upper-case/63-octet labels/root; responses with compressed owner names and one RDATA per RFC layout: "
              "A AAAA TXT CNAME NS PTR MX SRV SOA MINFO RP AFSDB NAPTR SIG OPT HTTPS DNSKEY unknown; multi-record and multi-section messages; the recorded defect classes) "
              "x client/server transport in {udp,tcp}^2, forwarded through the real DNSLayer; the bytes received by the other side are decoded by the reference decoder and "
              "compared with the reference decoding of what was sent. distinct = (message, transports); non-trivial = reference decoder accepts the original")
    b.bound = "<= 6 records per message; one flow per layer instance"
    protos = [("udp", "udp"), ("tcp", "tcp"), ("udp", "tcp"), ("tcp", "udp")]
    for cls, qw, rw in _cases(tier, rnd):
        for cproto, sproto in protos:
            key = (qw, rw, cproto, sproto)
            suffix = ("." + cls) if cls else ""
            inp = {"class": cls or "plain", "query": qw.hex(), "response": rw.hex() if rw else None, "client": cproto, "server": sproto}
            try:
                ref_q = dnsref.parse_message(qw)[0]
                ref_r = dnsref.parse_message(rw)[0] if rw is not None else None
            except dnsref.RefError as e:
                b.fail("c26.generator_produces_wellformed_messages", inp, str(e))
                continue
            b.case(key, nontrivial=True)
            try:
                to_server, to_client, d = _forward(qw, rw, cproto, sproto)
            except Exception as e:
                b.fail("c26.forwarding_does_not_crash" + suffix, inp, f"{type(e).__name__}: {e}")
                continue
            got_q = _deframe(to_server, sproto)
            if len(got_q) != 1:
                b.fail("c26.query_forwarded_once" + suffix, inp, f"server received {len(got_q)} messages")
                continue
            try:
                fq = dnsref.parse_message(got_q[0])[0]
            except dnsref.RefError as e:
                b.fail("c26.forwarded_query_wellformed" + suffix, inp, f"{e}: {got_q[0].hex()}")
                continue
            if fq != ref_q:
                b.fail("c26.query_same_meaning" + suffix, inp, f"sent {ref_q} forwarded {fq}")
            if rw is None:
                continue
            got_r = _deframe(to_client, cproto)
            if len(got_r) != 1:
                b.fail("c26.response_forwarded_once" + suffix, inp, f"client received {len(got_r)} messages")
                continue
            try:
                fr = dnsref.parse_message(got_r[0])[0]
            except dnsref.RefError as e:
                b.fail("c26.forwarded_response_wellformed" + suffix, inp, f"{e}: {got_r[0].hex()}")
                continue
            if fr != ref_r:
                diff = [(x, y) for sx, sy in zip(ref_r[2], fr[2]) for x, y in zip(sx, sy) if x != y][:2]
                b.fail("c26.response_same_meaning" + suffix, inp, f"records differ (sent, forwarded): {diff}; header/question equal: {ref_r[:2] == fr[:2]}")
    return b
