"""C30 — QUIC streams are demultiplexed onto correctly paired streams."""
from pyvc.api import *

CLAIM = "proof"
R = "mitmproxy.proxy.layers.quic._raw_layers:RawQuicLayer"


def cls_index(is_client, is_unidirectional):
    # RFC 9000 §2.1: bit 0 = initiator (0 client, 1 server), bit 1 = direction (0 bidi, 1 uni)
    return If(is_unidirectional, 2, 0) + If(is_client, 0, 1)


@scenario("get_next_available_stream_id", functions=[R + ".get_next_available_stream_id"])
def s_alloc(vc):
    ids = [vc.sym_int(f"next{i}", lo=0) for i in range(4)]
    for i in range(4):
        vc.assume(ids[i] % 4 == i)                       # class invariant: next_stream_id[i] ≡ i (mod 4)
    is_client = vc.sym_bool("is_client")
    is_uni = vc.sym_bool("is_uni")
    lst = vc.list(ids)
    self_ = vc.new(R, next_stream_id=lst)
    out = vc.call(R + ".get_next_available_stream_id", self_, is_client, is_uni)
    vc.ensure("no_exception", out.ok)
    if not out.ok:
        return
    r = out.result
    post = self_.next_stream_id
    vc.ensure("bit.initiator", Iff(r % 2 == 1, Not(is_client)))
    vc.ensure("bit.direction", Iff((r // 2) % 2 == 1, is_uni))
    vc.ensure("len", len_(post) == 4)
    idx = cls_index(is_client, is_uni)
    for j in range(4):
        vc.ensure(f"advance_or_frame[{j}]", If(idx == j, And(post[j] == r + 4, r == ids[j]), post[j] == ids[j]))
        vc.ensure(f"inv.class[{j}]", post[j] % 4 == j)
    # freshness: every id handed out earlier in class j is < next[j] (ghost invariant); the result equals old next[idx]
    # and the new next[idx] is larger, so the result is never handed out again.
    for j in range(4):
        vc.ensure(f"fresh[{j}]", Implies(idx == j, post[j] > r))
