"""C30 — QUIC streams are demultiplexed onto correctly paired streams."""
from pyvc.api import *

CLAIM = "proof"
R = "mitmproxy.proxy.layers.quic._raw_layers:RawQuicLayer"


def cls_index(is_client, is_unidirectional):
    # RFC 9000 §2.1: bit 0 = initiator (0 client, 1 server), bit 1 = direction (0 bidi, 1 uni)
    return If(is_unidirectional, 2, 0) + If(is_client, 0, 1)


@scenario("get_next_available_stream_id", functions=[R + ".get_next_available_stream_id"])
def s_alloc(vc):
    ids = [vc.sym_int(f"next{i}", lo=0) for i in range(4)]
    for i in range(4):
        vc.assume(ids[i] % 4 == i)                       # class invariant: next_stream_id[i] ≡ i (mod 4)
    is_client = vc.sym_bool("is_client")
    is_uni = vc.sym_bool("is_uni")
    lst = vc.list(ids)
    self_ = vc.new(R, next_stream_id=lst)
    out = vc.call(R + ".get_next_available_stream_id", self_, is_client, is_uni)
    vc.ensure("no_exception", out.ok)
    if not out.ok:
        return
    r = out.result
    post = self_.next_stream_id
    vc.ensure("bit.initiator", Iff(r % 2 == 1, Not(is_client)))
    vc.ensure("bit.direction", Iff((r // 2) % 2 == 1, is_uni))
    vc.ensure("len", len_(post) == 4)
    idx = cls_index(is_client, is_uni)
    for j in range(4):
        vc.ensure(f"advance_or_frame[{j}]", If(idx == j, And(post[j] == r + 4, r == ids[j]), post[j] == ids[j]))
        vc.ensure(f"inv.class[{j}]", post[j] % 4 == j)
    # freshness: every id handed out earlier in class j is < next[j] (ghost invariant); the result equals old next[idx]
    # and the new next[idx] is larger, so the result is never handed out again.
    for j in range(4):
        vc.ensure(f"fresh[{j}]", Implies(idx == j, post[j] > r))


# ---------------------------------------------------------------------------------------------
# pairing: commands of a stream layer are translated onto the paired QUIC stream only
from props.prelude import *

AIOQUIC = ["/venv/lib/python3.12/site-packages/aioquic"]
Q = "mitmproxy.proxy.layers.quic._raw_layers:QuicStreamLayer"
ASSUMPTIONS = [
    "aioquic.quic.connection.stream_is_client_initiated/stream_is_unidirectional are interpreted from their real source (not trusted)",
    "child layers (Layer.handle_event of the stream's layer stack) are abstracted to a scripted list of commands",
]


def mk_raw(vc, cid, sid, cstate, sstate):
    """RawQuicLayer with one registered stream layer (client stream id cid, server stream id sid or None)."""
    qc = mk_client(vc, "qclient", transport_protocol="udp")
    qs = mk_server(vc, "qserver", transport_protocol="udp", timestamp_start=2.0)
    ctx = mk_context(vc, qc, qs)
    sc = mk_client(vc, "sclient", state=cstate)
    ss = mk_server(vc, "sserver", state=sstate, timestamp_start=None if sid is None else 2.0)
    child = vc.new(Q, client=sc, server=ss, _client_stream_id=cid, _server_stream_id=sid, child_layer=None,
                   context=mk_context(vc, sc, ss), debug=None, _paused=None, _paused_event_queue=None)
    ids = [vc.sym_int(f"next{i}", lo=0) for i in range(4)]
    for i in range(4):
        vc.assume(ids[i] % 4 == i)
    raw = vc.new(R, context=ctx, force_raw=True, next_stream_id=vc.list(ids), client_stream_ids=vc.dict([(cid, child)]),
                 server_stream_ids=vc.dict([] if sid is None else [(sid, child)]), command_sources=vc.dict([]),
                 connections=vc.dict([]), datagram_layer=None, debug=None, _paused=None, _paused_event_queue=None)
    return raw, child, qc, qs, sc, ss, ids


@scenario("event_to_child.send_data", functions=[R + ".event_to_child"], extra_inline_roots=AIOQUIC)
def s_send(vc):
    from mitmproxy.connection import ConnectionState as S
    to_client = vc.case("to_client", [True, False])
    cid = vc.sym_int("cid", lo=0)
    sid = vc.sym_int("sid", lo=0)
    cstate, sstate = conn_state(vc, "cstate"), conn_state(vc, "sstate")
    raw, child, qc, qs, sc, ss, ids = mk_raw(vc, cid, sid, cstate, sstate)
    data = vc.sym_bytes("data")
    cmd = vc.new("mitmproxy.proxy.commands:SendData", connection=sc if to_client else ss, data=data, blocking=False)
    vc.summary("mitmproxy.proxy.layer:Layer.handle_event", lambda v, self_, ev: v.gen([cmd]))
    ev = vc.new("mitmproxy.proxy.events:DataReceived", connection=ss if to_client else sc, data=b"x")
    out = vc.call(R + ".event_to_child", raw, child, ev)
    vc.ensure("no_exception", out.ok)
    if not out.ok:
        return
    st = cstate if to_client else sstate
    can_write = flag_has(st, S.CAN_WRITE)
    if vc.branch(can_write):
        vc.ensure("one_quic_send", len(out.trace) == 1 and is_cmd(out.trace[0], "SendQuicStreamData"))
        if len(out.trace) == 1:
            c = out.trace[0]
            vc.ensure("on_paired_connection", c.connection is (qc if to_client else qs))
            vc.ensure("on_paired_stream", c.stream_id == (cid if to_client else sid))
            vc.ensure("same_bytes", c.data == data)
            vc.ensure("no_fin", vc.eq(c.end_stream, False))
    else:
        vc.ensure("nothing_after_close", len(out.trace) == 0)


@scenario("handle_event.stream_reset.reaches_the_paired_stream_as_reset", functions=[R + "._handle_event"], extra_inline_roots=AIOQUIC)
def s_reset(vc):
    """A reset of one stream arrives on the *paired* stream of the other connection as a reset carrying the same error code -
    not as a clean end-of-stream - for every pair of ids (client-side and server-side ids differ as soon as streams are
    opened out of order or initiated by the server)."""
    from mitmproxy.connection import ConnectionState as S
    from_client = vc.case("reset_from", ["client", "server"]) == "client"
    cid = vc.sym_int("cid", lo=0)
    sid = vc.sym_int("sid", lo=0)
    code = vc.sym_int("error_code", lo=0)
    raw, child, qc, qs, sc, ss, ids = mk_raw(vc, cid, sid, S.OPEN, S.OPEN)
    other_q, other_sid = (qs, sid) if from_client else (qc, cid)
    fin = vc.new("mitmproxy.proxy.layers.quic._commands:SendQuicStreamData", connection=other_q, stream_id=other_sid, data=b"", end_stream=True)
    log = vc.new("mitmproxy.proxy.commands:Log", message="closing", level=20)
    calls = []

    def closes(v, self_, stream_layer, client):
        calls.append((stream_layer, client))
        return v.gen([log, fin])          # what closing the incoming half produces: the child's half-close, translated to a FIN

    vc.summary(R + ".close_stream_layer", closes)
    ev = vc.new("mitmproxy.proxy.layers.quic._events:QuicStreamReset", connection=qc if from_client else qs, stream_id=cid if from_client else sid, error_code=code)
    out = vc.call(R + "._handle_event", raw, ev)
    vc.ensure("no_exception", out.ok)
    if not out.ok:
        return
    vc.ensure("incoming_half_of_this_stream_closed", len(calls) == 1 and calls[0][0] is child and vc.eq(calls[0][1], from_client))
    resets = [c for c in out.trace if is_cmd(c, "ResetQuicStream")]
    fins = [c for c in out.trace if is_cmd(c, "SendQuicStreamData")]
    vc.ensure("one_reset_no_clean_fin", len(resets) == 1 and len(fins) == 0)
    if len(resets) == 1:
        r = resets[0]
        vc.ensure("reset.on_paired_connection", r.connection is other_q)
        vc.ensure("reset.on_paired_stream", r.stream_id == other_sid)
        vc.ensure("reset.same_error_code", r.error_code == code)
    vc.ensure("other_commands_passed_on", len(out.trace) == 2 and out.trace[0] is log)


@scenario("event_to_child.open_connection", functions=[R + ".event_to_child", R + ".get_next_available_stream_id", Q + ".open_server_stream"], extra_inline_roots=AIOQUIC)
def s_open(vc):
    from mitmproxy.connection import ConnectionState as S
    cid = vc.sym_int("cid", lo=0)
    raw, child, qc, qs, sc, ss, ids = mk_raw(vc, cid, None, S.OPEN, S.CLOSED)
    cmd = vc.new("mitmproxy.proxy.commands:OpenConnection", connection=ss, blocking=True)
    calls = []

    def child_events(v, self_, ev):
        calls.append(ev)
        return v.gen([cmd] if len(calls) == 1 else [])

    vc.summary("mitmproxy.proxy.layer:Layer.handle_event", child_events)
    ev = vc.new("mitmproxy.proxy.events:DataReceived", connection=sc, data=b"x")
    out = vc.call(R + ".event_to_child", raw, child, ev)
    vc.ensure("no_exception", out.ok)
    if not out.ok:
        return
    sid = child._server_stream_id
    vc.ensure("server_stream_opened", not isnone(sid))
    if isnone(sid):
        return
    vc.ensure("same_directionality", Iff((sid // 2) % 2 == 1, (cid // 2) % 2 == 1))
    vc.ensure("client_initiated_on_server_conn", sid % 2 == 0)
    vc.ensure("fresh_id", Or(*[And(sid == ids[j], raw.next_stream_id[j] == ids[j] + 4) for j in range(4)]))
    reg = raw.server_stream_ids
    items = reg.items if vc.mode == "sym" else list(reg.items())
    vc.ensure("registered_once", len(items) == 1 and items[0][1] is child and vc.eq(items[0][0], sid))
    vc.ensure("completion_delivered_to_same_child", len(calls) == 2 and isa(calls[1], _cls("mitmproxy.proxy.events:OpenConnectionCompleted")) and calls[1].command is cmd and isnone(calls[1].reply))
    vc.ensure("open_not_passed_upward", len(out.trace) == 0)


@scenario("open_server_stream.direction", functions=[Q + ".open_server_stream"], extra_inline_roots=AIOQUIC)
def s_open_state(vc):
    """RFC 9000 §2.1: a unidirectional stream carries data only from its initiator to the peer. On the server connection
    mitmproxy is the QUIC client, so the virtual server connection of a stream is writable-only for a client-initiated
    unidirectional stream, readable-only for a server-initiated one, and fully open for bidirectional streams. (A wrong state
    here makes end-of-stream / reset signals go back to the sender's own receive-only stream.)"""
    from mitmproxy.connection import ConnectionState as S
    cid = vc.sym_int("cid", lo=0)
    sid = vc.sym_int("sid", lo=0)
    raw, child, qc, qs, sc, ss, ids = mk_raw(vc, cid, None, S.OPEN, S.CLOSED)
    out = vc.call(Q + ".open_server_stream", child, sid)
    vc.ensure("no_exception", out.ok)
    if not out.ok:
        return
    vc.ensure("server_stream_id_recorded", child._server_stream_id == sid)
    uni = (sid // 2) % 2 == 1
    client_initiated = sid % 2 == 0
    st = ss.state
    vc.ensure("bidi.open", Implies(Not(uni), vc.eq(st, S.OPEN)))
    vc.ensure("uni.client_initiated.write_only", Implies(And(uni, client_initiated), vc.eq(st, S.CAN_WRITE)))
    vc.ensure("uni.server_initiated.read_only", Implies(And(uni, Not(client_initiated)), vc.eq(st, S.CAN_READ)))
    vc.ensure("server_connection_started", not isnone(ss.timestamp_start))


def _dict_items(vc, d):
    return list(d.items) if vc.mode == "sym" else list(d.items())


@scenario("close_stream_layer.closes_one_half_and_keeps_the_pairing", functions=[R + ".close_stream_layer"], extra_inline_roots=AIOQUIC)
def s_close_half(vc):
    """Closing the incoming half of one side of a stream: that virtual connection loses CAN_READ and nothing else, the stream
    layer sees one ConnectionClosed (once per side), and the stream stays registered under both of its ids whatever the states
    are afterwards - 'exactly one server stream per client stream' must survive late events (a RESET_STREAM after a FIN, a
    peer's data after our side has finished): a stream that is forgotten is paired a second time with a new upstream stream."""
    from mitmproxy.connection import ConnectionState as S
    client = vc.case("closing_side", ["client", "server"]) == "client"
    already = vc.case("already_ended", [False, True])
    cid = vc.sym_int("cid", lo=0)
    sid = vc.sym_int("sid", lo=0)
    cstate, sstate = conn_state(vc, "cstate"), conn_state(vc, "sstate")
    raw, child, qc, qs, sc, ss, ids = mk_raw(vc, cid, sid, cstate, sstate)
    conn, other, st, ost = (sc, ss, cstate, sstate) if client else (ss, sc, sstate, cstate)
    if already:
        conn.timestamp_end = 5.0
    seen = []
    vc.summary("mitmproxy.proxy.layer:Layer.handle_event", lambda v, self_, ev: seen.append((self_, ev)) or v.gen([]))
    vc.summary("time:time", lambda v: v.lift(9.0))
    out = vc.call(R + ".close_stream_layer", raw, child, client)
    vc.ensure("no_exception", out.ok)
    if not out.ok:
        return
    vc.ensure("incoming_half_closed", And(Not(flag_has(conn.state, S.CAN_READ)), Iff(flag_has(conn.state, S.CAN_WRITE), flag_has(st, S.CAN_WRITE))))
    vc.ensure("other_side_untouched", vc.eq(other.state, ost))
    if already:
        vc.ensure("closed_event_only_once", len(seen) == 0)
    else:
        vc.ensure("child_told_once", len(seen) == 1 and seen[0][0] is child and is_cmd(seen[0][1], "ConnectionClosed") and seen[0][1].connection is conn)
    ci, si = _dict_items(vc, raw.client_stream_ids), _dict_items(vc, raw.server_stream_ids)
    vc.ensure("still_registered_under_client_id", len(ci) == 1 and ci[0][1] is child and ci[0][0] == cid)
    vc.ensure("still_registered_under_server_id", len(si) == 1 and si[0][1] is child and si[0][0] == sid)
    vc.ensure("ids_unchanged", And(child._client_stream_id == cid, child._server_stream_id == sid))


@scenario("handle_event.connection_closed.closes_the_side_that_closed", functions=[R + "._handle_event"], extra_inline_roots=AIOQUIC)
def s_conn_closed(vc):
    """When one of the two QUIC connections closes, every stream's virtual connection on *that* side (and only that side)
    becomes unwritable and has its incoming half closed, so that nothing a stream layer sends afterwards is translated
    into a command on the closed QUIC connection; the other side of every stream is left as it was."""
    from mitmproxy.connection import ConnectionState as S
    from_client = vc.case("closed", ["client", "server"]) == "client"
    other_open = vc.case("other_connection_open", [True, False])
    cid = vc.sym_int("cid", lo=0)
    sid = vc.sym_int("sid", lo=0)
    cstate, sstate = conn_state(vc, "cstate"), conn_state(vc, "sstate")
    raw, child, qc, qs, sc, ss, ids = mk_raw(vc, cid, sid, cstate, sstate)
    (qs if from_client else qc).state = S.OPEN if other_open else S.CLOSED
    dg = vc.new("props.C30:DatagramStub")
    raw.datagram_layer = dg
    raw.connections = vc.dict([(sc, child), (ss, child), (qc, dg), (qs, dg)])
    calls = []

    def closes(v, self_, stream_layer, client):
        calls.append((stream_layer, client))
        return v.gen([])

    vc.summary(R + ".close_stream_layer", closes)
    vc.summary("mitmproxy.proxy.layer:Layer.handle_event", lambda v, self_, ev: v.gen([]))
    vc.summary("props.C30:_dg_point", lambda v, self_, ev: v.gen([]))
    ev = vc.new("mitmproxy.proxy.layers.quic._events:QuicConnectionClosed", connection=qc if from_client else qs, error_code=0, frame_type=None, reason_phrase="bye")
    out = vc.call(R + "._handle_event", raw, ev)
    vc.ensure("no_exception", out.ok)
    if not out.ok:
        return
    mine, theirs, st, ost = (sc, ss, cstate, sstate) if from_client else (ss, sc, sstate, cstate)
    vc.ensure("closed_side_unwritable", Not(flag_has(mine.state, S.CAN_WRITE)))
    vc.ensure("closed_side_read_flag_left_to_close_stream_layer", Iff(flag_has(mine.state, S.CAN_READ), flag_has(st, S.CAN_READ)))
    vc.ensure("other_side_untouched", vc.eq(theirs.state, ost))
    vc.ensure("incoming_half_of_the_closed_side_closed_once", len(calls) == 1 and calls[0][0] is child and vc.eq(calls[0][1], from_client))
    closes_ = [c for c in out.trace if is_cmd(c, "CloseQuicConnection")]
    if other_open:
        vc.ensure("close_relayed_to_the_other_connection", len(closes_) == 1 and closes_[0].connection is (qs if from_client else qc))
    else:
        vc.ensure("no_close_on_a_closed_connection", len(closes_) == 0)


class DatagramStub:
    """the datagram layer of RawQuicLayer (a UDPLayer in the real stack): abstracted, its commands are scripted"""

    def handle_event(self, event):
        return _dg_point(self, event)


def _dg_point(self, event):
    raise NotImplementedError


def _cls(ref):
    from pyvc.vc import resolve_ref
    return resolve_ref(ref)[2]


# =============================================================================================
# T2: the real RawQuicLayer (force_raw) under all interleavings of stream events (bounded)

def bounded(tier, seed):
    import itertools
    from mitmproxy.proxy.layers.quic import _raw_layers as RL, _events as QE, _commands as QC
    from mitmproxy.proxy import events, commands
    from mitmproxy.connection import ConnectionState
    from props import sansio
    from aioquic.quic.connection import stream_is_unidirectional, stream_is_client_initiated

    b = Bounded()
    depth = 4 if tier == "quick" else 5   # 12^5 = 248 832 sequences (12^6 would be 3 million)
    b.rule = ("event sequences over {data/fin/reset} x {client streams 0 (bidi), 2 (uni), server streams 1 (bidi), 3 (uni)} fed to the real RawQuicLayer(force_raw=True); "
              "checked: every SendQuicStreamData/Reset goes to the other connection on a stream of the same directionality, one peer stream per stream, allocated ids unique with correct bits; "
              "distinct = sequence; non-trivial = at least two different streams")
    b.bound = f"sequences of length <= {depth} over 12 symbols"
    b.exhaustive = True
    syms = [(sid, k) for sid in (0, 2, 1, 3) for k in ("d", "f", "r")]
    for n in range(1, depth + 1):
        for seq in itertools.product(syms, repeat=n):
            ctx = sansio.context_for()
            ctx.client.transport_protocol = "udp"
            ctx.server.address = ("example.com", 443)
            ctx.server.transport_protocol = "udp"
            raw = RL.RawQuicLayer(ctx, force_raw=True)
            d = sansio.Driver(raw)
            d.start()
            pair = {}  # (side, stream id) -> (other side, stream id)
            inp = {"seq": [list(s) for s in seq]}
            ok = True
            finished = set()
            payload_no = 0
            for sid, k in seq:
                from_client = stream_is_client_initiated(sid)
                conn = ctx.client if from_client else ctx.server
                if (from_client, sid) in finished:
                    continue
                mark = len(d.log)
                payload_no += 1
                data = bytes([payload_no])
                if k == "d":
                    d.feed(QE.QuicStreamDataReceived(conn, sid, data, False))
                elif k == "f":
                    d.feed(QE.QuicStreamDataReceived(conn, sid, data, True))
                    finished.add((from_client, sid))
                else:
                    d.feed(QE.QuicStreamReset(conn, sid, 7))
                    finished.add((from_client, sid))
                other = ctx.server if from_client else ctx.client
                for c in d.log[mark:]:
                    if isinstance(c, (QC.SendQuicStreamData, QC.ResetQuicStream)) and stream_is_unidirectional(c.stream_id):
                        # we may only send on a unidirectional stream that our side of that connection initiated
                        ours = (not stream_is_client_initiated(c.stream_id)) if c.connection is ctx.client else stream_is_client_initiated(c.stream_id)
                        if not ours:
                            b.fail("quic.no_send_on_receive_only_stream", inp, f"{c!r}")
                    if isinstance(c, (QC.SendQuicStreamData, QC.ResetQuicStream)):
                        if stream_is_unidirectional(c.stream_id) != stream_is_unidirectional(sid):
                            b.fail("quic.same_directionality", inp, f"{c!r} for event on {sid}")
                        if isinstance(c, QC.SendQuicStreamData) and c.data and c.connection is not other:
                            b.fail("quic.data_only_to_peer", inp, f"{c!r}")
                        if c.connection is other:
                            key = (from_client, sid)
                            if key in pair and pair[key] != c.stream_id:
                                b.fail("quic.one_peer_stream", inp, f"stream {sid} mapped to {pair[key]} and {c.stream_id}")
                            pair.setdefault(key, c.stream_id)
                            if stream_is_client_initiated(c.stream_id) != from_client:
                                b.fail("quic.initiator_bit", inp, f"{c!r}")
                        if isinstance(c, QC.SendQuicStreamData) and c.connection is other and c.data and c.data != data:
                            b.fail("quic.exact_bytes", inp, f"{c!r} expected {data!r}")
            vals = list(pair.values())
            keys = list(pair.keys())
            for i in range(len(keys)):
                for j in range(i + 1, len(keys)):
                    if keys[i][0] == keys[j][0] and vals[i] == vals[j]:
                        b.fail("quic.unique_ids", inp, f"{pair}")
            b.case(seq, nontrivial=len({s for s, _ in seq}) > 1)
    return b
