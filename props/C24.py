"""C24 — upstream credentials are only sent to the upstream proxy or the reverse target.

Contracts (from the statement):

 * UpstreamAuth.requestheaders adds a credential header  <=>  upstream_auth is set and
        (upstream mode, the request is plain HTTP *and is written to the upstream proxy itself*  -> Proxy-Authorization)
     or (reverse mode                                                                          -> Authorization);
   the added value is the configured credential; every other header, and the header itself in all other cases, is untouched.
   "Written to the proxy itself": HttpLayer.get_connection sends everything else through a CONNECT tunnel; a request that
   arrives inside a client CONNECT tunnel is in origin-form (empty authority) and is forwarded through such a tunnel.
 * UpstreamAuth.http_connect_upstream adds Proxy-Authorization to the CONNECT flow iff upstream_auth is set (nothing else).
 * parse_upstream_auth(auth) = b"Basic " + base64(utf8(auth)) when the specification is accepted, OptionsError otherwise.
 * HttpUpstreamProxy.start_handshake: exactly one CONNECT flow, created on the tunnel connection, hooked once, assembled
   after the hook, and sent only as SendData(tunnel_connection, ...); with send_connect == False nothing is sent.
"""
from pyvc.api import *
from props.prelude import *

CLAIM = "other"
EXPLANATION = ("T1 proves the addon's decision table, header frame and credential value for all modes / schemes / header sets, and that the CONNECT request of the upstream "
               "tunnel layer goes only to the tunnel connection (one recorded finding: the addon cannot tell a request that travels through a tunnel from one written to the "
               "proxy). Which connection finally carries a request is decided by HttpLayer.get_connection + the tunnel layers: that composition is checked by bounded sans-io "
               "runs of the real layers over all modes x request kinds x 2 requests, inspecting the bytes written to each upstream connection (T2)")
UA = "mitmproxy.addons.upstream_auth:"
MS = "mitmproxy.proxy.mode_specs:"
UP = "mitmproxy.proxy.layers.http._upstream_proxy:HttpUpstreamProxy"
MODE_SPECS = {"RegularMode": "regular", "UpstreamMode": "upstream:http://up:3128", "TransparentMode": "transparent", "ReverseMode": "reverse:http://target:80",
              "Socks5Mode": "socks5", "LocalMode": "local", "WireGuardMode": "wireguard", "DnsMode": "dns"}
ASSUMPTIONS = [
    "pre-state of the requestheaders contract: a request received inside a client CONNECT tunnel is in origin-form (request.authority == b'') and a request the client sent to the proxy directly is in absolute-form (authority non-empty) — what Http1Server/HttpStream produce for HTTP/1 (checked end-to-end in T2)",
    "base64.b64encode and UTF-8 encoding are uninterpreted (T1); re.compile('.+:').search is an uninterpreted predicate of the text (its meaning is checked in T2 against 'at least one non-newline character before a colon')",
    "http1.assemble_request is summarised by a ghost function of the request object (C01 contracts it); time.time and flow ids are opaque",
    "HttpLayer.get_connection (which requests get a CONNECT tunnel) is covered by T2 only",
]


def mk_mode(vc, name):
    f = dict(full_spec=MODE_SPECS[name], data=MODE_SPECS[name].partition(":")[2], custom_listen_host=None, custom_listen_port=None)
    if name == "UpstreamMode":
        f.update(scheme="http", address=("up", 3128))
    if name == "ReverseMode":
        f.update(scheme="http", address=("target", 80))
    return vc.new(MS + name, **f)


def raw_fields(vc, msg):
    h = vc.getattr(msg, "headers")
    return h.fields["fields"] if vc.mode == "sym" else h.fields


def mk_flow24(vc, mode, fields, scheme, authority):
    from props.httpstream import mk_request, mk_headers, mk_flow
    client = mk_client(vc, proxy_mode=mk_mode(vc, mode))
    server = mk_server(vc)
    req = mk_request(vc, headers=mk_headers(vc, fields), scheme=scheme, authority=authority)
    return mk_flow(vc, client, server, req), req


def names_lower(vc, fields):
    out = []
    for f in (fields.items if vc.mode == "sym" else fields):
        n = f.items[0].concrete() if vc.mode == "sym" else f[0]
        out.append(n.lower())
    return out


def value_of(vc, fields, name):
    for f in (fields.items if vc.mode == "sym" else fields):
        n = f.items[0].concrete() if vc.mode == "sym" else f[0]
        if n.lower() == name.lower():
            return f.items[1] if vc.mode == "sym" else f[1]
    return None


@scenario("requestheaders", functions=[UA + "UpstreamAuth.requestheaders"])
def s_requestheaders(vc):
    mode = vc.case("mode", list(MODE_SPECS))
    scheme = vc.case("scheme", [b"http", b"https", b""])
    in_tunnel = vc.case("inside_client_connect_tunnel", [False, True])
    auth = vc.opt("auth", vc.sym_bytes("auth_v"))
    pre = vc.case("client_supplied_header", [None, b"Proxy-Authorization", b"authorization"])
    fields = [(b"Host", b"example.com"), (b"Accept", vc.sym_bytes("accept_v"))]
    client_v = vc.sym_bytes("client_v")
    if pre is not None:
        fields.insert(1, (pre, client_v))
    # request shape as the HTTP/1 layers produce it: origin-form inside a tunnel, absolute-form when sent to the proxy
    authority = b"" if (in_tunnel or mode not in ("RegularMode", "UpstreamMode")) else b"example.com"
    flow, req = mk_flow24(vc, mode, fields, scheme, authority)
    self_ = vc.new(UA + "UpstreamAuth", auth=auth)
    out = vc.call(UA + "UpstreamAuth.requestheaders", self_, flow)
    vc.ensure("total", out.ok)
    if not out.ok:
        return
    has_auth = vc.branch(And(Not(isnone(auth)), len_(_val(vc, auth)) > 0))
    to_proxy = mode == "UpstreamMode" and scheme == b"http" and not in_tunnel      # written to the upstream proxy itself
    to_target = mode == "ReverseMode"
    after = raw_fields(vc, req)
    if has_auth and to_proxy:
        _check_added(vc, "upstream", after, fields, b"Proxy-Authorization", _val(vc, auth))
    elif has_auth and to_target:
        _check_added(vc, "reverse", after, fields, b"Authorization", _val(vc, auth))
    else:
        # nothing may be added: the credentials must not travel with this request
        K = has_auth and mode == "UpstreamMode" and scheme == b"http" and in_tunnel
        vc.ensure_kf("no_credentials_added", vc.eq(after, tuple(fields)), "KF-C24-1", K)


def _val(vc, u):
    if vc.mode == "native":
        return u if u is not None else b""
    if isinstance(u, SUnion):
        return [v for c, v in u.alts if isinstance(v, SBytes)][0]
    return u if isinstance(u, SBytes) else SBytes(b"")


def _check_added(vc, tag, after, fields, name, value):
    others_before = [f for f in fields if f[0].lower() != name.lower()]
    names = names_lower(vc, after)
    vc.ensure(tag + ".header_present_once", names.count(name.lower()) == 1)
    v = value_of(vc, after, name)
    vc.ensure(tag + ".value_is_configured_credential", v is not None and v == value)
    rest = [f for f, n in zip((after.items if vc.mode == "sym" else after), names) if n != name.lower()]
    vc.ensure(tag + ".other_headers_untouched", vc.eq(tuple(rest), tuple(others_before)))


@scenario("http_connect_upstream", functions=[UA + "UpstreamAuth.http_connect_upstream"])
def s_connect_upstream(vc):
    auth = vc.opt("auth", vc.sym_bytes("auth_v"))
    fields = [(b"Host", b"example.com:443")]
    flow, req = mk_flow24(vc, "UpstreamMode", fields, b"", b"example.com:443")
    self_ = vc.new(UA + "UpstreamAuth", auth=auth)
    out = vc.call(UA + "UpstreamAuth.http_connect_upstream", self_, flow)
    vc.ensure("total", out.ok)
    if not out.ok:
        return
    after = raw_fields(vc, req)
    if vc.branch(And(Not(isnone(auth)), len_(_val(vc, auth)) > 0)):
        _check_added(vc, "connect", after, fields, b"Proxy-Authorization", _val(vc, auth))
    else:
        vc.ensure("no_auth.untouched", vc.eq(after, tuple(fields)))


def _re_hit(vc, text):
    if vc.mode == "native":
        import re
        return re.compile(".+:").search(text) is not None
    import re, z3
    from pyvc import lib, libx_tools
    return SBool(lib.uf("re_search", z3.StringSort(), z3.StringSort(), z3.BoolSort())(libx_tools._pat_key(re.compile(".+:")), text.t))


def _register_oracles():
    import re
    from pyvc import lib
    def rs(key, s):
        pat, _, fl = key.rpartition("/")
        import ast
        return re.compile(ast.literal_eval(pat), int(fl)).search(s) is not None
    lib.UF_ORACLES.setdefault("re_search", rs)


_register_oracles()


@scenario("parse_upstream_auth", functions=[UA + "parse_upstream_auth"], candidates=[{"auth": a} for a in ("user:pass", "u:", ":p", "nocolon", "", "ü:p", "a\n:b")])
def s_parse(vc):
    from props.C20 import utf8, b64
    auth = vc.sym_str("auth")
    out = vc.call(UA + "parse_upstream_auth", auth)
    if vc.branch(_re_hit(vc, auth)):
        enc = utf8(vc, auth)                      # requires auth encodable
        cred = b64(vc, enc)
        vc.ensure("accepted.total", out.ok)
        if out.ok:
            vc.ensure("accepted.value", out.result == b"Basic " + cred)
    else:
        vc.ensure("rejected", not out.ok)
        if not out.ok:
            vc.ensure("rejected.OptionsError", out.raised_type() is _options_error())


def _options_error():
    from mitmproxy import exceptions
    return exceptions.OptionsError


# ---------------------------------------------------------------------------------------------
# HttpUpstreamProxy.start_handshake

@scenario("start_handshake", functions=[UP + ".start_handshake"])
def s_start_handshake(vc):
    send_connect = vc.case("send_connect", [True, False])
    host_kind = vc.case("host", ["name", "ipv4", "ipv6"])
    host = {"name": "example.com", "ipv4": "93.184.216.34", "ipv6": "2001:db8::1"}[host_kind]
    port = vc.sym_int("port", lo=1, hi=65535)
    send_host = vc.sym_bool("http_connect_send_host_header")
    client = mk_client(vc)
    conn = mk_server(vc, address=(host, port), via=("http", ("up", 3128)))
    tunnel = mk_server(vc, name="tunnel", address=("up", 3128))
    opts = mk_options(vc, http_connect_send_host_header=send_host)
    ctx = mk_context(vc, client, conn, opts)
    child = vc.new("mitmproxy.proxy.layer:NextLayer", context=ctx, debug=None, _paused=None, _paused_event_queue=None)
    lyr = vc.new(UP, context=ctx, tunnel_connection=tunnel, conn=conn, send_connect=send_connect, child_layer=child, _event_queue=vc.list([]), command_to_reply_to=None,
                 tunnel_state=_establishing(), debug=None, _paused=None, _paused_event_queue=None)
    assembled = []

    def assemble(v, request):
        assembled.append(request)
        return v.lift(b"<assembled>") if v.mode == "sym" else b"<assembled>"

    vc.summary("mitmproxy.net.http.http1.assemble:assemble_request", assemble)
    vc.summary("mitmproxy.proxy.layer:NextLayer.handle_event", lambda v, self_, ev: v.gen([v.ghost("child_event", self_, ev)]))
    seen = []

    def on_yield(cmd):
        if is_cmd(cmd, "HttpConnectUpstreamHook"):
            seen.append((cmd, len(assembled)))      # how many requests had been assembled when the hook ran

    out = vc.call(UP + ".start_handshake", lyr, on_yield=on_yield)
    vc.ensure("total", out.ok)
    if not out.ok:
        return
    tr = [c for c in out.trace if not isinstance(c, (STuple, tuple))]
    kinds = trace_kinds(tr)
    if not send_connect:
        vc.ensure("no_connect.nothing_sent", "SendData" not in kinds and "HttpConnectUpstreamHook" not in kinds)
        return
    vc.ensure("connect.trace", kinds == ["HttpConnectUpstreamHook", "SendData"])
    if kinds != ["HttpConnectUpstreamHook", "SendData"]:
        return
    flow = tr[0].flow
    vc.ensure("connect.flow_is_on_tunnel_connection", flow.server_conn is tunnel and flow.client_conn is client)
    vc.ensure("connect.sent_only_to_tunnel_connection", tr[1].connection is tunnel)
    vc.ensure("connect.assembled_once_after_hook", len(assembled) == 1 and seen[0][1] == 0 and assembled[0] is flow.request)
    vc.ensure("connect.data_is_the_assembled_request", tr[1].data == b"<assembled>")
    req = flow.request
    d = req.data
    vc.ensure("connect.method", vc.eq(d.method, b"CONNECT"))
    exp_host = {"name": b"example.com", "ipv4": b"93.184.216.34", "ipv6": b"[2001:db8::1]"}[host_kind]
    vc.ensure("connect.authority_is_destination", d.authority == exp_host + b":" + _port_bytes(vc, port))
    vc.ensure("connect.target_host_port", And(vc.eq(d.host, host), d.port == port))


def _establishing():
    from mitmproxy.proxy.tunnel import TunnelState
    return TunnelState.ESTABLISHING


def _port_bytes(vc, port):
    if vc.mode == "native":
        return str(port).encode()
    import z3
    return SBytes(z3.IntToStr(port.t))


# =============================================================================================
# T2 (bounded): real mode layers + real UpstreamAuth addon, sans-io; the bytes written to every upstream connection are
# split into "requests written to the peer itself" and "payload of an established CONNECT tunnel" (= travels to the origin)

CRED = "u5er:p4ss"


def _cred_value():
    import base64
    return b"Basic " + base64.b64encode(CRED.encode())


T2_MODES = ["regular", "upstream:http://upstream:3128", "reverse:http://target:8000", "transparent", "socks5"]
REQUEST_KINDS = ["absolute_http", "origin_http", "connect_then_plain_http", "connect_only", "absolute_https_then_http_same_hostport"]


class NullTLS:
    """pyOpenSSL Connection stand-in with the identity cipher: the handshake completes at once, records are the plaintext.
    Lets the sans-io harness run the real ServerTLSLayer (TLS to an origin / through a CONNECT tunnel) and read what travels."""

    HELLO, ACK = b"<nulltls-hello>", b"<nulltls-ack>"

    def __init__(self):
        self._in, self._out = bytearray(), bytearray()
        self._said_hello = self._done = False

    def set_connect_state(self):
        pass

    def do_handshake(self):
        # one round trip, like a real handshake: the layer only notices completion when the peer's bytes arrive
        from OpenSSL import SSL
        if self._done:
            return None
        if not self._said_hello:
            self._said_hello = True
            self._out += self.HELLO
        if bytes(self._in[:len(self.ACK)]) == self.ACK:
            del self._in[:len(self.ACK)]
            self._done = True
            return None
        raise SSL.WantReadError()

    def bio_write(self, data):
        self._in += data
        return len(data)

    def bio_read(self, n):
        from OpenSSL import SSL
        if not self._out:
            raise SSL.WantReadError()
        d, self._out = bytes(self._out[:n]), self._out[n:]
        return d

    def recv(self, n):
        from OpenSSL import SSL
        if not self._in or not self._done:
            raise SSL.WantReadError()
        d, self._in = bytes(self._in[:n]), self._in[n:]
        return d

    def sendall(self, data):
        self._out += data

    def get_peer_cert_chain(self):
        return []

    def get_peer_certificate(self):
        return None

    def get_alpn_proto_negotiated(self):
        return b""

    def get_cipher_name(self):
        return "NULL"

    def get_protocol_version_name(self):
        return "TLSv1.3"

    def get_shutdown(self):
        return 0


class NullTlsAddon:
    def tls_start_server(self, data):
        data.ssl_conn = NullTLS()


def _drive(mode_spec, kind, with_auth, n_requests=2, client_tls=False):
    """-> list of (role, connection address, direct bytes, tunnel payload bytes) per upstream connection"""
    from mitmproxy.addons import next_layer, upstream_auth
    from props.addons_sansio import Proxy
    ua = upstream_auth.UpstreamAuth()
    p = Proxy(mode_spec, [next_layer.NextLayer(), ua, NullTlsAddon()], upstream_auth=(CRED if with_auth else None), connection_strategy="lazy")
    if client_tls:
        # secure web proxy: the client speaks TLS to mitmproxy; after termination the HTTP layers see client.tls == True
        p.client.tls = True
        p.client.timestamp_tls_setup = 1.5
    if mode_spec == "socks5":
        p.feed(b"\x05\x01\x00")
        p.feed(b"\x05\x01\x00\x03\x0bexample.com\x00\x50")
    tunnel_from = {}     # id(conn) -> offset at which tunnel payload starts
    acked = set()

    def pump_upstream():
        # answer CONNECT requests of mitmproxy to the upstream proxy with 200, and plain requests with an empty 200
        for conn, data in p.all_server_bytes():
            if id(conn) in tunnel_from or not data:
                continue
            if data.startswith(b"CONNECT ") and data.endswith(b"\r\n\r\n") and data.count(b"\r\n\r\n") == 1:
                tunnel_from[id(conn)] = len(data)
                p.d.data(conn, b"HTTP/1.1 200 Connection established\r\n\r\n")
        # the (identity-cipher) TLS peer answers the handshake
        for conn, data in p.all_server_bytes():
            if NullTLS.HELLO in data and id(conn) not in acked:
                acked.add(id(conn))
                p.d.data(conn, NullTLS.ACK)

    def answer_requests(seen):
        for conn, data in p.all_server_bytes():
            start = tunnel_from.get(id(conn), 0)
            n = data[start:].count(b"\r\n\r\n") if not data.startswith(b"CONNECT ") or id(conn) in tunnel_from else 0
            while seen.get(id(conn), 0) < n:
                seen[id(conn)] = seen.get(id(conn), 0) + 1
                from mitmproxy.connection import ConnectionState
                if conn.state & ConnectionState.CAN_READ:
                    p.d.data(conn, b"HTTP/1.1 200 OK\r\nContent-Length: 0\r\n\r\n")

    seen = {}
    if kind in ("connect_then_plain_http", "connect_only"):
        p.feed(b"CONNECT example.com:80 HTTP/1.1\r\nHost: example.com:80\r\n\r\n")
        pump_upstream()
    if kind != "connect_only":
        for n in range(n_requests):
            if not p.client_alive():
                break
            if kind == "absolute_https_then_http_same_hostport":
                target = (b"https://example.com:8443/r%d" if n == 0 else b"http://example.com:8443/r%d") % n
            else:
                target = b"http://example.com/r%d" % n if kind == "absolute_http" else b"/r%d" % n
            p.feed(b"GET " + target + b" HTTP/1.1\r\nHost: example.com\r\n\r\n")
            pump_upstream()
            answer_requests(seen)
    out = []
    for conn, data in p.all_server_bytes():
        start = tunnel_from.get(id(conn), len(data))
        out.append((conn.address, data[:start], data[start:]))
    return out, p


def _role(mode_spec, address):
    if mode_spec.startswith("upstream") and address == ("upstream", 3128):
        return "upstream_proxy"
    if mode_spec.startswith("reverse") and address == ("target", 8000):
        return "reverse_target"
    return "origin"


def bounded(tier, seed):
    import itertools, re
    b = Bounded()
    b.rule = ("proxy mode {regular, upstream:http, reverse:http, transparent, socks5} x client request kind {absolute-form http, origin-form http, CONNECT + plain http inside the tunnel, "
              "CONNECT only} x upstream_auth on/off x 2 requests; observation = bytes written to each upstream connection, split into requests written to the peer and payload of an "
              "established CONNECT tunnel; distinct = the tuple; non-trivial = upstream_auth set and at least one upstream connection written to. "
              "Plus parse_upstream_auth on enumerated specifications.")
    b.bound = "5 modes x 4 request kinds x 2; TLS inside tunnels and https upstream proxies are not exercised (no TLS handshake in the sans-io harness)"
    b.exhaustive = False
    cred = _cred_value()
    for mode_spec, kind, with_auth, client_tls in itertools.product(T2_MODES, REQUEST_KINDS, [True, False], [False, True]):
        if kind.startswith("absolute_http") and not mode_spec.startswith(("regular", "upstream")):
            continue
        if client_tls and not (mode_spec.startswith(("regular", "upstream")) and kind.startswith("absolute_http")):
            continue
        if kind.startswith("connect") and not mode_spec.startswith(("regular", "upstream")):
            continue
        if kind == "origin_http" and mode_spec.startswith(("regular", "upstream")):
            continue
        inp = {"mode": mode_spec, "request": kind, "upstream_auth": with_auth, "client_tls": client_tls}
        try:
            conns, p = _drive(mode_spec, kind, with_auth, client_tls=client_tls)
        except Exception as e:
            import traceback
            b.case((mode_spec, kind, with_auth, client_tls), nontrivial=False)
            b.fail("upstream_auth.total", inp, f"raised {type(e).__name__}: {e} {traceback.format_exc()[-500:]}")
            continue
        b.case((mode_spec, kind, with_auth, client_tls), nontrivial=with_auth and any(d or t for _, d, t in conns))
        if with_auth and mode_spec.startswith("upstream") and kind.startswith("absolute_http"):
            # the plain-http requests must reach the upstream proxy itself, in absolute-form, with the credentials
            direct_all = b"".join(d for a, d, t in conns if _role(mode_spec, a) == "upstream_proxy")
            n_plain = 1 if kind == "absolute_https_then_http_same_hostport" else 2
            if direct_all.count(b"GET http://") != n_plain:
                b.fail("upstream_auth.plain_http_goes_to_the_proxy_itself", inp, f"requests written to the upstream proxy: {direct_all[:300]!r}")
        for address, direct, tunnel_payload in conns:
            role = _role(mode_spec, address)
            dinp = dict(inp, connection=list(address), role=role)
            if cred in tunnel_payload:
                cls = "[plain-http-in-client-tunnel]" if kind == "connect_then_plain_http" and mode_spec.startswith("upstream") else ""
                b.fail("upstream_auth.never_through_a_tunnel" + cls, dinp, f"credentials in tunnel payload (travels to the origin): {tunnel_payload[:200]!r}")
            if cred in direct and role == "origin":
                b.fail("upstream_auth.never_to_origin", dinp, f"{direct[:200]!r}")
            if not with_auth and (b"proxy-authorization" in (direct + tunnel_payload).lower() or b"\r\nauthorization" in (direct + tunnel_payload).lower()):
                b.fail("upstream_auth.no_header_without_option", dinp, f"{direct[:200]!r}")
            if with_auth and role == "upstream_proxy":
                # every request written to the proxy itself (CONNECT or absolute-form http) carries the credentials exactly once
                for head in [h for h in direct.split(b"\r\n\r\n") if h]:
                    if head.lower().count(b"proxy-authorization: " + cred.lower()) != 1:
                        b.fail("upstream_auth.sent_to_upstream_proxy", dinp, f"request to the upstream proxy without (or with repeated) credentials: {head[:200]!r}")
            if with_auth and role == "reverse_target":
                for head in [h for h in direct.split(b"\r\n\r\n") if h]:
                    if head.lower().count(b"authorization: " + cred.lower()) != 1:
                        b.fail("upstream_auth.sent_to_reverse_target", dinp, f"{head[:200]!r}")
    # parse_upstream_auth against the documented format "username:password" (a non-empty user part before a colon)
    from mitmproxy.addons import upstream_auth
    from mitmproxy import exceptions
    import base64
    alphabet = ["u", ":", "\n", "ü", " "]
    maxlen = 4 if tier == "quick" else 5
    for n in range(maxlen + 1):
        for tup in itertools.product(alphabet, repeat=n):
            s = "".join(tup)
            b.case(("parse", s), nontrivial=":" in s)
            want_ok = any(s[i] == ":" and s[i - 1] != "\n" for i in range(1, len(s)))
            try:
                r = upstream_auth.parse_upstream_auth(s)
                ok = True
            except exceptions.OptionsError:
                ok, r = False, None
            except Exception as e:
                b.fail("parse_upstream_auth.total", {"spec": s}, f"raised {type(e).__name__}: {e}")
                continue
            if ok != want_ok:
                b.fail("parse_upstream_auth.accepts_user_colon", {"spec": s}, f"expected accepted={want_ok}")
            if ok and r != b"Basic " + base64.b64encode(s.encode("utf-8")):
                b.fail("parse_upstream_auth.value", {"spec": s}, repr(r))
    return b


# ---------------------------------------------------------------------------------------------
# The addon trusts request.scheme == "http" to mean "plain HTTP": inside a tunnel / in transparent mode the scheme of a
# request is what the *connection* is (TLS or not), never what the client wrote into an absolute-form target or :scheme.

HS = "mitmproxy.proxy.layers.http:HttpStream"


@scenario("transparent.scheme_follows_server_connection", functions=[HS + ".state_wait_for_request_headers"])
def s_scheme(vc):
    from mitmproxy.proxy.layers.http import HTTPMode
    from props.httpstream import mk_stream, mk_request, mk_headers, ev, fields_of
    client_scheme = vc.case("scheme_written_by_client", [b"", b"http", b"https", b"ftp"])
    server_tls = vc.sym_bool("server_tls")
    end_stream = vc.case("end_stream", [False, True])
    req = mk_request(vc, headers=mk_headers(vc, [(b"host", b"example.com")]), scheme=client_scheme, authority=b"example.com" if client_scheme else b"",
                     host="example.com" if client_scheme else "", port=80 if client_scheme else 0)
    st, flow, client, server = mk_stream(vc, "state_wait_for_request_headers", "state_uninitialized", request=req, live=False, server_open=False, mode=HTTPMode.transparent)
    server.tls = server_tls
    port = vc.sym_int("dst_port", lo=1, hi=65535)
    server.address = ("93.184.216.34", port)
    del fields_of(vc, st)["flow"]
    vc.summary("mitmproxy.proxy.layers.http:validate_request", lambda v, mode, request, flag: v.lift(None))
    vh = lambda v, message: v.lift(None)
    vc.summary("mitmproxy.net.http.validate:validate_headers", vh)
    vc.summary("mitmproxy.proxy.layers.http:validate_headers", vh)
    seen = []

    def on_yield(cmd):
        if is_cmd(cmd, "HttpRequestHeadersHook"):
            d = cmd.flow.request.data
            seen.append((d.scheme, d.host, d.port))        # what the addons (UpstreamAuth.requestheaders) see

    out = vc.call(HS + ".state_wait_for_request_headers", st, ev(vc, "RequestHeaders", request=req, end_stream=end_stream, replay_flow=None), on_yield=on_yield)
    vc.ensure("total", out.ok)
    if not out.ok:
        return
    vc.ensure("requestheaders_hook_once", len(seen) == 1)
    if len(seen) != 1:
        return
    scheme, host, rport = seen[0]
    want = b"https" if vc.branch(server_tls) else b"http"
    vc.ensure("at_hook.scheme_is_the_connections", vc.eq(scheme, want))
    vc.ensure("at_hook.destination_is_the_connections", And(vc.eq(host, "93.184.216.34"), rport == port))
    vc.ensure("after.scheme_is_the_connections", vc.eq(req.data.scheme, want))
