"""C04 — Blocked layers process events exactly once, in order.

Contracts on mitmproxy/proxy/layer.py::Layer.handle_event / __process / __continue and NextLayer.
The layer's own `_handle_event` and the generators it returns are *abstract*: a generator is an object whose
send()/__next__() nondeterministically yields a command (blocking or not) or finishes. Ghost log `log` records
('handle', event) when `_handle_event` is started, ('resume', gen, value) for each send/next, ('yielded', gen, cmd),
('finished', gen). The obligations are stated over this log, the emitted trace, `_paused` and the event queue.
"""
from pyvc.api import *
from props.prelude import *

CLAIM = "other"
EXPLANATION = ("T1 proves, per call of Layer.handle_event, for every behaviour of the abstract generators: queueing while paused, "
               "resumption with exactly the awaited completion's reply, FIFO draining that stops at the next pause, blocking=self "
               "marking, and NextLayer's in-order replay — with the per-generator command count and the queue length bounded "
               "(loops unrolled; bounds stated in ASSUMPTIONS), hence 'other' rather than 'proof'. T2 runs the real Layer class "
               "with scripted generators over all interleavings of events and completions up to a bound.")
ASSUMPTIONS = [
    "bounded(4): at most 4 commands per generator activation are explored (while-loops in handle_event/__process unrolled 4x); queue length <= 3",
    "CPython generator protocol: send(v)/next() either returns the next yielded value or raises StopIteration (abstract generator model)",
    "debug logging off (layer.debug is None)",
]
L = "mitmproxy.proxy.layer:Layer"


from mitmproxy.proxy import layer as _layer


class TestLayer(_layer.Layer):
    def _handle_event(self, event):  # summarised (abstract) in every scenario
        raise NotImplementedError


class AbsGen:
    """abstract generator object"""

    def send(self, v):
        return gen_step(self, v)

    def __next__(self):
        return gen_step(self, None)


def gen_step(g, v):  # summarised
    raise NotImplementedError


def setup(vc, paused_cmd=None, paused_gen=None, queue=()):
    log, cmds, gens = [], [], []
    ctx = mk_context(vc)

    def handle(vc_, self_, ev):
        log.append(("handle", ev))
        g = vc_.new("props.C04:AbsGen", gid=len(gens))
        gens.append(g)
        return g

    def step(vc_, g, v):
        log.append(("resume", g, v))
        if vc_.branch(vc_.fresh_bool("more")):
            cmd = vc_.new("mitmproxy.proxy.commands:Command", blocking=vc_.fresh_bool("blocking"), tag=len(cmds))
            cmds.append(cmd)
            log.append(("yielded", g, cmd))
            return cmd
        log.append(("finished", g))
        vc_.raise_(StopIteration)

    vc.summary("props.C04:TestLayer._handle_event", handle)
    vc.summary("props.C04:gen_step", step)
    paused = None
    if paused_cmd is not None:
        paused = vc.construct("mitmproxy.proxy.layer:Paused", paused_cmd, paused_gen)
    lay = vc.new("props.C04:TestLayer", context=ctx, debug=None, _paused=paused, _paused_event_queue=vc.deque(list(queue)))
    return lay, log, cmds, gens


def _is_bound_to(vc, v, obj, name):
    """v is the bound method obj.<name>"""
    if vc.mode == "sym":
        from pyvc.core import SBound
        return isinstance(v, SBound) and v.self_ is obj and v.func.qualname.split(".")[-1] == name
    return getattr(v, "__self__", None) is obj and getattr(getattr(v, "__func__", None), "__name__", "") == name


def queue_items(vc, lay):
    q = lay._paused_event_queue
    return list(q.fields["_items"].items) if vc.mode == "sym" else list(q)


def sem(vc, x):
    """python value of a fresh bool already decided on this path"""
    return vc.branch(x) if vc.mode == "sym" else bool(x)


def check_activation(vc, lay, log, trace, start, tag):
    """Common obligations for one run of handle_event over log[start:]: every yielded command is passed upward exactly
    once and in order; a blocking command pauses the layer and nothing is resumed afterwards."""
    yielded = [e[2] for e in log[start:] if e[0] == "yielded"]
    vc.ensure(tag + ".upward_exactly_yielded_in_order", len(trace) == len(yielded) and all(a is b for a, b in zip(trace, yielded)))
    paused = lay._paused
    is_paused = not isnone(paused)
    # which commands were blocking when yielded? blocking==True was replaced by the layer itself
    marked = [c for c in yielded if c.blocking is lay]
    vc.ensure(tag + ".at_most_one_pause", len(marked) <= 1)
    if marked:
        vc.ensure(tag + ".paused_on_it", is_paused and paused.command is marked[0])
        vc.ensure(tag + ".pause_is_last", yielded[-1] is marked[0] and log[-1][0] == "yielded" and log[-1][2] is marked[0])
    else:
        vc.ensure(tag + ".not_paused", not is_paused)
    for c in yielded:
        if c.blocking is not lay:
            # a command that is not ours to block on must not have been blocking=True (else the parent would block)
            vc.ensure(tag + ".nonblocking_passed_unchanged", vc.eq(c.blocking, False))


@scenario("handle_event.idle", functions=[L + ".handle_event"], max_unroll=4)
def s_idle(vc):
    lay, log, cmds, gens = setup(vc)
    ev = vc.new("mitmproxy.proxy.events:DataReceived", connection=lay.context.client, data=vc.sym_bytes("d"))
    out = vc.call(L + ".handle_event", lay, ev)
    vc.ensure("no_exception", out.ok)
    if not out.ok:
        return
    vc.ensure("handled_once_first", len(log) >= 2 and log[0][0] == "handle" and log[0][1] is ev and sum(1 for e in log if e[0] == "handle") == 1)
    vc.ensure("first_resume_with_none", log[1][0] == "resume" and isnone(log[1][2]))
    vc.ensure("queue_untouched", queue_items(vc, lay) == [])
    check_activation(vc, lay, log, out.trace, 0, "act")


@scenario("handle_event.paused.queue", functions=[L + ".handle_event"])
def s_paused_queue(vc):
    n = vc.case("queue_len", [0, 1, 2])
    kind = vc.case("event", ["data", "foreign_completion"])
    pcmd = vc.new("mitmproxy.proxy.commands:Command", blocking=None, tag=100)
    pgen = vc.new("props.C04:AbsGen", gid=99)
    q = [vc.new("mitmproxy.proxy.events:Start") for _ in range(n)]
    lay, log, cmds, gens = setup(vc, pcmd, pgen, q)
    pcmd.blocking = lay
    if kind == "data":
        ev = vc.new("mitmproxy.proxy.events:DataReceived", connection=lay.context.client, data=vc.sym_bytes("d"))
    else:
        other = vc.new("mitmproxy.proxy.commands:Command", blocking=True, tag=101)
        ev = vc.new("mitmproxy.proxy.events:HookCompleted", command=other, reply=None)
    old_paused = lay._paused
    out = vc.call(L + ".handle_event", lay, ev)
    vc.ensure("no_exception", out.ok)
    vc.ensure("nothing_handled_or_resumed", log == [])
    vc.ensure("no_output", len(out.trace) == 0)
    qi = queue_items(vc, lay)
    vc.ensure("appended_at_end", len(qi) == n + 1 and all(a is b for a, b in zip(qi, q + [ev])))
    vc.ensure("still_paused_on_same", lay._paused is old_paused)


@scenario("handle_event.paused.completion", functions=[L + ".handle_event", L + "._Layer__continue", L + "._Layer__process"], max_unroll=3)
def s_completion(vc):
    n = vc.case("queue_len", [0, 1, 2])
    pcmd = vc.new("mitmproxy.proxy.commands:Command", blocking=None, tag=100)
    pgen = vc.new("props.C04:AbsGen", gid=99)
    q = [vc.new("mitmproxy.proxy.events:DataReceived", connection=None, data=bytes([i])) for i in range(n)]
    lay, log, cmds, gens = setup(vc, pcmd, pgen, q)
    pcmd.blocking = lay
    reply = vc.sym_str("reply")
    ev = vc.new("mitmproxy.proxy.events:OpenConnectionCompleted", command=pcmd, reply=reply)
    out = vc.call(L + ".handle_event", lay, ev)
    vc.ensure("no_exception", out.ok)
    if not out.ok:
        return
    vc.ensure("resumed_own_generator_with_reply", len(log) >= 1 and log[0][0] == "resume" and log[0][1] is pgen and vc.eq(log[0][2], reply))
    vc.ensure("own_generator_resumed_with_reply_once", sum(1 for e in log if e[0] == "resume" and e[1] is pgen and not isnone(e[2])) == 1)
    handled = [e[1] for e in log if e[0] == "handle"]
    qi = queue_items(vc, lay)
    vc.ensure("fifo_no_loss_no_dup", len(handled) + len(qi) == n and all(a is b for a, b in zip(handled + qi, q)))
    vc.ensure("completion_not_queued", all(e is not ev for e in qi))
    is_paused = not isnone(lay._paused)
    vc.ensure("drained_unless_paused", is_paused or qi == [])
    # a new event is only started when the previous generator finished (never while waiting for a completion)
    ok = True
    for i, e in enumerate(log):
        if e[0] == "handle":
            ok = ok and i > 0 and log[i - 1][0] == "finished"
    vc.ensure("handle_only_after_previous_finished", ok)
    check_activation(vc, lay, log, out.trace, 0, "act")


# ---------------------------------------------------------------------------------------------
N = "mitmproxy.proxy.layer:NextLayer"


@scenario("nextlayer.ask.decided", functions=[N + "._handle_event", N + "._ask"])
def s_next_decided(vc):
    n = vc.case("buffered", [0, 1, 2])
    decided = vc.case("decided", [True, False])
    ctx = mk_context(vc)
    child = vc.new("props.C04:TestLayer", context=ctx, debug=None, _paused=None, _paused_event_queue=vc.deque([]))
    vc.summary("mitmproxy.proxy.layer:Layer.handle_event", lambda v, self_, e: v.gen([v.ghost("child_event", self_, e)]))
    old = [vc.new("mitmproxy.proxy.events:DataReceived", connection=ctx.client, data=vc.sym_bytes(f"d{i}")) for i in range(n)]
    nl = vc.new(N, context=ctx, debug=None, _paused=None, _paused_event_queue=vc.deque([]), layer=None, events=vc.list(old),
                _ask_on_start=False, _handle=None)
    ev = vc.new("mitmproxy.proxy.events:DataReceived", connection=ctx.client, data=vc.sym_bytes("new"))

    def on_yield(cmd):
        if is_cmd(cmd, "NextLayerHook") and decided:
            cmd.data.layer = child

    out = vc.call(N + "._handle_event", nl, ev, on_yield=on_yield)
    vc.ensure("no_exception", out.ok)
    if not out.ok:
        return
    tr = out.trace
    vc.ensure("hook_first", len(tr) >= 1 and is_cmd(tr[0], "NextLayerHook") and tr[0].data is nl)
    ghosts = [c for c in tr[1:]]
    evs = nl.events.items if vc.mode == "sym" else nl.events
    if decided:
        exp = old + [ev]
        vc.ensure("replayed_in_arrival_order_exactly_once", len(ghosts) == len(exp) and all(isinstance(g, (STuple, tuple)) and g[1] is child and g[2] is e for g, e in zip(ghosts, exp)))
        vc.ensure("buffer_cleared", len(evs) == 0)
        f = nl.fields if vc.mode == "sym" else nl.__dict__
        # later events (directly, via a queued replay in Layer.__continue, or via a stale reference) must enter the chosen
        # layer through its *handle_event* (which does the pausing/queueing), never through its raw _handle_event
        for k in ("handle_event", "_handle_event", "_handle"):
            vc.ensure(f"rebinds.{k}.to_child_handle_event", k in f and _is_bound_to(vc, f[k], child, "handle_event"))
    else:
        vc.ensure("nothing_forwarded", ghosts == [])
        vc.ensure("buffered_in_order", len(evs) == n + 1 and all(a is b for a, b in zip(evs, old + [ev])))


@scenario("nextlayer.undecided.every_event_is_buffered", functions=[N + "._handle_event", N + "._ask"])
def s_next_buffers(vc):
    """While no layer has been chosen every event - data, Start, and close events of either connection - is kept in arrival
    order for the later replay; only a close of the *client* makes the NextLayer give up (CloseConnection(client))."""
    n = vc.case("buffered", [0, 2])
    kind = vc.case("event", ["closed.server", "closed.client", "start.no_ask", "data.undecided"])
    ctx = mk_context(vc)
    old = [vc.new("mitmproxy.proxy.events:DataReceived", connection=ctx.client, data=vc.sym_bytes(f"d{i}")) for i in range(n)]
    nl = vc.new(N, context=ctx, debug=None, _paused=None, _paused_event_queue=vc.deque([]), layer=None, events=vc.list(old),
                _ask_on_start=False, _handle=None)
    if kind == "closed.server":
        ev = vc.new("mitmproxy.proxy.events:ConnectionClosed", connection=ctx.server)
    elif kind == "closed.client":
        ev = vc.new("mitmproxy.proxy.events:ConnectionClosed", connection=ctx.client)
    elif kind == "start.no_ask":
        ev = vc.new("mitmproxy.proxy.events:Start")
    else:
        ev = vc.new("mitmproxy.proxy.events:DataReceived", connection=ctx.server, data=vc.sym_bytes("new"))
    out = vc.call(N + "._handle_event", nl, ev, on_yield=lambda cmd: None)   # the hook (if any) decides nothing
    vc.ensure("no_exception", out.ok)
    if not out.ok:
        return
    evs = nl.events.items if vc.mode == "sym" else nl.events
    vc.ensure("buffered_in_arrival_order", len(evs) == n + 1 and all(a is b for a, b in zip(evs, old + [ev])))
    kinds = trace_kinds(out.trace)
    if kind == "closed.client":
        vc.ensure("client_gone.gives_up", kinds == ["CloseConnection"] and out.trace[0].connection is ctx.client)
    elif kind == "data.undecided":
        vc.ensure("data.asks_once", kinds == ["NextLayerHook"])
    else:
        vc.ensure("nothing_emitted", kinds == [])


# =============================================================================================
# T2: the real Layer class with scripted generators under every interleaving of events and completions (bounded)

def bounded(tier, seed):
    import itertools
    from mitmproxy.proxy import layer as ML, events, commands, context
    from props import sansio

    b = Bounded()
    depth = 5 if tier == "quick" else 7
    b.rule = ("scripts: each incoming event E_i makes _handle_event yield a scripted list of commands over {n: non-blocking, B: blocking}; "
              "schedules: all interleavings of event arrivals and completions of the currently awaited command up to the given length; "
              "checked against a reference executor (FIFO queue, one activation at a time); distinct = (script, schedule); non-trivial = schedule contains a completion")
    b.bound = f"<= 3 events, <= 3 commands per event, schedules of length <= {depth}"
    b.exhaustive = True

    class Cmd(commands.Command):
        def __init__(self, name, blocking):
            self.name = name
            self.blocking = blocking

    import dataclasses
    import warnings

    with warnings.catch_warnings():
        warnings.simplefilter("ignore")

        @dataclasses.dataclass
        class Done(events.CommandCompleted):
            command: Cmd
            reply: object

    scripts_per_event = ["", "n", "B", "nB", "Bn", "BB", "nBn"]
    for script in itertools.product(scripts_per_event, repeat=2 if tier == "quick" else 3):
        nev = len(script)
        # schedule symbols: 'e' = next event arrives, 'c' = completion of the awaited command (if any)
        for sched in itertools.product("ec", repeat=depth):
            if sched.count("e") > nev:
                continue
            record = []  # (event index, position, got reply)

            class T(ML.Layer):
                def _handle_event(self, event):
                    i = event.idx
                    record.append(("start", i))
                    for k, ch in enumerate(script[i]):
                        c = Cmd(f"{i}.{k}", ch == "B")
                        r = yield c
                        record.append(("after", i, k, r))
                    record.append(("end", i))

            ctx = context.Context(sansio.make_client(), sansio.make_options())
            lay = T(ctx)
            awaited = []
            out = []
            ei = 0
            ok = True
            for s in sched:
                if s == "e":
                    ev = events.Start()
                    ev.idx = ei
                    ei += 1
                elif s == "c":
                    if not awaited:
                        continue
                    c = awaited.pop(0)
                    ev = Done(c, f"reply-{c.name}")
                for c in lay.handle_event(ev):
                    out.append(c.name)
                    if c.blocking is True:
                        ok = False  # parent would block
                        b.fail("layer.blocking_marked_self", {"script": script, "schedule": "".join(sched)}, f"command {c.name} left blocking=True")
                    if c.blocking is lay:
                        awaited.append(c)
            b.case((script, "".join(sched)), nontrivial="c" in sched)
            # reference: events processed strictly in arrival order, one at a time; each blocking command resumes with its own reply
            starts = [r[1] for r in record if r[0] == "start"]
            if starts != sorted(starts) or len(set(starts)) != len(starts):
                b.fail("layer.in_order_exactly_once", {"script": script, "schedule": "".join(sched)}, f"starts={starts}")
            # no event starts while another is unfinished
            open_ = None
            for r in record:
                if r[0] == "start":
                    if open_ is not None:
                        b.fail("layer.no_start_while_waiting", {"script": script, "schedule": "".join(sched)}, str(record))
                        break
                    open_ = r[1]
                elif r[0] == "end":
                    open_ = None
                elif r[0] == "after":
                    i, k, rep = r[1], r[2], r[3]
                    want = f"reply-{i}.{k}" if script[i][k] == "B" else None
                    if rep != want:
                        b.fail("layer.resumed_with_own_reply", {"script": script, "schedule": "".join(sched)}, f"{r} expected {want}")
            if len(out) != len(set(out)):
                b.fail("layer.command_emitted_once", {"script": script, "schedule": "".join(sched)}, str(out))
    return b
