"""C15 — Upstream certificates are verified unless verification is disabled.

T1: how mitmproxy *configures* verification (TlsConfig.tls_start_server as an effect trace on pyOpenSSL / the OpenSSL FFI,
net.tls.create_proxy_server_context) and what the TLS layer does when the handshake fails (error result, failure hook,
close, nothing forwarded).  That OpenSSL then rejects each bad chain/name is OpenSSL's behaviour: bounded (T2) with real
in-memory handshakes over a certificate x SNI x trust matrix.

OpenSSL constants used in the contract (openssl/x509v3.h, openssl/ssl.h): X509_CHECK_FLAG_NO_PARTIAL_WILDCARDS = 0x4,
X509_CHECK_FLAG_NEVER_CHECK_SUBJECT = 0x20, SSL_VERIFY_NONE = 0, SSL_VERIFY_PEER = 1.
"""
from pyvc.api import *
from props.prelude import *

CLAIM = "other"
EXPLANATION = (
    "T1 proves, for all SNI/address strings and option values, that tls_start_server asks for VERIFY_PEER unless ssl_insecure, passes the configured "
    "trust anchors, defaults the SNI to client SNI or server address, sets NO_PARTIAL_WILDCARDS|NEVER_CHECK_SUBJECT and set1_host(idna(sni)) + SNI, or "
    "set1_ip(packed) without SNI for IP literals, each checked == 1, and refuses to go on without a name to check; that create_proxy_server_context passes the "
    "verify mode to set_verify and loads the configured store (certifi by default); and that a handshake error ends in (False, err), the failure hook, a close of "
    "the tunnel connection and an error reply to the waiting OpenConnection — no SendData. That OpenSSL, so configured, accepts exactly the chains the statement "
    "lists is checked bounded (T2) with real handshakes over 16 certificate shapes x SNI forms x {CA file, CA directory, ssl_insecure} and the certificates shipped with the repository."
)
ASSUMPTIONS = [
    "the OpenSSL.SSL module seen by tlsconfig.tls_start_server is replaced by a recording stand-in (props/tlsstub.py FakeSSLModule): the contract is the sequence of calls; "
    "net.tls.create_proxy_server_context is summarised there (it has its own scenario)",
    "ipaddress.ip_address / str.encode('idna') are uninterpreted (parse result and A-label form are functions of the text)",
    "in the TLSLayer scenarios the SSL connection is the scripted stand-in ScriptedSSL (in-order byte pipes; do_handshake outcome scripted)",
    "mitmproxy.ctx.options is the options object built by the scenario",
]
A = "mitmproxy.addons.tlsconfig"
NT = "mitmproxy.net.tls"
L = "mitmproxy.proxy.layers.tls"
NO_PARTIAL_WILDCARDS, NEVER_CHECK_SUBJECT = 0x4, 0x20


def set_ctx_options(vc, opts):
    import mitmproxy.ctx as mctx
    mctx.options = opts


def _entries(vc, trace, tag):
    items = trace.items if vc.mode == "sym" else trace
    out = []
    for e in items:
        t = e.items if vc.mode == "sym" else e
        if (t[0].concrete() if vc.mode == "sym" else t[0]) == tag:
            out.append(t)
    return out


def _tags(vc, trace):
    items = trace.items if vc.mode == "sym" else trace
    return [(e.items[0].concrete() if vc.mode == "sym" else e[0]) for e in items]


def is_ip_literal(vc, val):
    if vc.mode == "native":
        import ipaddress
        try:
            ipaddress.ip_address(val)
            return True
        except ValueError:
            return False
    import z3
    from pyvc.libx_addons import ip_version_t
    v = ip_version_t(val.t)
    return SBool(z3.Or(v == 4, v == 6))


def idna_ok(vc, val):
    if vc.mode == "native":
        try:
            val.encode("idna")
            return True
        except UnicodeError:
            return False
    import z3
    from pyvc import lib
    return SBool(lib.uf("idna_encodable", z3.StringSort(), z3.BoolSort())(val.t))


def idna_form(vc, val):
    if vc.mode == "native":
        return val.encode("idna")
    import z3
    from pyvc import lib
    return SBytes(lib.uf("enc_idna", z3.StringSort(), z3.StringSort())(val.t))


SNI_CANDS = [{"server_sni_v": v, "client_sni_v": c, "host": h} for v in ["example.com", "1.2.3.4", "::1", "münchen.de", "", "a..b", "X.org"]
             for c, h in (("client.example", "addr.example"), ("", "10.0.0.1"), ("c", ""))]


@scenario("tls_start_server", functions=[A + ":TlsConfig.tls_start_server", A + ":_default_ciphers"], candidates=SNI_CANDS)
def s_start_server(vc):
    from mitmproxy.net import tls as net_tls
    from props.tlsstub import mk_fake_ssl_module, patch_global
    insecure = vc.sym_bool("ssl_insecure")
    rc_ok = vc.case("openssl_returns_1", [True, False])
    preset = vc.case("addon_provided_ssl_conn", [False, True])
    ca_file = vc.resolve(vc.opt("trusted_ca", vc.sym_str("trusted_ca_v")))
    ca_dir = vc.resolve(vc.opt("trusted_confdir", vc.sym_str("trusted_confdir_v")))
    http2 = vc.sym_bool("http2")
    set_ctx_options(vc, mk_options(vc, ssl_insecure=insecure, http2=http2, ciphers_server=None, tls_version_server_min="TLS1_2", tls_version_server_max="UNBOUNDED",
                                   client_certs=None, tls_ecdh_curve_server=None, ssl_verify_upstream_trusted_confdir=ca_dir, ssl_verify_upstream_trusted_ca=ca_file))
    fake, trace = mk_fake_ssl_module(vc, 1 if rc_ok else 0)
    patch_global(vc, A, "SSL", fake)
    ctx_calls = []

    def create_ctx(v, **kw):
        ctx_calls.append(kw)
        return v.ghost("ssl-context", len(ctx_calls))

    vc.summary(NT + ":create_proxy_server_context", create_ctx)
    server_sni = vc.resolve(vc.opt("server_sni", vc.sym_str("server_sni_v")))
    client_sni = vc.resolve(vc.opt("client_sni", vc.sym_str("client_sni_v")))
    host = vc.sym_str("host")
    client = mk_client(vc, sni=client_sni, alpn_offers=vc.list([b"h2", b"http/1.1"]))
    server = mk_server(vc, address=(host, 443), sni=server_sni, alpn_offers=vc.list([]), cipher_list=vc.list([]))
    ctx = mk_context(vc, client, server)
    existing = vc.new("props.tlsstub:FakeConn", trace=vc.list([]), ctx=None, _ssl=None) if preset else None
    data = vc.new("mitmproxy.tls:TlsData", conn=server, context=ctx, ssl_conn=existing, is_dtls=False)
    addon = vc.new(A + ":TlsConfig")
    out = vc.call(A + ":TlsConfig.tls_start_server", addon, data)
    if preset:
        vc.ensure("preset.left_alone", out.ok and data.ssl_conn is existing and len(_tags(vc, trace)) == 0 and len(ctx_calls) == 0)
        return
    # SNI default: client's SNI, else the server address
    if isnone(server_sni):
        want_sni = client_sni if (not isnone(client_sni) and vc.branch(len_(client_sni) > 0)) else host
    else:
        want_sni = server_sni
    vc.ensure("sni.default_client_sni_or_address", vc.eq(server.sni, want_sni))
    has_name = vc.branch(len_(want_sni) > 0)
    ip = has_name and vc.branch(is_ip_literal(vc, want_sni))
    enc_ok = (not has_name) or ip or vc.branch(idna_ok(vc, want_sni))
    tags = _tags(vc, trace)
    # verification mode and trust anchors handed to the context factory
    vc.ensure("context.created_once", len(ctx_calls) == 1)
    if len(ctx_calls) == 1:
        kw = ctx_calls[0]
        vc.ensure("context.verify_peer_unless_insecure", If(insecure, vc.eq(kw["verify"], net_tls.Verify.VERIFY_NONE), vc.eq(kw["verify"], net_tls.Verify.VERIFY_PEER)))
        vc.ensure("context.trust_anchors_from_options", And(vc.eq(kw["ca_pemfile"], ca_file), vc.eq(kw["ca_path"], ca_dir)))
        vc.ensure("context.legacy_renegotiation_only_if_insecure", vc.eq(kw["legacy_server_connect"], insecure))
        vc.ensure("context.client_method", vc.eq(kw["method"], net_tls.Method.TLS_CLIENT_METHOD))
    if not has_name:
        # nothing to check the certificate against
        if vc.branch(insecure):
            vc.ensure("noname.insecure.ok_without_host_check", out.ok and "set1_host" not in tags and "set1_ip" not in tags and "set_tlsext_host_name" not in tags and tags[-1:] == ["set_connect_state"])
        else:
            vc.ensure("noname.verify.raises_ValueError", (not out.ok) and issubclass(out.raised_type(), ValueError))
            vc.ensure("noname.verify.no_connection_handed_out", isnone(data.ssl_conn))   # was KF-C15-1, fixed in 140dd94e3
            vc.ensure("noname.verify.never_connect_state", "set_connect_state" not in tags)
        return
    if not enc_ok:
        vc.ensure("unencodable_name.no_usable_connection", (not out.ok) and "set_connect_state" not in tags)
        return
    if not rc_ok:
        vc.ensure("openssl_failure.raises", (not out.ok) and "set_connect_state" not in tags)
        return
    vc.ensure("named.no_exception", out.ok)
    if not out.ok:
        return
    conns = _entries(vc, trace, "Connection")
    vc.ensure("named.connection_from_created_context", len(conns) == 1 and isa(data.ssl_conn, _cls("props.tlsstub:FakeConn")))
    hf = _entries(vc, trace, "set_hostflags")
    vc.ensure("named.hostflags_once", len(hf) == 1)
    if len(hf) == 1:
        vc.ensure("named.hostflags_no_partial_wildcards_never_check_subject", vc.eq(hf[0][2], NO_PARTIAL_WILDCARDS | NEVER_CHECK_SUBJECT))
        vc.ensure("named.param_of_this_connection", _param_of(vc, hf[0][1], data.ssl_conn))
    if ip:
        s1 = _entries(vc, trace, "set1_ip")
        vc.ensure("ip.set1_ip_once_no_host_no_sni", len(s1) == 1 and "set1_host" not in tags and "set_tlsext_host_name" not in tags)
        if len(s1) == 1:
            vc.ensure("ip.packed_address_and_length", And(_packed_ok(vc, s1[0][2], want_sni), s1[0][3] == len_(s1[0][2])))
            vc.ensure("ip.param_of_this_connection", _param_of(vc, s1[0][1], data.ssl_conn))
    else:
        s1 = _entries(vc, trace, "set1_host")
        sn = _entries(vc, trace, "set_tlsext_host_name")
        vc.ensure("host.set1_host_and_sni_once_no_ip", len(s1) == 1 and len(sn) == 1 and "set1_ip" not in tags)
        if len(s1) == 1 and len(sn) == 1:
            a = idna_form(vc, want_sni)
            vc.ensure("host.checked_name_is_idna_of_sni", And(s1[0][2] == a, s1[0][3] == len_(a)))
            vc.ensure("host.sent_sni_is_idna_of_sni", sn[0][1] == a)
            vc.ensure("host.param_of_this_connection", _param_of(vc, s1[0][1], data.ssl_conn))
    vc.ensure("named.connect_state_last", tags[-1:] == ["set_connect_state"])
    # ALPN mirrors the client's offers (h2 removed when http2 is off)
    al = _entries(vc, trace, "set_alpn_protos")
    vc.ensure("alpn.offered_once", len(al) == 1)
    if len(al) == 1:
        protos = al[0][1].items if vc.mode == "sym" else al[0][1]
        if vc.branch(http2):
            vc.ensure("alpn.mirrors_client", len(protos) == 2 and vc.truthy(And(protos[0] == b"h2", protos[1] == b"http/1.1")))
        else:
            vc.ensure("alpn.no_h2_when_disabled", len(protos) == 1 and vc.truthy(protos[0] == b"http/1.1"))


def _cls(ref):
    from pyvc.vc import resolve_ref
    return resolve_ref(ref)[2]


def _param_of(vc, param, conn):
    """param == SSL_get0_param(conn._ssl) of the stand-in"""
    p = param.items if vc.mode == "sym" else param
    return len(p) == 2 and p[1] is conn._ssl


def _packed_ok(vc, packed, text):
    """packed == network-order bytes of the numeric address (4 bytes for IPv4, 16 for IPv6)"""
    if vc.mode == "native":
        import ipaddress
        return packed == ipaddress.ip_address(text).packed
    import z3
    from pyvc.libx_addons import ip_version_t, ip_value_t
    ver, val = ip_version_t(text.t), ip_value_t(text.t)
    be = lambda w: from_codes([SInt((val / (256 ** (w - 1 - k))) % 256) for k in range(w)])
    return If(SBool(ver == 4), packed == be(4), packed == be(16))


# ---------------------------------------------------------------------------------------------
# net.tls.create_proxy_server_context: verify mode and trust store actually reach the OpenSSL context


@scenario("create_proxy_server_context", functions=[NT + ":create_proxy_server_context", NT + ":_create_ssl_context"])
def s_create_ctx(vc):
    from OpenSSL import SSL
    from mitmproxy.net import tls as net_tls
    from props.tlsstub import patch_global
    verify_peer = vc.case("verify", [True, False])
    trust = vc.case("trust", ["default", "file", "dir", "both"])
    fail_load = vc.case("store_loads", [False, True])
    legacy = vc.case("legacy_server_connect", [False, True])
    trace = vc.list([])
    fake = vc.new("props.tlsstub:FakeSSLModuleCtx", trace=trace, _lib=vc.new("props.tlsstub:FakeCtxLib", trace=trace), fail_load=fail_load, Error=SSL.Error)
    patch_global(vc, NT, "SSL", fake)
    patch_global(vc, NT, "log_master_secret", None)
    vc.summary("certifi.core:where", lambda v: v.lift("CERTIFI-BUNDLE"))
    ca_file = vc.sym_str("ca_file") if trust in ("file", "both") else None
    ca_dir = vc.sym_str("ca_dir") if trust in ("dir", "both") else None
    verify = net_tls.Verify.VERIFY_PEER if verify_peer else net_tls.Verify.VERIFY_NONE
    kw = dict(method=net_tls.Method.TLS_CLIENT_METHOD, min_version=net_tls.Version.TLS1_2, max_version=net_tls.Version.UNBOUNDED, cipher_list=("ECDHE-RSA-AES128-GCM-SHA256",),
              ecdh_curve=None, verify=verify, ca_path=ca_dir, ca_pemfile=ca_file, client_cert=None, legacy_server_connect=legacy)
    fn = NT + ":create_proxy_server_context" if vc.mode == "sym" else net_tls.create_proxy_server_context.__wrapped__  # natively bypass the lru_cache
    out = vc.call(fn, **kw)
    sv = _entries(vc, trace, "set_verify")
    lv = _entries(vc, trace, "load_verify_locations")
    vc.ensure("verify_mode.set_once", len(sv) == 1)
    if len(sv) == 1:
        vc.ensure("verify_mode.peer_unless_disabled", vc.eq(sv[0][1], 1 if verify_peer else 0))  # SSL_VERIFY_PEER / SSL_VERIFY_NONE
        vc.ensure("verify_mode.no_callback_overrides_result", isnone(sv[0][2]))
    vc.ensure("store.loaded_once", len(lv) == 1)
    if len(lv) == 1:
        if trust == "default":
            vc.ensure("store.certifi_when_unconfigured", And(vc.eq(lv[0][1], "CERTIFI-BUNDLE"), isnone(lv[0][2])))
        else:
            vc.ensure("store.configured_anchors_only", And(vc.eq(lv[0][1], ca_file), vc.eq(lv[0][2], ca_dir)))
    if fail_load:
        vc.ensure("store.load_failure_is_an_error", (not out.ok) and issubclass(out.raised_type(), RuntimeError))
        return
    vc.ensure("no_exception", out.ok)
    if not out.ok:
        return
    tags = _tags(vc, trace)
    vc.ensure("result.is_the_configured_context", isa(out.result, _cls("props.tlsstub:FakeContext")))
    vc.ensure("versions.min_and_max_set", tags.count("min_proto") == 1 and tags.count("max_proto") == 1)
    opts = [e[1] for e in _entries(vc, trace, "set_options")]
    vc.ensure("legacy_option.iff_requested", len(opts) == (2 if legacy else 1))


# ---------------------------------------------------------------------------------------------
# handshake failure in the TLS layer: error result, failure hook, close, error reply to the waiting child — nothing sent


def child_event_summary(vc, self_, event):
    return vc.gen([vc.ghost("child_event", self_, event)])


def _kinds(tr):
    return [("ghost:" + (c.items[0].concrete() if isinstance(c, STuple) else c[0])) if isinstance(c, (STuple, tuple)) else (c.cls.__name__ if isinstance(c, SObj) else type(c).__name__) for c in tr]


@scenario("handshake_error", functions=["mitmproxy.proxy.tunnel:TunnelLayer._handle_event", "mitmproxy.proxy.tunnel:TunnelLayer._handshake_finished", "mitmproxy.proxy.tunnel:TunnelLayer.on_handshake_error",
                                       "mitmproxy.proxy.tunnel:TunnelLayer.event_to_child", L + ":TLSLayer.receive_handshake_data", L + ":TLSLayer.on_handshake_error", L + ":ServerTLSLayer.on_handshake_error"],
          max_unroll=3)
def s_hs_error(vc):
    from OpenSSL import SSL
    from mitmproxy.connection import ConnectionState
    from mitmproxy.proxy.tunnel import TunnelState
    from props.tlsstub import mk_ssl
    kind = vc.case("openssl_error", ["unknown_ca", "other", "closed_by_peer"])
    waiting = vc.case("child_waits_for_open", [True, False])
    # the TLS layer's connection is context.server, or another Server (ServerTLSLayer(ctx, conn): the https upstream proxy
    # stack of HttpUpstreamProxy.make): a failed handshake with ANY server fires tls_failed_server, never tls_failed_client
    which = vc.case("tls_connection", ["context.server", "other_server"])
    client = mk_client(vc)
    ctx_server = mk_server(vc, state=ConnectionState.OPEN, timestamp_start=2.0, sni="example.com")
    server = ctx_server if which == "context.server" else mk_server(vc, name="upstream-proxy", state=ConnectionState.OPEN, timestamp_start=2.0, sni="proxy.example", address=("proxy.example", 8443))
    ctx = mk_context(vc, client, ctx_server, mk_options(vc))
    errs = {"unknown_ca": [("SSL routines", "", "tlsv1 alert unknown ca")], "other": [("SSL routines", "", "bad signature")]}
    exc = vc.new("OpenSSL.SSL:Error", args=(errs[kind],)) if kind != "closed_by_peer" else None
    ssl = mk_ssl(vc, handshake=[exc] if exc is not None else [])
    child = vc.new("mitmproxy.proxy.layer:Layer", context=ctx, debug=None, _paused=None, _paused_event_queue=None)
    open_cmd = vc.new("mitmproxy.proxy.commands:OpenConnection", connection=server, blocking=True) if waiting else None
    queued = vc.new("mitmproxy.proxy.events:Start")
    layer = vc.new(L + ":ServerTLSLayer", context=ctx, conn=server, tunnel_connection=server, child_layer=child, tls=ssl, tunnel_state=TunnelState.ESTABLISHING,
                   command_to_reply_to=open_cmd, _event_queue=vc.list([] if waiting else [queued]), wait_for_clienthello=False, debug=None, _paused=None, _paused_event_queue=None)
    vc.summary("mitmproxy.proxy.layer:Layer.handle_event", child_event_summary)
    data = vc.sym_bytes("data")
    if kind == "closed_by_peer":
        ev = vc.new("mitmproxy.proxy.events:ConnectionClosed", connection=server)
    else:
        ev = vc.new("mitmproxy.proxy.events:DataReceived", connection=server, data=data)
    out = vc.call("mitmproxy.proxy.tunnel:TunnelLayer._handle_event", layer, ev)
    vc.ensure("no_exception", out.ok)
    if not out.ok:
        return
    kinds = _kinds(out.trace)
    vc.ensure("trace.log_failedhook_close_then_child", kinds == ["Log", "TlsFailedServerHook", "CloseConnection", "ghost:child_event"])
    vc.ensure("no_application_data_sent", "SendData" not in kinds)
    if kinds != ["Log", "TlsFailedServerHook", "CloseConnection", "ghost:child_event"]:
        return
    vc.ensure("error_recorded_on_connection", Not(isnone(server.error)))
    vc.ensure("failed_hook_is_the_server_hook", is_cmd(out.trace[1], "TlsFailedServerHook") and not is_cmd(out.trace[1], "TlsFailedClientHook"))
    vc.ensure("failed_hook_for_this_connection", out.trace[1].data.conn is server and out.trace[1].data.context is ctx)
    if which == "other_server":
        vc.ensure("other_server.context_server_untouched", isnone(ctx_server.error) and vc.truthy(vc.eq(ctx_server.state, ConnectionState.OPEN)))
    vc.ensure("close_the_tunnel_connection", out.trace[2].connection is server)
    vc.ensure("tunnel_closed", vc.eq(layer.tunnel_state, TunnelState.CLOSED))
    cev = out.trace[3][2]
    if waiting:
        vc.ensure("child.gets_error_reply_to_its_open", isa(cev, _cls("mitmproxy.proxy.events:OpenConnectionCompleted")) and cev.command is open_cmd and vc.truthy(Not(isnone(cev.reply))))
        vc.ensure("child.reply_consumed", isnone(layer.command_to_reply_to))
    else:
        vc.ensure("child.gets_queued_events_only", cev is queued and len(layer._event_queue) == 0)
    if kind != "closed_by_peer":
        vc.ensure("ciphertext_given_to_openssl_iff_nonempty", If(len_(data) > 0, len(ssl.inbox) == 1, len(ssl.inbox) == 0))
        if kind == "unknown_ca":
            vc.ensure("error_text.alert", vc.eq(server.error, "tlsv1 alert unknown ca"))


@scenario("handshake_error.client_side", functions=["mitmproxy.proxy.tunnel:TunnelLayer._handle_event", L + ":TLSLayer.receive_handshake_data", L + ":TLSLayer.on_handshake_error", L + ":ClientTLSLayer.on_handshake_error",
                                                   L + ":ClientTLSLayer.receive_handshake_data", L + ":ClientTLSLayer.errored"], max_unroll=3)
def s_hs_error_client(vc):
    """the twin on the client connection: tls_failed_client (never the server hook), close, and later events are swallowed"""
    from mitmproxy.connection import ConnectionState
    from mitmproxy.proxy.tunnel import TunnelState
    from props.tlsstub import mk_ssl
    client = mk_client(vc, sni=vc.resolve(vc.opt("sni", vc.sym_str("sni_v"))))
    server = mk_server(vc, address=("example.com", 443))
    ctx = mk_context(vc, client, server, mk_options(vc))
    exc = vc.new("OpenSSL.SSL:Error", args=([("SSL routines", "", "tlsv1 alert unknown ca")],))
    ssl = mk_ssl(vc, handshake=[exc])
    child = vc.new("mitmproxy.proxy.layer:Layer", context=ctx, debug=None, _paused=None, _paused_event_queue=None)
    queued = vc.new("mitmproxy.proxy.events:Start")
    layer = vc.new(L + ":ClientTLSLayer", context=ctx, conn=client, tunnel_connection=client, child_layer=child, tls=ssl, tunnel_state=TunnelState.ESTABLISHING, command_to_reply_to=None,
                   _event_queue=vc.list([queued]), recv_buffer=b"" if vc.mode == "sym" else bytearray(), client_hello_parsed=True, server_tls_available=False,
                   debug=None, _paused=None, _paused_event_queue=None)
    vc.summary("mitmproxy.proxy.layer:Layer.handle_event", child_event_summary)
    ev = vc.new("mitmproxy.proxy.events:DataReceived", connection=client, data=vc.sym_bytes("data"))
    out = vc.call("mitmproxy.proxy.tunnel:TunnelLayer._handle_event", layer, ev)
    vc.ensure("no_exception", out.ok)
    if not out.ok:
        return
    kinds = _kinds(out.trace)
    vc.ensure("trace.log_clientfailedhook_close", kinds == ["Log", "TlsFailedClientHook", "CloseConnection"])
    if kinds != ["Log", "TlsFailedClientHook", "CloseConnection"]:
        return
    vc.ensure("failed_hook_for_the_client_connection", out.trace[1].data.conn is client and out.trace[1].data.context is ctx)
    vc.ensure("close_the_client_connection", out.trace[2].connection is client)
    vc.ensure("error_recorded", Not(isnone(client.error)))
    vc.ensure("tunnel_closed", vc.eq(layer.tunnel_state, TunnelState.CLOSED))
    vc.ensure("child_never_sees_queued_events_after_failure", not any(k.startswith("ghost:") for k in kinds))


# =============================================================================================
# T2: real handshakes — ServerTLSLayer + TlsConfig.tls_start_server (under the addon manager's exception handling) against an
# in-memory OpenSSL server presenting each certificate shape; outcome compared with an independent RFC 5280/6125 oracle.


def name_matches(sni: str, dns_sans, ip_sans) -> bool:
    """reference identity check of the statement: DNS-ID only (no CN), wildcard only as the complete left-most label and for
    exactly one label, case-insensitive; IP addresses only against iPAddress SANs"""
    import ipaddress
    try:
        ip = ipaddress.ip_address(sni)
    except ValueError:
        ip = None
    if ip is not None:
        return any(ipaddress.ip_address(x) == ip for x in ip_sans)
    a = sni.encode("idna").decode().lower().rstrip(".")
    for d in dns_sans:
        d = d.lower()
        if d == a:
            return True
        if d.startswith("*.") and "." in a:
            first, rest = a.split(".", 1)
            if first and rest == d[2:] and "." in rest:
                return True
    return False


def _pki():
    import datetime
    from props import tlspeer as P
    if getattr(_pki, "cache", None):
        return _pki.cache
    now = datetime.datetime.now(datetime.timezone.utc)
    day = datetime.timedelta(days=1)
    root, rk = P.make_ca("verif root", "root"), P.key("root")
    evil, ek = P.make_ca("verif other root", "evil"), P.key("evil")
    inter, ik = P.make_ca("verif intermediate", "inter", issuer=root, issuer_key=rk, path_length=0), P.key("inter")
    L_ = lambda **k: P.make_leaf(root, rk, **k)
    shapes = {
        # name: (leaf, chain sent, chain_ok, dns sans, ip sans)
        "match": (L_(cn="www.example.org", dns=["www.example.org"]), [], True),
        "mismatch": (L_(cn="other.example", dns=["other.example"]), [], True),
        "wildcard": (L_(cn="*.example.org", dns=["*.example.org"]), [], True),
        "partial_wildcard": (L_(cn="f*.example.org", dns=["f*.example.org", "w*.example.org", "*w.example.org"]), [], True),
        "cn_only": (L_(cn="www.example.org"), [], True),
        "ip_san": (L_(cn="ip", ips=["192.0.2.10", "2001:db8::10"]), [], True),
        "ip_as_dns": (L_(cn="192.0.2.10", dns=["192.0.2.10"]), [], True),
        "multi_san": (L_(cn="a.example", dns=["a.example", "www.example.org", "foo.example.org"]), [], True),
        "idn": (L_(cn="idn", dns=["xn--mnchen-3ya.example"]), [], True),
        "upper_san": (L_(cn="upper", dns=["WWW.Example.ORG"]), [], True),
        "expired": (L_(cn="www.example.org", dns=["www.example.org"], not_before=now - 30 * day, not_after=now - day), [], False),
        "not_yet_valid": (L_(cn="www.example.org", dns=["www.example.org"], not_before=now + day, not_after=now + 30 * day), [], False),
        "self_signed": (P.make_leaf(root, rk, cn="www.example.org", dns=["www.example.org"], self_signed=True), [], False),
        "wrong_ca": (P.make_leaf(evil, ek, cn="www.example.org", dns=["www.example.org"]), [], False),
        "inter_chain": (P.make_leaf(inter, ik, cn="www.example.org", dns=["www.example.org"]), [inter], True),
        "inter_missing": (P.make_leaf(inter, ik, cn="www.example.org", dns=["www.example.org"]), [], False),
    }
    _pki.cache = (root, shapes)
    return _pki.cache


def _sans(cert):
    from cryptography import x509
    try:
        v = cert.extensions.get_extension_for_class(x509.SubjectAlternativeName).value
    except x509.ExtensionNotFound:
        return [], []
    return v.get_values_for_type(x509.DNSName), [str(i) for i in v.get_values_for_type(x509.IPAddress)]


def run_server_handshake(ta, tctx, leaf, leaf_key, chain, sni, address, secret=b"SECRET REQUEST", separate_conn=False):
    """Returns an observation dict of one upstream connection attempt through the real ServerTLSLayer."""
    from OpenSSL import crypto
    from mitmproxy import connection
    from mitmproxy.proxy import commands, context as pctx, events, layer as Lr
    from mitmproxy.proxy.layers import tls as T
    from props import sansio, tlspeer as P

    obs = dict(err="no reply", sent=False)

    class Child(Lr.Layer):
        def _handle_event(self, ev):
            if isinstance(ev, events.Start):
                err = yield commands.OpenConnection(target[0])
                obs["err"] = err
                if not err:
                    obs["sent"] = True
                    yield commands.SendData(target[0], secret)

    target = []
    c = connection.Client(peername=("127.0.0.1", 1), sockname=("127.0.0.1", 8080), timestamp_start=1.0, state=connection.ConnectionState.OPEN)
    ctx = pctx.Context(c, tctx.options)
    if separate_conn:
        # the TLS connection is a Server other than context.server (https upstream proxy: ServerTLSLayer(ctx, conn))
        ctx.server.address = ("origin.example", 443)
        srv = connection.Server(address=address)
        srv.sni = sni
        lay = T.ServerTLSLayer(ctx, srv)
    else:
        ctx.server.address = address
        ctx.server.sni = sni
        srv = ctx.server
        lay = T.ServerTLSLayer(ctx)
    target.append(srv)
    lay.child_layer = Child(ctx)
    log = []
    d = sansio.Driver(lay, hook_policy=P.addon_hook_policy(ta, log))
    peer = P.MemPeer(True, crypto.X509.from_cryptography(leaf), crypto.PKey.from_cryptography_key(leaf_key), chain=[crypto.X509.from_cryptography(x) for x in chain])
    d.start()
    for _ in range(30):
        out = bytes(d.sent[srv.id])
        d.sent[srv.id] = bytearray()
        if not out or srv.state is connection.ConnectionState.CLOSED:
            break
        back = peer.pump(out)
        if back and srv.state is not connection.ConnectionState.CLOSED:
            d.data(srv, back)
    peer.pump()
    names = d.hook_names()
    hook_conns_ok = all(h.data.conn is srv for n_, h in d.hooks if n_.startswith("tls_"))
    obs.update(peer_received=bytes(peer.received), hooks=names, closed=[cc for cc, half in d.closed if cc is srv], conn_error=srv.error, addon_log=log,
               established=names.count("tls_established_server"), failed=names.count("tls_failed_server"), state=lay.tunnel_state.name,
               client_hooks=[n_ for n_ in names if n_.endswith("_client")], hook_conns_ok=hook_conns_ok)
    return obs


def bounded(tier, seed):
    import asyncio
    import os
    import tempfile
    from cryptography import x509
    from mitmproxy.addons import tlsconfig
    from mitmproxy.test import taddons
    from props import tlspeer as P

    b = Bounded()
    b.rule = ("real in-memory handshakes: ServerTLSLayer with TlsConfig.tls_start_server (addon exceptions swallowed as the addon manager does) against an OpenSSL server presenting "
              "16 certificate shapes (matching, mismatched, wildcard, partial wildcards, CN-only, IP SAN, IP text in a dNSName, multi-SAN, A-label, upper-case SAN, expired, not yet valid, "
              "self-signed, wrong CA, intermediate with/without chain) x 10 SNI/address forms (exact, other label, two labels under a wildcard, apex, upper case, U-label, IPv4 x2, IPv6, no SNI => address) "
              "x trust {CA file, hashed CA directory, ssl_insecure} + the certificates shipped in test/mitmproxy/net/data/verificationcerts; outcome compared with an independent RFC 5280/6125 oracle; "
              "on failure: failure hook once, close, error reply, zero bytes decrypted by the server; distinct = (shape, sni, trust); non-trivial = verification on")
    b.bound = "16 x 10 x 3 handshakes (all) + 14 with a Server connection other than context.server (upstream proxy stack) + 12 with the repository's certificates + the no-SNI class"
    b.exhaustive = True
    root, shapes = _pki()

    async def run():
        ta = tlsconfig.TlsConfig()
        with taddons.context(ta) as tctx, tempfile.TemporaryDirectory() as d:
            caf = os.path.join(d, "root.pem")
            open(caf, "wb").write(P.pem(root))
            cadir = os.path.join(d, "cadir")
            os.mkdir(cadir)
            from OpenSSL import crypto
            h = crypto.X509.from_cryptography(root).subject_name_hash()
            open(os.path.join(cadir, f"{h:08x}.0"), "wb").write(P.pem(root))
            tctx.configure(ta, confdir=d)
            snis = [("www.example.org", None), ("foo.example.org", None), ("a.b.example.org", None), ("example.org", None), ("WWW.EXAMPLE.ORG", None), ("m\u00fcnchen.example", None),
                    ("192.0.2.10", None), ("192.0.2.11", None), ("2001:db8::10", None), (None, "www.example.org")]
            trusts = {"file": dict(ssl_insecure=False, ssl_verify_upstream_trusted_ca=caf, ssl_verify_upstream_trusted_confdir=None),
                      "dir": dict(ssl_insecure=False, ssl_verify_upstream_trusted_ca=None, ssl_verify_upstream_trusted_confdir=cadir),
                      "insecure": dict(ssl_insecure=True, ssl_verify_upstream_trusted_ca=None, ssl_verify_upstream_trusted_confdir=None)}

            def check(inp, o, want_ok, insecure):
                if o["client_hooks"] or not o["hook_conns_ok"]:
                    b.fail("hooks.server_side_hooks_for_this_server_connection_only", inp, repr(o["hooks"]))
                ok = o["err"] is None and o["sent"] and o["peer_received"] == b"SECRET REQUEST" and o["established"] == 1 and o["failed"] == 0
                if insecure:
                    if not ok:
                        b.fail("insecure.handshake_succeeds", inp, repr(o)[:400])
                    return
                if want_ok and not ok:
                    b.fail("verify.good_certificate_accepted", inp, repr(o)[:400])
                if not want_ok:
                    if ok or o["err"] is None:
                        b.fail("verify.bad_certificate_rejected", inp, repr(o)[:400])
                    if o["peer_received"]:
                        b.fail("verify.no_application_data_after_failure", inp, repr(o["peer_received"]))
                    if o["failed"] != 1 or o["established"] != 0:
                        b.fail("verify.failure_hook_fires_once", inp, repr(o["hooks"]))
                    if not o["closed"]:
                        b.fail("verify.connection_closed_on_failure", inp, repr(o)[:300])
                    if not o["conn_error"] or not isinstance(o["err"], str) or not o["err"]:
                        b.fail("verify.error_reported", inp, repr(o)[:300])

            for tname, topts in trusts.items():
                tctx.configure(ta, **topts)
                for sname, (leaf, chain, chain_ok) in shapes.items():
                    dns, ips = _sans(leaf)
                    keyname = "leaf"
                    for sni, addr_host in snis:
                        address = (addr_host or "203.0.113.9", 443)
                        effective = sni if sni is not None else addr_host
                        want = chain_ok and name_matches(effective, dns, ips)
                        inp = {"cert": sname, "sni": sni, "address": address[0], "trust": tname}
                        b.case((sname, sni, addr_host, tname), nontrivial=tname != "insecure")
                        try:
                            o = run_server_handshake(ta, tctx, leaf, P.key(keyname), chain, sni, address)
                        except Exception as e:
                            b.fail("harness.total", inp, f"{type(e).__name__}: {e}")
                            continue
                        check(inp, o, want, tname == "insecure")
            # the TLS connection is not context.server (https upstream proxy stack): same verification, same server-side hooks
            tctx.configure(ta, **trusts["file"])
            for sname in ("match", "mismatch", "wildcard", "expired", "wrong_ca", "inter_chain", "cn_only"):
                leaf, chain, chain_ok = shapes[sname]
                dns, ips = _sans(leaf)
                for sni in ("www.example.org", "foo.example.org"):
                    inp = {"cert": sname, "sni": sni, "trust": "file", "connection": "upstream proxy (not context.server)"}
                    b.case(("upstream-proxy", sname, sni))
                    o = run_server_handshake(ta, tctx, leaf, P.key("leaf"), chain, sni, ("proxy.example", 8443), separate_conn=True)
                    check(inp, o, chain_ok and name_matches(sni, dns, ips), False)
            # the repository's own verification certificates
            vdir = os.path.join(os.environ.get("PYVC_REPO", "/repo"), "test/mitmproxy/net/data/verificationcerts")
            from cryptography.hazmat.primitives import serialization

            def load(name):
                cert = x509.load_pem_x509_certificate(open(os.path.join(vdir, name + ".crt"), "rb").read())
                k = serialization.load_pem_private_key(open(os.path.join(vdir, name + ".key"), "rb").read(), None)
                return cert, k

            for tname, topts in (("repo-file", dict(ssl_insecure=False, ssl_verify_upstream_trusted_ca=os.path.join(vdir, "trusted-root.crt"), ssl_verify_upstream_trusted_confdir=None)),
                                 ("repo-dir", dict(ssl_insecure=False, ssl_verify_upstream_trusted_ca=None, ssl_verify_upstream_trusted_confdir=vdir))):
                tctx.configure(ta, **topts)
                for cname, sni, want in (("trusted-leaf", "example.mitmproxy.org", True), ("trusted-leaf", "other.mitmproxy.org", False), ("self-signed", "example.mitmproxy.org", False),
                                         ("trusted-leaf-ip", "192.0.2.42", None), ("trusted-leaf-ip", "example.mitmproxy.org", None), ("trusted-leaf", "EXAMPLE.mitmproxy.org", True)):
                    cert, k = load(cname)
                    dns, ips = _sans(cert)
                    if want is None:
                        want = name_matches(sni, dns, ips)
                    inp = {"cert": "repo:" + cname, "sni": sni, "trust": tname}
                    b.case(("repo", cname, sni, tname))
                    from OpenSSL import crypto as _c
                    from props import tlspeer as _P
                    # run_server_handshake takes cryptography objects
                    o = run_server_handshake(ta, tctx, cert, k, [], sni, ("203.0.113.9", 443))
                    check(inp, o, want, False)
            # no name to check (server.sni == "" opts out of using the address) with verification on: must fail with an error
            tctx.configure(ta, **trusts["file"])
            leaf, chain, _ = shapes["mismatch"]
            o = run_server_handshake(ta, tctx, leaf, P.key("leaf"), chain, "", ("www.example.org", 443))
            b.case(("nosni", "verify"))
            inp = {"cert": "mismatch", "sni": "", "trust": "file"}
            if o["peer_received"] or o["established"]:
                b.fail("nosni.never_established_without_name_check", inp, repr(o)[:300])
            if o["failed"] != 1 or not isinstance(o["err"], str) or not o["closed"]:
                b.fail("nosni.connection_fails_with_error[KF-C15-1]", inp, repr(o)[:400])
            tctx.configure(ta, **trusts["insecure"])
            o = run_server_handshake(ta, tctx, leaf, P.key("leaf"), chain, "", ("www.example.org", 443))
            b.case(("nosni", "insecure"))
            if not (o["err"] is None and o["peer_received"] == b"SECRET REQUEST"):
                b.fail("nosni.insecure_succeeds", {"sni": "", "trust": "insecure"}, repr(o)[:300])

    asyncio.run(run())
    return b
